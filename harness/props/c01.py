"""C01 — marginal trees are exactly what the node and edge tables say.

Families
  views_tiny / views_rand   independent oracle: every tree reached by every access path
                            (trees(), reversed, at(x), at_index(k), first()/last(), aslist())
                            x tree options (sample_lists, root_threshold, tracked_samples):
                            parent(u) against the edge-row definition, intervals against the
                            distinct end-points, and EVERY derived view against the parent map
                            recomputed naively here (nothing of tskit is used by the oracle).
  sweep_tiny / sweep_rand   correspondence: implementation observations (indexes, breakpoints,
                            per-tree quintuply linked arrays, counts, sample lists, roots, edge
                            diffs, traversals) vs the Coq model C01.Model evaluated by vm_compute.
The oracle works on the integer description (gen_ts desc); coordinates reach the implementation
multiplied by desc["scale"] (possibly non-integer) and are mapped back through the exact
inverse table, so only the order structure matters and no float is compared approximately.
"""
import itertools
import math

from harness.runner import Family
from harness.common import cz, cn, clist, copt, cbool
from harness import gen_ts

NULL = -1
ORDERS = ["preorder", "inorder", "postorder", "levelorder", "breadthfirst", "timeasc",
          "timedesc", "minlex_postorder"]


# ----------------------------------------------------------------------------------
# generators
# ----------------------------------------------------------------------------------

def tiny_descs(n, L, time_vectors=None):
    """Exhaustive: n nodes, unit segments [i,i+1) for i<L; every assignment of a parent
    (strictly older node or none) per node per segment; abutting equal parents are emitted
    both squashed and unsquashed (a bit per junction, enumerated); sample flags enumerated
    by the caller.  No sites (the random stream covers them)."""
    if time_vectors is None:
        time_vectors = [tv for tv in itertools.product(range(n), repeat=n)
                        if list(tv) == sorted(tv) and tv[0] == 0
                        and all(b - a <= 1 for a, b in zip(tv, tv[1:]))]
    for tv in time_vectors:
        choices = [[NULL] + [p for p in range(n) if tv[p] > tv[u]] for u in range(n)]
        per_node = []
        for u in range(n):
            rows_u = []
            for ps in itertools.product(choices[u], repeat=L):
                # junctions where the same non-null parent continues
                j = [i for i in range(1, L) if ps[i] == ps[i - 1] and ps[i] != NULL]
                for mask in range(1 << len(j)):
                    split = {j[b] for b in range(len(j)) if mask >> b & 1}
                    es, i = [], 0
                    while i < L:
                        if ps[i] == NULL:
                            i += 1
                            continue
                        k = i + 1
                        while k < L and ps[k] == ps[i] and k not in split:
                            k += 1
                        es.append([i, k, ps[i], u, ""])
                        i = k
                    rows_u.append(es)
            per_node.append(rows_u)
        for combo in itertools.product(*per_node):
            edges = [e for es in combo for e in es]
            yield tv, edges


def mk_desc(L, times, flags, edges, scale=1, sites=(), mutations=()):
    return {"L": L, "scale": scale,
            "nodes": [[f, t, NULL, NULL, ""] for f, t in zip(flags, times)],
            "edges": [list(e) for e in edges], "sites": [list(s) for s in sites],
            "mutations": [list(m) for m in mutations],
            "individuals": [], "populations": [], "migrations": []}


def sample_ids(desc):
    return [u for u, nd in enumerate(desc["nodes"]) if nd[0] & 1]


def rand_opts(rng, desc):
    s = sample_ids(desc)
    tracked = None
    if rng.random() < 0.7:
        tracked = sorted(rng.sample(s, rng.randrange(0, len(s) + 1))) if s else []
    return {"sample_lists": rng.random() < 0.6, "thr": rng.choice([1, 1, 2, 2, 3]),
            "tracked": tracked}


def other_desc(rng, desc):
    """A second description with the same L*scale, for coiterate."""
    o = gen_ts.random_desc(rng, max_nodes=5, max_L=desc["L"], max_sites=0, metadata=False,
                           individuals=False, populations=False, scale=desc["scale"])
    if o["L"] != desc["L"]:
        # stretch: keep the structure, re-declare the length (edges stay inside [0, o.L))
        o["L"] = desc["L"]
    return o


# ----------------------------------------------------------------------------------
# implementation side
# ----------------------------------------------------------------------------------

def lattice(desc):
    """exact inverse of the coordinate map, in half-units: float -> int h (x = h/2)."""
    s = desc.get("scale", 1)
    inv = {}
    for h in range(0, 2 * desc["L"] + 1):
        x = h / 2 if h % 2 else h // 2
        inv[float(x * s)] = h
    return inv


def _ints(a):
    return [int(x) for x in a]


def _safe_ints(f):
    """list of ints, or the exception class if producing / iterating the result raises
    (a view that raises on a valid tree is an observation for the oracle, not an adapter error)"""
    try:
        return [int(x) for x in f()]
    except Exception as e:
        return ["__exc__:" + type(e).__name__]


def obs_tree(ts, t, inv, full=True, variadic=False):
    """Everything the public Tree API says about tree t (JSON-able, no floats except
    through the exact inverse lattice)."""
    import tskit
    N = ts.num_nodes
    V = t.virtual_root
    o = {}
    o["index"] = int(t.index)
    o["interval"] = [inv.get(float(t.interval.left), repr(t.interval.left)),
                     inv.get(float(t.interval.right), repr(t.interval.right))]
    o["V"] = int(V)
    o["parent_array"] = _ints(t.parent_array)
    o["left_child_array"] = _ints(t.left_child_array)
    o["right_child_array"] = _ints(t.right_child_array)
    o["left_sib_array"] = _ints(t.left_sib_array)
    o["right_sib_array"] = _ints(t.right_sib_array)
    o["num_children_array"] = _ints(t.num_children_array)
    o["edge_array"] = _ints(t.edge_array)
    o["num_edges"] = int(t.num_edges)
    o["num_roots"] = int(t.num_roots)
    o["roots"] = _ints(t.roots)
    o["left_root"] = int(t.left_root)
    o["right_root"] = int(t.right_root)
    o["root_threshold"] = int(t.root_threshold)
    o["num_samples"] = [int(t.num_samples(u)) for u in range(N + 1)]
    o["num_samples_none"] = int(t.num_samples())
    o["num_tracked"] = [int(t.num_tracked_samples(u)) for u in range(N + 1)]
    o["num_tracked_none"] = int(t.num_tracked_samples())
    import _tskit
    has_lists = bool(t._ll_tree.get_options() & _tskit.SAMPLE_LISTS)
    o["sample_lists"] = has_lists
    if has_lists:
        o["left_sample"] = [int(t.left_sample(u)) for u in range(N + 1)]
        o["right_sample"] = [int(t.right_sample(u)) for u in range(N + 1)]
        o["next_sample"] = [int(t.next_sample(i)) for i in range(ts.num_samples)]
    o["sites"] = [int(s.id) for s in t.sites()]
    o["mutations"] = [int(m.id) for m in t.mutations()]
    o["num_sites"] = int(t.num_sites)
    o["num_mutations"] = int(t.num_mutations)
    if not full:
        return o
    o["parent"] = [int(t.parent(u)) for u in range(N + 1)]
    o["children"] = [_ints(t.children(u)) for u in range(N + 1)]
    o["num_children"] = [int(t.num_children(u)) for u in range(N + 1)]
    o["left_child"] = [int(t.left_child(u)) for u in range(N + 1)]
    o["right_child"] = [int(t.right_child(u)) for u in range(N + 1)]
    o["left_sib"] = [int(t.left_sib(u)) for u in range(N + 1)]
    o["right_sib"] = [int(t.right_sib(u)) for u in range(N + 1)]
    o["edge"] = [int(t.edge(u)) for u in range(N + 1)]
    o["siblings"] = [_ints(t.siblings(u)) for u in range(N + 1)]
    o["ancestors"] = [_ints(t.ancestors(u)) for u in range(N + 1)]
    o["depth"] = [int(t.depth(u)) for u in range(N + 1)]
    bl = []
    for u in range(N + 1):
        b = t.branch_length(u)
        bl.append(int(b) if float(b) == int(b) else repr(b))
    o["branch_length"] = bl
    tb = t.total_branch_length
    o["total_branch_length"] = int(tb) if float(tb) == int(tb) else repr(tb)
    o["time"] = [(int(t.time(u)) if t.time(u) != math.inf else "inf") for u in range(N + 1)]
    o["is_leaf"] = [bool(t.is_leaf(u)) for u in range(N + 1)]
    o["is_internal"] = [bool(t.is_internal(u)) for u in range(N + 1)]
    o["is_isolated"] = [bool(t.is_isolated(u)) for u in range(N + 1)]
    o["is_sample"] = [bool(t.is_sample(u)) for u in range(N)]
    o["is_root"] = [bool(t.is_root(u)) for u in range(N)]
    o["mrca"] = [[int(t.mrca(u, v)) for v in range(N + 1)] for u in range(N + 1)]
    o["is_descendant"] = [[bool(t.is_descendant(u, v)) for v in range(N + 1)] for u in range(N + 1)]
    o["parent_dict"] = sorted([int(k), int(v)] for k, v in t.parent_dict.items())
    o["has_single_root"] = bool(t.has_single_root)
    o["has_multiple_roots"] = bool(t.has_multiple_roots)
    try:
        o["root"] = int(t.root)
    except ValueError:
        o["root"] = "ValueError"
    trav = {}
    for order in ORDERS:
        per = {"none": _safe_ints(lambda: t.nodes(order=order))}
        for u in range(N + 1):
            per[str(u)] = _safe_ints(lambda: t.nodes(u, order=order))
        trav[order] = per
    o["nodes"] = trav
    o["preorder_arr"] = {"none": _ints(t.preorder())}
    o["postorder_arr"] = {"none": _ints(t.postorder())}
    o["timeasc_arr"] = {"none": _ints(t.timeasc())}
    o["timedesc_arr"] = {"none": _ints(t.timedesc())}
    for u in range(N + 1):
        o["preorder_arr"][str(u)] = _ints(t.preorder(u))
        o["postorder_arr"][str(u)] = _ints(t.postorder(u))
        o["timeasc_arr"][str(u)] = _ints(t.timeasc(u))
        o["timedesc_arr"][str(u)] = _ints(t.timedesc(u))
    o["leaves"] = {"none": _safe_ints(lambda: t.leaves())}
    o["samples"] = {"none": _safe_ints(lambda: t.samples())}
    for u in range(N + 1):
        o["leaves"][str(u)] = _safe_ints(lambda: t.leaves(u))
        o["samples"][str(u)] = _safe_ints(lambda: t.samples(u))
    o["path_length"] = None
    if not variadic:
        return o
    # variadic / multi-form query API
    import random as _random
    rr = _random.Random(1000003 * N + int(t.index))
    pool = list(range(N + 1)) + [N + 1, -1]
    tuples = [(0,), (V,)]
    if N <= 3:
        tuples += [(a, b, c) for a in pool for b in pool for c in pool]
    else:
        tuples += [tuple(rr.choice(pool) for _ in range(3)) for _ in range(90)]
        real = list(range(N + 1))
        tuples += [tuple(rr.choice(real) for _ in range(3)) for _ in range(60)]
    tuples += [tuple(rr.choice(pool) for _ in range(4)) for _ in range(40)]
    tuples += [tuple(rr.choice(range(N + 1)) for _ in range(rr.choice([4, 5]))) for _ in range(30)]

    def fval(x):
        x = float(x)
        return int(x) if x == x and abs(x) != math.inf and x == int(x) else repr(x)

    def call(f, *a):
        try:
            return fval(f(*a))
        except Exception as e:
            return type(e).__name__
    o["variadic"] = [[list(a), call(t.mrca, *a), call(t.tmrca, *a)] for a in tuples]
    rng_ids = list(range(N + 2)) + [-1]
    o["pairq"] = [[u, v, call(t.mrca, u, v), call(t.tmrca, u, v), call(t.path_length, u, v),
                   call(t.distance_between, u, v), call(t.is_descendant, u, v)]
                  for u in rng_ids for v in rng_ids]
    o["oob"] = [[nm, call(getattr(t, nm), N + 1), call(getattr(t, nm), -2)]
                for nm in ("parent", "children", "depth", "time", "branch_length", "num_samples",
                           "num_tracked_samples", "left_child", "right_sib", "is_leaf", "is_sample",
                           "num_children", "edge")]
    return o


def tree_kwargs(case):
    kw = {"sample_lists": case["sample_lists"], "root_threshold": case["thr"]}
    if case.get("tracked") is not None:
        tr = case["tracked"]
        layout = case.get("tracked_layout")
        if layout:
            import numpy as np
            if layout == "strided":
                buf = np.full(2 * len(tr), -7, dtype=np.int32)
                buf[::2] = tr
                tr = buf[::2]
            elif layout == "reversed":
                tr = np.array(tr[::-1], dtype=np.int32)[::-1]
            elif layout == "int64":
                tr = np.array(tr, dtype=np.int64)
            elif layout == "tuple":
                tr = tuple(tr)
        kw["tracked_samples"] = tr
    return kw


def edge_row(e, inv):
    return [inv.get(float(e.left), repr(e.left)), inv.get(float(e.right), repr(e.right)),
            int(e.parent), int(e.child), int(e.id)]


def observe_views(case):
    import tskit
    desc = case["desc"]
    inv = lattice(desc)
    tc = gen_ts.build_tables(desc)
    ts = tc.tree_sequence()
    kw = tree_kwargs(case)
    o = {"num_trees": int(ts.num_trees), "num_nodes": int(ts.num_nodes),
         "num_samples": int(ts.num_samples), "samples": _ints(ts.samples()),
         "L": inv.get(float(ts.sequence_length), repr(ts.sequence_length))}
    o["edges"] = [[inv.get(float(l), repr(l)), inv.get(float(r), repr(r)), int(p), int(c)]
                  for l, r, p, c in zip(ts.edges_left, ts.edges_right, ts.edges_parent, ts.edges_child)]
    o["I"] = _ints(ts.indexes_edge_insertion_order)
    o["O"] = _ints(ts.indexes_edge_removal_order)
    o["breakpoints"] = [inv.get(float(b), repr(b)) for b in ts.breakpoints()]
    o["breakpoints_arr"] = [inv.get(float(b), repr(b)) for b in ts.breakpoints(as_array=True)]
    o["sites_pos"] = [inv.get(float(p), repr(p)) for p in ts.sites_position]
    o["mut_site"] = _ints(ts.mutations_site)
    o["mut_node"] = _ints(ts.mutations_node)
    o["mut_edge"] = [int(m.edge) for m in ts.mutations()]
    paths = {}
    want = case["paths"]
    if "trees" in want:
        paths["trees"] = [obs_tree(ts, t, inv, variadic=True) for t in ts.trees(**kw)]
    if "trees_core" in want:
        paths["trees"] = [obs_tree(ts, t, inv, full=False) for t in ts.trees(**kw)]
    if "reversed" in want:
        paths["reversed"] = [obs_tree(ts, t, inv) for t in reversed(ts.trees(**kw))]
    if "aslist" in want:
        paths["aslist"] = [obs_tree(ts, t, inv) for t in ts.aslist(**kw)]
    if "first" in want:
        paths["first"] = [obs_tree(ts, ts.first(**kw), inv)]
    if "last" in want:
        paths["last"] = [obs_tree(ts, ts.last(**kw), inv, variadic=True)]
    if "at_index" in want:
        n = ts.num_trees
        paths["at_index"] = [obs_tree(ts, ts.at_index(k, **kw), inv) for k in range(n)]
        paths["at_index_neg"] = [obs_tree(ts, ts.at_index(k - n, **kw), inv, full=False) for k in range(n)]
    if "at" in want:
        s = desc.get("scale", 1)
        res = []
        for h in case["at_h"]:
            x = h / 2 if h % 2 else h // 2
            t = ts.at(x * s, **kw)
            ob = obs_tree(ts, t, inv, full=(h % 2 == 0))
            ob["at_h"] = h
            res.append(ob)
        paths["at"] = res
    o["paths"] = paths
    tr = tskit.Tree(ts, **kw)
    while tr.next():
        pass
    o["cleared"] = obs_tree(ts, tr, inv, full=False)
    # edge diffs, all four flavours
    diffs = {}
    for name, kwargs in (("fwd", {}), ("fwd_term", {"include_terminal": True}),
                         ("rev", {"direction": tskit.REVERSE}),
                         ("rev_term", {"direction": tskit.REVERSE, "include_terminal": True})):
        diffs[name] = [[[inv.get(float(iv.left), repr(iv.left)), inv.get(float(iv.right), repr(iv.right))],
                        [edge_row(e, inv) for e in eo], [edge_row(e, inv) for e in ei]]
                       for iv, eo, ei in ts.edge_diffs(**kwargs)]
    o["diffs"] = diffs
    o["edgesets"] = [[inv.get(float(e.left), repr(e.left)), inv.get(float(e.right), repr(e.right)),
                      int(e.parent), _ints(e.children)] for e in ts.edgesets()]
    if case.get("other") is not None:
        ots = gen_ts.build_tables(case["other"]).tree_sequence()
        co = []
        for iv, t1, t2 in ts.coiterate(ots, **{k: v for k, v in kw.items() if k != "tracked_samples"}):
            co.append([[inv.get(float(iv.left), repr(iv.left)), inv.get(float(iv.right), repr(iv.right))],
                       int(t1.index), _ints(t1.parent_array), int(t2.index), _ints(t2.parent_array)])
        o["coiterate"] = co
    return o


# ----------------------------------------------------------------------------------
# the naive definitions (oracle side; nothing from tskit)
# ----------------------------------------------------------------------------------

class Spec:
    """The marginal forest at half-lattice position h, from the edge rows by definition."""

    def __init__(self, desc, h, thr, tracked):
        self.N = N = len(desc["nodes"])
        self.V = N
        self.time = [nd[1] for nd in desc["nodes"]]
        self.is_sample = [bool(nd[0] & 1) for nd in desc["nodes"]]
        self.samples = [u for u in range(N) if self.is_sample[u]]
        self.par = [NULL] * N
        self.cover = [[] for _ in range(N)]        # covering edge rows (l,r,p,c) per child
        for l, r, p, c, _m in desc["edges"]:
            if 2 * l <= h < 2 * r:
                self.par[c] = p
                self.cover[c].append((2 * l, 2 * r, p, c))
        self.kids = [set() for _ in range(N)]
        for c in range(N):
            if self.par[c] != NULL:
                self.kids[self.par[c]].add(c)
        self.anc = [self._anc(u) for u in range(N)]            # proper ancestors, nearest first
        self.desc_of = [set() for _ in range(N)]               # reflexive descendants
        for u in range(N):
            self.desc_of[u].add(u)
            for a in self.anc[u]:
                self.desc_of[a].add(u)
        self.nsamp = [sum(1 for s in self.samples if s in self.desc_of[u]) for u in range(N)]
        tr = set(tracked or [])
        self.tracked = tr
        self.ntrack = [sum(1 for s in tr if s in self.desc_of[u]) for u in range(N)]
        self.roots = {u for u in range(N) if self.par[u] == NULL and self.nsamp[u] >= thr}
        self.reach = set()
        for r in self.roots:
            self.reach |= self.desc_of[r]

    def _anc(self, u):
        out, seen = [], {u}
        v = self.par[u]
        while v != NULL:
            assert v not in seen, "cycle in a generated description"
            seen.add(v)
            out.append(v)
            v = self.par[v]
        return out

    def children_set(self, u):
        return set(self.roots) if u == self.V else self.kids[u]

    def descendants(self, u):
        if u == self.V:
            return set(self.reach) | {self.V}
        return self.desc_of[u]

    def t(self, u):
        return math.inf if u == self.V else self.time[u]


def perm_of(seq, s):
    return len(seq) == len(s) and set(seq) == set(s)


def check_chain(o, F, spec, u, kids_ord):
    """left_child/right_sib etc. encode one ordering of the child set of u."""
    lc, rc = o["left_child_array"], o["right_child_array"]
    ls, rs = o["left_sib_array"], o["right_sib_array"]
    want = spec.children_set(u)
    chain, v, guard = [], lc[u], 0
    while v != NULL and guard <= spec.N + 1:
        chain.append(v)
        v = rs[v] if 0 <= v <= spec.N else NULL
        guard += 1
    if not perm_of(chain, want):
        F("children", "node %d: left_child/right_sib chain %r, children by definition %r" % (u, chain, sorted(want)))
        return chain
    if o["num_children_array"][u] != len(want):
        F("num_children", "node %d: num_children %d != %d" % (u, o["num_children_array"][u], len(want)))
    if rc[u] != (chain[-1] if chain else NULL):
        F("right_child", "node %d: right_child %d, chain %r" % (u, rc[u], chain))
    back, v, guard = [], rc[u], 0
    while v != NULL and guard <= spec.N + 1:
        back.append(v)
        v = ls[v]
        guard += 1
    if back != chain[::-1]:
        F("left_sib", "node %d: right_child/left_sib chain %r is not the reverse of %r" % (u, back, chain))
    if chain and (ls[chain[0]] != NULL or rs[chain[-1]] != NULL):
        F("sib-ends", "node %d: chain ends not null-terminated" % u)
    return chain


def naive_pre(u, kids):
    out = [u]
    for c in kids[u]:
        out += naive_pre(c, kids)
    return out


def naive_post(u, kids):
    out = []
    for c in kids[u]:
        out += naive_post(c, kids)
    return out + [u]


def naive_in(u, kids):
    ch = kids[u]
    mid = len(ch) // 2
    out = []
    for c in ch[:mid]:
        out += naive_in(c, kids)
    out.append(u)
    for c in ch[mid:]:
        out += naive_in(c, kids)
    return out


def naive_level(roots, kids):
    out, frontier = [], list(roots)
    while frontier:
        nxt = []
        for u in frontier:
            out.append(u)
            nxt += kids[u]
        frontier = nxt
    return out


def naive_minlex(u, kids):
    def minleaf(v):
        return v if not kids[v] else min(minleaf(c) for c in kids[v])
    out = []
    for c in sorted(kids[u], key=minleaf):
        out += naive_minlex(c, kids)
    return out + [u]


def check_tree(desc, case, o, tsobs, F, label):
    """All per-tree clauses of the property for one observed tree."""
    N = len(desc["nodes"])
    V = N
    thr = case["thr"]
    iv = o["interval"]
    if not (isinstance(iv[0], int) and isinstance(iv[1], int) and iv[0] < iv[1]):
        F("interval-lattice", "%s: interval %r not on the coordinate lattice" % (label, iv))
        return
    spec = Spec(desc, iv[0], thr, case.get("tracked"))
    # the interval is one cell of the partition at the distinct end-points
    bps = [2 * b for b in gen_ts.breakpoints(desc)]
    if iv[0] not in bps or bps.index(iv[0]) + 1 >= len(bps) or bps[bps.index(iv[0]) + 1] != iv[1]:
        F("interval", "%s: interval %r is not a cell of the end-point partition %r" % (label, iv, bps))
        return
    if o["index"] != bps.index(iv[0]):
        F("index", "%s: index %d for interval %r" % (label, o["index"], iv))
    # the parent map must be the same at every lattice point of the interval (spec sanity)
    for h in range(iv[0], iv[1]):
        if Spec(desc, h, thr, None).par != spec.par:
            F("interval-not-constant", "%s: definition changes inside %r" % (label, iv))
    if o["V"] != V:
        F("virtual_root", "%s: virtual_root %d != num_nodes %d" % (label, o["V"], N))
    # -- parent
    if o["parent_array"] != spec.par + [NULL]:
        F("parent", "%s: parent_array %r, by definition %r" % (label, o["parent_array"], spec.par + [NULL]))
        return
    # -- children / sibs
    kids_ord = {}
    for u in range(N + 1):
        kids_ord[u] = check_chain(o, F, spec, u, kids_ord)
    ls, rs = o["left_sib_array"], o["right_sib_array"]
    for u in range(N + 1):
        p = V if u in spec.roots else (spec.par[u] if u < N else NULL)
        if p == NULL and (ls[u] != NULL or rs[u] != NULL):
            F("sib-detached", "%s: node %d has no parent and is no root but has sibs" % (label, u))
    # -- roots
    if set(o["roots"]) != spec.roots or len(o["roots"]) != len(spec.roots):
        F("roots", "%s: roots %r, by definition (threshold %d) %r" % (label, o["roots"], thr, sorted(spec.roots)))
    if o["num_roots"] != len(spec.roots):
        F("num_roots", "%s: num_roots %d != %d" % (label, o["num_roots"], len(spec.roots)))
    if o["roots"] != kids_ord[V]:
        F("roots-order", "%s: roots %r != virtual root chain %r" % (label, o["roots"], kids_ord[V]))
    if o["left_root"] != (o["roots"][0] if o["roots"] else NULL) or o["right_root"] != (o["roots"][-1] if o["roots"] else NULL):
        F("left_root", "%s: left/right root %d/%d vs roots %r" % (label, o["left_root"], o["right_root"], o["roots"]))
    if o["root_threshold"] != thr:
        F("root_threshold", "%s: %d" % (label, o["root_threshold"]))
    # -- counts
    exp_ns = spec.nsamp + [len(spec.samples)]
    if o["num_samples"] != exp_ns:
        F("num_samples", "%s: num_samples %r, by definition %r" % (label, o["num_samples"], exp_ns))
    if o["num_samples_none"] != len(spec.samples):
        F("num_samples-none", "%s: %d" % (label, o["num_samples_none"]))
    exp_nt = spec.ntrack + [len(spec.tracked)]
    if o["num_tracked"] != exp_nt:
        F("num_tracked_samples", "%s: num_tracked %r, by definition %r (tracked %r)" % (label, o["num_tracked"], exp_nt, sorted(spec.tracked)))
    if o["num_tracked_none"] != len(spec.tracked):
        F("num_tracked-none", "%s: %d" % (label, o["num_tracked_none"]))
    # -- edge array, num_edges
    edges = tsobs["edges"]
    for u in range(N):
        e = o["edge_array"][u]
        if spec.par[u] == NULL:
            if e != NULL:
                F("edge", "%s: edge[%d]=%d but no parent" % (label, u, e))
        else:
            if not (0 <= e < len(edges)) or edges[e][2:] != [spec.par[u], u] or not (edges[e][0] <= iv[0] < edges[e][1]):
                F("edge", "%s: edge[%d]=%d is not the covering edge (%r)" % (label, u, e, edges[e] if 0 <= e < len(edges) else None))
    if o["edge_array"][V] != NULL:
        F("edge", "%s: edge[virtual root] = %d" % (label, o["edge_array"][V]))
    nE = sum(1 for u in range(N) if spec.par[u] != NULL)
    if o["num_edges"] != nE:
        F("num_edges", "%s: num_edges %d != %d" % (label, o["num_edges"], nE))
    # -- sample lists
    if o["sample_lists"] != case["sample_lists"]:
        F("sample_lists-option", "%s" % label)
    if o["sample_lists"]:
        sm = tsobs["samples"]
        if sm != spec.samples:
            F("samples-order", "ts.samples() %r != flagged nodes in id order %r" % (sm, spec.samples))
        for u in range(N):
            below = {s for s in spec.samples if s in spec.desc_of[u]}
            l, r = o["left_sample"][u], o["right_sample"][u]
            if not below:
                if l != NULL or r != NULL:
                    F("sample-list", "%s: node %d has no samples below but left/right_sample %d/%d" % (label, u, l, r))
                continue
            got, i, guard = [], l, 0
            ok = True
            while guard <= len(sm) + 1:
                if not (0 <= i < len(sm)):
                    ok = False
                    break
                got.append(sm[i])
                if i == r:
                    break
                i = o["next_sample"][i]
                guard += 1
            if not ok or not perm_of(got, below):
                F("sample-list", "%s: node %d: list %r, samples below by definition %r" % (label, u, got, sorted(below)))
    # -- per-tree sites and mutations
    exp_sites = [i for i, (pos, _a, _m) in enumerate(desc["sites"]) if iv[0] <= int(round(2 * pos)) < iv[1]]
    if o["sites"] != exp_sites or o["num_sites"] != len(exp_sites):
        F("sites", "%s: sites %r, positions inside the interval %r" % (label, o["sites"], exp_sites))
    exp_muts = [j for j, m in enumerate(desc["mutations"]) if m[0] in exp_sites]
    if o["mutations"] != exp_muts or o["num_mutations"] != len(exp_muts):
        F("mutations", "%s: mutations %r, expected %r" % (label, o["mutations"], exp_muts))
    if "parent" not in o:
        return
    # ---------------- scalar accessors agree with the arrays / definitions
    if o["parent"] != o["parent_array"]:
        F("accessor-parent", label)
    for nm in ("left_child", "right_child", "left_sib", "right_sib", "edge"):
        if o[nm] != o[nm + "_array"]:
            F("accessor-" + nm, "%s: %r vs %r" % (label, o[nm], o[nm + "_array"]))
    if o["num_children"] != o["num_children_array"]:
        F("accessor-num_children", label)
    for u in range(N + 1):
        if o["children"][u] != kids_ord[u]:
            F("children-accessor", "%s: children(%d)=%r, chain %r" % (label, u, o["children"][u], kids_ord[u]))
    if o["parent_dict"] != sorted([u, spec.par[u]] for u in range(N) if spec.par[u] != NULL):
        F("parent_dict", "%s: %r" % (label, o["parent_dict"]))
    for u in range(N + 1):
        a = spec.anc[u] if u < N else []
        if o["ancestors"][u] != a:
            F("ancestors", "%s: ancestors(%d)=%r, by definition %r" % (label, u, o["ancestors"][u], a))
        d = len(a) if u < N else -1
        if o["depth"][u] != d:
            F("depth", "%s: depth(%d)=%d, by definition %d" % (label, u, o["depth"][u], d))
        b = (spec.time[spec.par[u]] - spec.time[u]) if (u < N and spec.par[u] != NULL) else 0
        if o["branch_length"][u] != b:
            F("branch_length", "%s: branch_length(%d)=%r, by definition %r" % (label, u, o["branch_length"][u], b))
        tm = "inf" if u == V else spec.time[u]
        if o["time"][u] != tm:
            F("time", "%s: time(%d)=%r" % (label, u, o["time"][u]))
        leaf = len(spec.children_set(u)) == 0
        if o["is_leaf"][u] != leaf or o["is_internal"][u] != (not leaf):
            F("is_leaf", "%s: node %d" % (label, u))
        iso = leaf and (u == V or spec.par[u] == NULL)
        if o["is_isolated"][u] != iso:
            F("is_isolated", "%s: node %d" % (label, u))
        # siblings: other children of the parent (roots are siblings of each other)
        if u == V:
            sib = set()
        elif u in spec.roots:
            sib = spec.roots - {u}
        elif spec.par[u] != NULL:
            sib = spec.kids[spec.par[u]] - {u}
        else:
            sib = set()
        if not perm_of(o["siblings"][u], sib):
            F("siblings", "%s: siblings(%d)=%r, by definition %r" % (label, u, o["siblings"][u], sorted(sib)))
    for u in range(N):
        if o["is_sample"][u] != spec.is_sample[u]:
            F("is_sample", "%s: node %d" % (label, u))
        if o["is_root"][u] != (u in spec.roots):
            F("is_root", "%s: node %d" % (label, u))
    tbl = sum(spec.time[spec.par[u]] - spec.time[u] for u in spec.reach if spec.par[u] != NULL)
    if o["total_branch_length"] != tbl:
        F("total_branch_length", "%s: %r, by definition %r" % (label, o["total_branch_length"], tbl))
    if o["has_single_root"] != (len(spec.roots) == 1) or o["has_multiple_roots"] != (len(spec.roots) > 1):
        F("has_single_root", label)
    exp_root = "ValueError" if len(spec.roots) > 1 else (min(spec.roots) if spec.roots else NULL)
    if o["root"] != exp_root:
        F("root", "%s: root %r expected %r" % (label, o["root"], exp_root))
    # -- mrca / is_descendant on all pairs (virtual root included)
    for u in range(N + 1):
        cu = [u] + (spec.anc[u] if u < N else [])
        for v in range(N + 1):
            cv = set([v] + (spec.anc[v] if v < N else []))
            if u == V or v == V:
                m = V
            else:
                m = next((a for a in cu if a in cv), NULL)
            if o["mrca"][u][v] != m:
                F("mrca", "%s: mrca(%d,%d)=%d, by definition %d" % (label, u, v, o["mrca"][u][v], m))
            if o["is_descendant"][u][v] != (v in cu):
                F("is_descendant", "%s: is_descendant(%d,%d)=%r" % (label, u, v, o["is_descendant"][u][v]))
    # -- variadic mrca / tmrca (the fold over the arguments, stopping only when there is no
    #    common ancestor), path_length, distance_between, bounds errors
    def chain_of(u):
        return [u] + (spec.anc[u] if u < N else [])

    def pair_mrca(u, v):
        if not (0 <= u <= N and 0 <= v <= N):
            raise ValueError
        if u == V or v == V:
            return V
        cv = set(chain_of(v))
        return next((a for a in chain_of(u) if a in cv), NULL)

    def fold_mrca(args):
        if len(args) < 2:
            raise ValueError
        m = args[0]
        for x in args[1:]:
            m = pair_mrca(m, x)
            if m == NULL:
                break
        return m

    def tm(u):
        return math.inf if u == V else float(spec.time[u])

    def enc(x):
        x = float(x)
        return int(x) if x == x and abs(x) != math.inf and x == int(x) else repr(x)

    def exp_call(f):
        try:
            return enc(f())
        except ValueError:
            return "ValueError"

    def spec_tmrca(args):
        m = fold_mrca(args)
        if m == NULL:
            raise ValueError
        return tm(m)

    def dep(u):
        return -1 if u == V else len(spec.anc[u])
    for args, gm, gt in o.get("variadic", []):
        em = exp_call(lambda: fold_mrca(args))
        et = exp_call(lambda: spec_tmrca(args))
        if gm != em:
            F("mrca-variadic", "%s: mrca%r = %r, by definition %r" % (label, tuple(args), gm, em))
        if gt != et:
            F("tmrca-variadic", "%s: tmrca%r = %r, by definition %r" % (label, tuple(args), gt, et))
        # for real nodes the fold is the lowest common element of all ancestor chains
        if all(0 <= a < N for a in args) and len(args) >= 2:
            common = [a for a in chain_of(args[0]) if all(a in chain_of(b) for b in args[1:])]
            if em != (common[0] if common else NULL):
                F("oracle-self-check", "fold != set LCA for %r" % (args,))

    def spec_path_length(u, v):
        m = pair_mrca(u, v)
        return math.inf if m == NULL else dep(u) + dep(v) - 2 * dep(m)

    def spec_distance(u, v):
        t_ = spec_tmrca((u, v))
        return t_ - tm(u) + t_ - tm(v)

    def spec_isdesc(u, v):
        if not (0 <= u <= N and 0 <= v <= N):
            raise ValueError
        return v in chain_of(u)
    for u, v, g1, g2, g3, g4, g5 in o.get("pairq", []):
        exp = [exp_call(lambda: pair_mrca(u, v)), exp_call(lambda: spec_tmrca((u, v))),
               exp_call(lambda: spec_path_length(u, v)), exp_call(lambda: spec_distance(u, v)),
               exp_call(lambda: spec_isdesc(u, v))]
        for nm, g, e in zip(("mrca", "tmrca", "path_length", "distance_between", "is_descendant"), [g1, g2, g3, g4, g5], exp):
            if g != e:
                F("pair-" + nm, "%s: %s(%d,%d) = %r, by definition %r" % (label, nm, u, v, g, e))
    for nm, a, b in o.get("oob", []):
        if a != "ValueError" or b != "ValueError":
            F("bounds-" + nm, "%s: %s on an out-of-range node id: %r / %r" % (label, nm, a, b))
    # -- traversals: (a) set + ordering predicate from the definition, (b) exact agreement
    #    with the naive recursion over the observed left-to-right child order
    kl = {u: kids_ord[u] for u in range(N + 1)}
    rootlist = o["roots"]
    for order in ORDERS:
        for key, seq in o["nodes"][order].items():
            lab = "%s: nodes(%s,%s)" % (label, key, order)
            if key == "none":
                starts, want = rootlist, set(spec.reach)
            else:
                r = int(key)
                starts, want = [r], spec.descendants(r)
            if not perm_of(seq, want):
                F("traversal-set-" + order, "%s = %r is not a permutation of the descendants %r" % (lab, seq, sorted(want)))
                continue
            pos = {u: i for i, u in enumerate(seq)}

            def par_in(u):
                # parent inside the traversed forest
                if u == V or u in starts:
                    return None
                if u in spec.roots:
                    return V if V in pos else None
                return spec.par[u]
            if order == "preorder":
                bad = [u for u in seq if par_in(u) is not None and pos[par_in(u)] > pos[u]]
                exp = [x for s in starts for x in naive_pre(s, kl)]
            elif order == "postorder":
                bad = [u for u in seq if par_in(u) is not None and pos[par_in(u)] < pos[u]]
                exp = [x for s in starts for x in naive_post(s, kl)]
            elif order == "inorder":
                bad = []
                exp = [x for s in starts for x in naive_in(s, kl)]
            elif order in ("levelorder", "breadthfirst"):
                def dep(u):
                    d = 0
                    while par_in(u) is not None:
                        u = par_in(u)
                        d += 1
                    return d
                ds = [dep(u) for u in seq]
                bad = [i for i in range(1, len(ds)) if ds[i] < ds[i - 1]]
                exp = naive_level(starts, kl)
            elif order == "timeasc":
                ks = [(spec.t(u), u) for u in seq]
                bad = [i for i in range(1, len(ks)) if ks[i] < ks[i - 1]]
                exp = sorted(want, key=lambda u: (spec.t(u), u))
            elif order == "timedesc":
                ks = [(spec.t(u), u) for u in seq]
                bad = [i for i in range(1, len(ks)) if ks[i] > ks[i - 1]]
                exp = sorted(want, key=lambda u: (spec.t(u), u), reverse=True)
            else:   # minlex_postorder
                bad = [u for u in seq if par_in(u) is not None and pos[par_in(u)] < pos[u]]
                kset = {u: sorted(spec.children_set(u)) for u in range(N + 1)}
                if key == "none":
                    exp = naive_minlex(V, kset)[:-1]
                else:
                    exp = naive_minlex(int(key), kset)
            if bad:
                F("traversal-order-" + order, "%s = %r violates the ordering predicate at %r" % (lab, seq, bad))
            if seq != exp:
                F("traversal-exact-" + order, "%s = %r, naive %r" % (lab, seq, exp))
    for nm, order in (("preorder_arr", "preorder"), ("postorder_arr", "postorder"),
                      ("timeasc_arr", "timeasc"), ("timedesc_arr", "timedesc")):
        if o[nm] != o["nodes"][order]:
            F("traversal-array-" + order, "%s: array form differs from nodes()" % label)
    # -- leaves / samples
    for key in o["leaves"]:
        if key == "none":
            want_nodes = set(spec.reach)
        else:
            want_nodes = spec.descendants(int(key))
        wl = {u for u in want_nodes if len(spec.children_set(u)) == 0}
        if not perm_of(o["leaves"][key], wl):
            F("leaves", "%s: leaves(%s)=%r, by definition %r" % (label, key, o["leaves"][key], sorted(wl)))
        ws = {u for u in want_nodes if u < N and spec.is_sample[u]}
        if not perm_of(o["samples"][key], ws):
            k = "samples-virtual-root-with-sample-lists" if (key == str(V) and o["sample_lists"]) else "samples"
            F(k, "%s: samples(%s)=%r, by definition %r (sample_lists=%r)" % (label, key, o["samples"][key], sorted(ws), o["sample_lists"]))


def check_ts(desc, case, obs, F):
    """Tree-sequence level clauses: breakpoints, diffs, edgesets, mutation.edge, coiterate."""
    N = len(desc["nodes"])
    L2 = 2 * desc["L"]
    bps = [2 * b for b in gen_ts.breakpoints(desc)]
    if obs["L"] != L2:
        F("sequence_length", "%r" % (obs["L"],))
    if obs["breakpoints"] != bps or obs["breakpoints_arr"] != bps:
        F("breakpoints", "breakpoints %r, distinct end-points %r" % (obs["breakpoints"], bps))
    if obs["num_trees"] != len(bps) - 1:
        F("num_trees", "num_trees %d, cells %d" % (obs["num_trees"], len(bps) - 1))
    # the ts edge table is the description's edge multiset
    if sorted(map(tuple, obs["edges"])) != sorted((2 * l, 2 * r, p, c) for l, r, p, c, _ in desc["edges"]):
        F("edge-table", "edge rows differ from the description")
        return
    E = obs["edges"]
    M = len(E)
    time = [nd[1] for nd in desc["nodes"]]
    # indexes: permutations sorted by the documented keys
    if sorted(obs["I"]) != list(range(M)) or sorted(obs["O"]) != list(range(M)):
        F("index-perm", "I=%r O=%r" % (obs["I"], obs["O"]))
        return
    kI = [(E[e][0], time[E[e][2]], E[e][2], E[e][3]) for e in obs["I"]]
    kO = [(E[e][1], -time[E[e][2]], -E[e][2], -E[e][3]) for e in obs["O"]]
    if kI != sorted(kI) or kO != sorted(kO):
        F("index-order", "I=%r O=%r" % (obs["I"], obs["O"]))
    # mutation.edge = covering edge of the mutation's node at the site
    for j, (s, u) in enumerate(zip(obs["mut_site"], obs["mut_node"])):
        h = obs["sites_pos"][s]
        cov = [e for e in range(M) if E[e][3] == u and E[e][0] <= h < E[e][1]]
        exp = cov[0] if cov else NULL
        if obs["mut_edge"][j] != exp:
            F("mutation-edge", "mutation %d: edge %d, covering edge %d" % (j, obs["mut_edge"][j], exp))
    # edge diffs
    def keyasc(e):
        return (time[E[e][2]], E[e][2], E[e][3])
    nT = len(bps) - 1
    for name in ("fwd", "fwd_term", "rev", "rev_term"):
        d = obs["diffs"][name]
        rev = name.startswith("rev")
        term = name.endswith("term")
        if len(d) != nT + (1 if term else 0):
            F("diffs-length", "%s: %d entries for %d trees" % (name, len(d), nT))
            continue
        par = [NULL] * N
        for i in range(nT):
            k = nT - 1 - i if rev else i
            iv, eo, ei = d[i]
            if iv != [bps[k], bps[k + 1]]:
                F("diffs-interval", "%s[%d]: interval %r, cell %r" % (name, i, iv, [bps[k], bps[k + 1]]))
            if rev:
                want_out = [e for e in range(M) if E[e][0] == bps[k + 1]]
                want_in = [e for e in range(M) if E[e][1] == bps[k + 1]]
            else:
                want_out = [e for e in range(M) if E[e][1] == bps[k]]
                want_in = [e for e in range(M) if E[e][0] == bps[k]]
            go, gi = [r[4] for r in eo], [r[4] for r in ei]
            for r in eo + ei:
                if not (0 <= r[4] < M) or r[:4] != E[r[4]]:
                    F("diffs-edge-row", "%s[%d]: row %r is not edge %d" % (name, i, r, r[4]))
            if sorted(go) != want_out:
                F("diffs-out", "%s[%d]: edges_out %r, edges ending/starting at the boundary %r" % (name, i, go, want_out))
            if sorted(gi) != want_in:
                F("diffs-in", "%s[%d]: edges_in %r, expected %r" % (name, i, gi, want_in))
            if gi != sorted(gi, key=keyasc):
                F("diffs-in-order", "%s[%d]: edges_in %r not by ascending (time,parent,child)" % (name, i, gi))
            if go != sorted(go, key=keyasc, reverse=True):
                F("diffs-out-order", "%s[%d]: edges_out %r not by descending (time,parent,child)" % (name, i, go))
            # replay from the empty forest
            for r in eo:
                if par[r[3]] != r[2]:
                    F("diffs-replay", "%s[%d]: removing edge %r that is not present" % (name, i, r))
                par[r[3]] = NULL
            for r in ei:
                if par[r[3]] != NULL:
                    F("diffs-replay", "%s[%d]: inserting edge %r onto an occupied child" % (name, i, r))
                par[r[3]] = r[2]
            exp = Spec(desc, bps[k], 1, None).par
            if par != exp:
                F("diffs-replay", "%s[%d]: replayed parent %r, by definition %r" % (name, i, par, exp))
        if term:
            iv, eo, ei = d[nT]
            end = 0 if rev else L2
            if iv != [end, end]:
                F("diffs-terminal", "%s: terminal interval %r" % (name, iv))
            want = [e for e in range(M) if (E[e][0] == 0 if rev else E[e][1] == L2)]
            if sorted(r[4] for r in eo) != want or ei:
                F("diffs-terminal", "%s: terminal out %r in %r, expected out %r" % (name, [r[4] for r in eo], ei, want))
    # edgesets
    es = obs["edgesets"]
    kids_at = []
    for k in range(nT):
        sp = Spec(desc, bps[k], 1, None)
        kids_at.append(sp.kids)
    bad_es = False
    for l, r, p, ch in es:
        if l not in bps or r not in bps or not l < r or not (0 <= p < N):
            F("edgesets", "edgeset %r not aligned" % ([l, r, p, ch],))
            bad_es = True
    if not bad_es:
        for k in range(nT):
            for p in range(N):
                cov = [e for e in es if e[2] == p and e[0] <= bps[k] < e[1]]
                if kids_at[k][p]:
                    if len(cov) != 1 or cov[0][3] != sorted(kids_at[k][p]):
                        F("edgesets", "tree %d parent %d: edgesets %r, children by definition %r" % (k, p, cov, sorted(kids_at[k][p])))
                elif cov:
                    F("edgesets", "tree %d parent %d has no children but edgesets %r cover it" % (k, p, cov))
        for a in es:
            for b in es:
                if a[2] == b[2] and a[1] == b[0]:
                    if not any(E[e][2] == a[2] and (E[e][0] == a[1] or E[e][1] == a[1]) for e in range(M)):
                        F("edgesets-maximal", "edgesets %r and %r abut without an edge event of parent %d" % (a, b, a[2]))
    # coiterate
    if "coiterate" in obs:
        od = case["other"]
        obps = [2 * b for b in gen_ts.breakpoints(od)]
        allb = sorted(set(bps) | set(obps))
        co = obs["coiterate"]
        if [c[0] for c in co] != [[a, b] for a, b in zip(allb[:-1], allb[1:])]:
            F("coiterate-intervals", "%r, union of breakpoints %r" % ([c[0] for c in co], allb))
        else:
            for iv, i1, p1, i2, p2 in co:
                e1 = Spec(desc, iv[0], 1, None).par + [NULL]
                e2 = Spec(od, iv[0], 1, None).par + [NULL]
                k1 = max(i for i in range(len(bps) - 1) if bps[i] <= iv[0])
                k2 = max(i for i in range(len(obps) - 1) if obps[i] <= iv[0])
                if p1 != e1 or p2 != e2 or i1 != k1 or i2 != k2:
                    F("coiterate-trees", "interval %r: indexes %d,%d expected %d,%d" % (iv, i1, i2, k1, k2))


def check_cleared(desc, case, c, F, label):
    """the null state (index -1): no edges, counts = own sample / tracked status"""
    N = len(desc["nodes"])
    smp = sample_ids(desc)
    tr = set(case.get("tracked") or [])
    if c["index"] != -1 or c["interval"] != [0, 0]:
        F("cleared-position", "%s: index %r interval %r" % (label, c["index"], c["interval"]))
    if any(x != NULL for x in c["parent_array"]) or c["num_edges"] != 0 or any(x != NULL for x in c["edge_array"]):
        F("cleared-parent", "%s: %r" % (label, c["parent_array"]))
    if c["sites"] or c["num_sites"] != 0 or c["mutations"]:
        F("cleared-sites", "%s: null tree lists sites %r" % (label, c["sites"]))
    if c["num_samples"] != [1 if u in smp else 0 for u in range(N)] + [len(smp)]:
        F("cleared-num_samples", "%s: %r" % (label, c["num_samples"]))
    if c["num_tracked"] != [1 if u in tr else 0 for u in range(N)] + [len(tr)]:
        F("cleared-num_tracked", "%s: null tree num_tracked %r, tracked %r" % (label, c["num_tracked"], sorted(tr)))
    if c["roots"] != (smp if case["thr"] == 1 else []):
        F("cleared-roots", "%s: %r" % (label, c["roots"]))


def oracle_views(case, obs):
    fails = []
    seen = set()

    def F(key, msg):
        if key not in seen and len(fails) < 12:
            seen.add(key)
            fails.append((key, msg))
    desc = case["desc"]
    check_ts(desc, case, obs, F)
    bps = [2 * b for b in gen_ts.breakpoints(desc)]
    nT = len(bps) - 1
    if "cleared" in obs:
        check_cleared(desc, case, obs["cleared"], F, "cleared")
    for path, trees in obs["paths"].items():
        if path in ("trees", "aslist", "at_index", "at_index_neg"):
            exp_idx = list(range(nT))
        elif path == "reversed":
            exp_idx = list(range(nT - 1, -1, -1))
        elif path == "first":
            exp_idx = [0]
        elif path == "last":
            exp_idx = [nT - 1]
        else:
            exp_idx = [max(i for i in range(nT) if bps[i] <= t["at_h"]) for t in trees]
        got = [t["index"] for t in trees]
        if got != exp_idx:
            F("path-index-" + path, "%s visits tree indexes %r, expected %r" % (path, got, exp_idx))
        for t in trees:
            check_tree(desc, case, t, obs, lambda k, m, _p=path: F(k, m), "%s[%d]" % (path, t["index"]))
    return fails


ALL_PATHS = ["trees", "reversed", "aslist", "first", "last", "at_index", "at"]


def with_paths(rng, case, p_all=0.3):
    desc = case["desc"]
    if rng is None or rng.random() < p_all:
        case["paths"] = list(ALL_PATHS)
    else:
        case["paths"] = ["trees"] + rng.sample(ALL_PATHS[1:], 2)
    L = desc["L"]
    if "at" in case["paths"]:
        hs = list(range(0, 2 * L))
        if rng is not None and len(hs) > 6:
            hs = sorted(rng.sample(hs, 6))
        case["at_h"] = hs
    return case


class ViewsBase(Family):
    timeout = 60.0
    workers = 8

    def observe(self, case):
        return observe_views(case)

    def oracle(self, case, obs):
        return oracle_views(case, obs)

    def nontrivial(self, case, obs):
        return len(case["desc"]["edges"]) > 0

    def describe(self, case, obs):
        d = case["desc"]
        return {"nodes": len(d["nodes"]), "trees": obs.get("num_trees"), "thr": case["thr"],
                "sample_lists": case["sample_lists"],
                "tracked": "none" if case.get("tracked") is None else len(case["tracked"]),
                "edges": min(len(d["edges"]), 12)}

    def shrink(self, case):
        d = case["desc"]
        if d["mutations"]:
            yield dict(case, desc=dict(d, mutations=[]))
        if d["sites"]:
            yield dict(case, desc=dict(d, sites=[], mutations=[]))
        for i in range(len(d["edges"])):
            yield dict(case, desc=dict(d, edges=d["edges"][:i] + d["edges"][i + 1:]))
        if case.get("tracked"):
            yield dict(case, tracked=None)
        if case["sample_lists"]:
            yield dict(case, sample_lists=False)
        if len(case["paths"]) > 1:
            for p in case["paths"]:
                yield dict(case, paths=[q for q in case["paths"] if q != p])
        if case.get("other") is not None:
            yield dict(case, other=None)


class ViewsTiny(ViewsBase):
    """Exhaustive small scope: every forest sequence on <= 3 (quick) / 4 (thorough) nodes."""
    name = "views_tiny"

    def generate(self, rng, tier):
        scopes = [(1, 1), (2, 2), (3, 2), (3, 3), (4, 2)] if tier == "quick" else [(1, 2), (2, 3), (3, 3), (4, 2), (4, 3)]
        budget = 700 if tier == "quick" else 8000
        allc = []
        for n, L in scopes:
            for tv, edges in tiny_descs(n, L):
                allc.append((n, L, tv, edges))
        # every structure once; flags/options drawn per structure (all flag sets for n<=2)
        if len(allc) > budget:
            keep = allc[:60] + rng.sample(allc[60:], budget - 60)
        else:
            keep = allc
        for n, L, tv, edges in keep:
            flagsets = list(itertools.product([0, 1], repeat=n)) if n <= 2 else \
                [tuple(1 if rng.random() < 0.7 else 0 for _ in range(n))]
            for flags in flagsets:
                desc = mk_desc(L, tv, flags, edges, scale=rng.choice([1, 0.5, 1 / 3]))
                s = sample_ids(desc)
                case = {"desc": desc, "sample_lists": rng.random() < 0.7,
                        "thr": rng.choice([1, 2, 3]),
                        "tracked": sorted(rng.sample(s, rng.randrange(0, len(s) + 1))) if rng.random() < 0.6 else None,
                        "other": None}
                yield with_paths(None, case)


class ViewsRand(ViewsBase):
    name = "views_rand"

    def generate(self, rng, tier):
        n = 2000 if tier == "quick" else 15000
        for i in range(n):
            big = rng.random() < 0.15
            desc = gen_ts.random_desc(rng, max_nodes=12 if big else 7, max_L=8 if big else 5,
                                      metadata=rng.random() < 0.3, individuals=False,
                                      populations=False,
                                      p_internal_sample=rng.choice([0.0, 0.15, 0.5]),
                                      p_gap=rng.choice([0.0, 0.15, 0.4]),
                                      p_root=rng.choice([0.05, 0.2, 0.5]))
            if rng.random() < 0.25:
                # application-defined flag bits on some nodes (sample or not) must not matter
                for nd in desc["nodes"]:
                    if rng.random() < 0.5:
                        nd[0] |= rng.choice([1 << 16, 1 << 19, 1 << 1, (1 << 31)])
            case = dict(rand_opts(rng, desc), desc=desc)
            if case.get("tracked") and rng.random() < 0.5:
                case["tracked_layout"] = rng.choice(["strided", "reversed", "int64", "tuple"])
            case["other"] = other_desc(rng, desc) if rng.random() < 0.3 else None
            yield with_paths(rng, case, p_all=0.15 if big else 0.35)



class ViewsBig(ViewsBase):
    """Larger tree sequences (up to 45 nodes, 14 breakpoints): size bounds of the traversal
    buffers, long sibling lists, deep chains, many roots."""
    name = "views_big"

    def generate(self, rng, tier):
        n = 150 if tier == "quick" else 1500
        # one parent with >= 256 children (8-bit / 16-bit counters), over two trees
        for nkids in ([257] if tier == "quick" else [256, 300, 513]):
            nodes = [[1, 0, NULL, NULL, ""] for _ in range(nkids)] + [[0, 1, NULL, NULL, ""], [0, 2, NULL, NULL, ""]]
            p, g = nkids, nkids + 1
            edges = [[0, 2, p, c, ""] for c in range(nkids - 1)] + [[0, 1, p, nkids - 1, ""], [1, 2, g, nkids - 1, ""],
                                                                    [1, 2, g, p, ""]]
            desc = mk_desc(2, [nd[1] for nd in nodes], [nd[0] for nd in nodes], edges, scale=0.5)
            yield {"desc": desc, "sample_lists": True, "thr": 2, "tracked": list(range(0, nkids, 3)),
                   "other": None, "paths": ["trees_core"], "tracked_layout": "strided"}
        for i in range(n):
            shape = rng.choice(["wide", "deep", "mixed"])
            desc = gen_ts.random_desc(rng, max_nodes=rng.choice([20, 30, 45]), max_L=rng.choice([6, 14]),
                                      max_sites=4, metadata=False, individuals=False, populations=False,
                                      p_internal_sample=rng.choice([0.0, 0.3]),
                                      p_gap=rng.choice([0.0, 0.2]),
                                      p_root={"wide": 0.6, "deep": 0.02, "mixed": 0.2}[shape])
            case = dict(rand_opts(rng, desc), desc=desc)
            case["other"] = None
            case["paths"] = ["trees", rng.choice(["reversed", "at_index", "aslist"])]
            yield case


# ----------------------------------------------------------------------------------
# navigation histories that CONTINUE after a seek: the full tree state after every step
# ----------------------------------------------------------------------------------

def clip_desc(desc, a, b):
    """keep only the part of every edge inside [a, b): leading gap [0, a), trailing gap [b, L)"""
    edges = []
    for l, r, p, c, m in desc["edges"]:
        l2, r2 = max(l, a), min(r, b)
        if l2 < r2:
            edges.append([l2, r2, p, c, m])
    return dict(desc, edges=edges, sites=[], mutations=[])


def nav_expected_index(nT, bps2, idx, op):
    """index after applying op to a tree at index idx (-1 = null); None = the call must raise"""
    kind = op[0]
    if kind == "next":
        return 0 if idx == -1 else (idx + 1 if idx + 1 < nT else -1)
    if kind == "prev":
        return nT - 1 if idx == -1 else idx - 1
    if kind == "first":
        return 0
    if kind == "last":
        return nT - 1
    if kind == "clear":
        return -1
    if kind == "seek":
        h = op[1]
        if not 0 <= h < bps2[-1]:
            return None
        return max(i for i in range(nT) if bps2[i] <= h)
    if kind == "seek_index":
        k = op[1]
        if k < 0:
            k += nT
        return k if 0 <= k < nT else None
    raise ValueError(kind)


def observe_nav(case):
    import tskit
    desc = case["desc"]
    inv = lattice(desc)
    ts = gen_ts.build_tables(desc).tree_sequence()
    kw = tree_kwargs(case)
    s = desc.get("scale", 1)
    o = {"num_trees": int(ts.num_trees), "samples": _ints(ts.samples()),
         "edges": [[inv.get(float(l), repr(l)), inv.get(float(r), repr(r)), int(p), int(c)]
                   for l, r, p, c in zip(ts.edges_left, ts.edges_right, ts.edges_parent, ts.edges_child)],
         "hists": []}
    for ops in case["hists"]:
        t = tskit.Tree(ts, **kw)
        steps = []
        for op in ops:
            exc = None
            try:
                if op[0] == "seek":
                    h = op[1]
                    t.seek((h / 2 if h % 2 else h // 2) * s)
                elif op[0] == "seek_index":
                    t.seek_index(op[1])
                else:
                    getattr(t, op[0])()
            except Exception as e:
                exc = type(e).__name__
            steps.append([exc, obs_tree(ts, t, inv, full=False)])
        o["hists"].append(steps)
    return o


def oracle_nav(case, obs):
    fails, seen = [], set()

    def F(key, msg):
        if key not in seen and len(fails) < 8:
            seen.add(key)
            fails.append((key, msg))
    desc = case["desc"]
    bps2 = [2 * b for b in gen_ts.breakpoints(desc)]
    nT = len(bps2) - 1
    if obs["num_trees"] != nT:
        F("num_trees", "%d vs %d" % (obs["num_trees"], nT))
        return fails
    for ops, steps in zip(case["hists"], obs["hists"]):
        idx = -1
        for j, (op, (exc, tobs)) in enumerate(zip(ops, steps)):
            label = "history %r step %d" % (ops[:j + 1], j)
            exp = nav_expected_index(nT, bps2, idx, op)
            if exp is None:
                if exc is None:
                    F("nav-no-error", "%s: out-of-range %r accepted" % (label, op))
                exp = idx                      # a rejected call leaves the tree where it was
            elif exc is not None:
                F("nav-exception", "%s: %s" % (label, exc))
                break
            idx = exp
            if tobs["index"] != idx:
                F("nav-index", "%s: tree index %d, expected %d" % (label, tobs["index"], idx))
                break
            if idx == -1:
                check_cleared(desc, case, tobs, lambda k, m: F("nav-" + k, m), label)
            else:
                check_tree(desc, case, tobs, obs, lambda k, m: F("nav-" + k, m), label)
            if fails:
                break
    return fails


def gap_desc(rng, max_nodes=7):
    """a random description whose edges are confined to [a, b): long edge-less ends"""
    L = rng.choice([4, 6, 8, 10])
    d = gen_ts.random_desc(rng, max_nodes=max_nodes, max_L=L, max_sites=0, metadata=False,
                           individuals=False, populations=False,
                           p_gap=rng.choice([0.0, 0.2]), p_root=rng.choice([0.05, 0.3]))
    L = d["L"]
    shape = rng.choice(["trail_long", "lead_long", "both", "trail_short", "lead_short", "none"])
    a, b = 0, L
    if shape in ("trail_long", "both"):
        b = rng.randrange(1, max(2, L // 2 + 1))
    elif shape == "trail_short":
        b = rng.randrange(max(1, L // 2), L + 1)
    if shape in ("lead_long", "both"):
        a = rng.randrange(L - L // 2 - 1 if L > 2 else 0, L)
        if shape == "both":
            a, b = (0, L) if L < 3 else sorted(rng.sample(range(0, L + 1), 2))
    elif shape == "lead_short":
        a = rng.randrange(0, L // 2 + 1)
    if a >= b:
        a, b = 0, max(1, b)
    return clip_desc(d, a, b), a, b


def rand_history(rng, L, nT, a, b):
    hs = sorted({h for h in (2 * a, 2 * a - 1, 2 * a + 1, 2 * b, 2 * b - 1, 2 * b + 1, L, L - 1, L + 1, 0, 2 * L - 1)
                 if 0 <= h < 2 * L})

    def target():
        return rng.choice(hs) if rng.random() < 0.7 else rng.randrange(0, 2 * L)

    def op(first):
        r = rng.random()
        if r < (0.45 if first else 0.22):
            return ["seek", target()]
        if r < (0.6 if first else 0.3):
            return ["seek_index", rng.randrange(-nT, nT)]
        if r < (0.8 if first else 0.62):
            return ["next"]
        if r < (0.95 if first else 0.94):
            return ["prev"]
        return [rng.choice(["first", "last", "clear"])]
    return [op(True)] + [op(False) for _ in range(rng.randrange(1, 6))]


class NavHist(Family):
    """Fresh Tree, then seek / seek_index / first / last / next / prev / clear in any order; the
    complete tree state after EVERY step equals the definition for the tree at the expected index
    (or the null state).  Tree sequences with edge-less ends covering more than half of L."""
    name = "nav_hist"
    timeout = 60.0
    workers = 6

    def generate(self, rng, tier):
        # exhaustive small scope: edges confined to [a, b), every seek target, two further steps
        for L in ([4, 5] if tier == "quick" else [4, 5, 6, 7]):
            for a in range(0, L):
                for b in range(a + 1, L + 1):
                    m = (a + b) // 2
                    nodes = [[1, 0, NULL, NULL, ""], [1, 0, NULL, NULL, ""], [0, 1, NULL, NULL, ""], [0, 2, NULL, NULL, ""]]
                    edges = [[a, b, 2, 0, ""]]
                    if m > a:
                        edges += [[a, m, 2, 1, ""], [m, b, 3, 1, ""], [m, b, 3, 2, ""]]
                    else:
                        edges += [[a, b, 2, 1, ""]]
                    desc = mk_desc(L, [nd[1] for nd in nodes], [nd[0] for nd in nodes], edges,
                                   scale=rng.choice([1, 0.5, 1 / 3]))
                    nT = len(gen_ts.breakpoints(desc)) - 1
                    firsts = [["seek", h] for h in range(0, 2 * L)] + [["seek_index", k] for k in range(-nT, nT)] + \
                             [["next"], ["prev"]]
                    seconds = [["next"], ["prev"], ["seek", 0], ["seek", 2 * L - 1], ["seek", L], ["seek", L - 1]]
                    hists = [[f, s2, t3] for f in firsts for s2 in seconds for t3 in (["prev"], ["next"])]
                    if tier == "quick":
                        hists = rng.sample(hists, min(len(hists), 160))
                    yield {"desc": desc, "sample_lists": rng.random() < 0.5, "thr": rng.choice([1, 2]),
                           "tracked": [0] if rng.random() < 0.5 else None, "hists": hists, "gap": [a, b]}
        n = 500 if tier == "quick" else 6000
        for i in range(n):
            desc, a, b = gap_desc(rng)
            nT = len(gen_ts.breakpoints(desc)) - 1
            case = dict(rand_opts(rng, desc), desc=desc, gap=[a, b])
            case["hists"] = [rand_history(rng, desc["L"], nT, a, b) for _ in range(6)]
            yield case

    def observe(self, case):
        return observe_nav(case)

    def oracle(self, case, obs):
        return oracle_nav(case, obs)

    def nontrivial(self, case, obs):
        return len(case["desc"]["edges"]) > 0

    def describe(self, case, obs):
        d = case["desc"]
        a, b = case["gap"]
        L = d["L"]
        return {"trees": obs.get("num_trees"), "lead_gap_gt_half": 2 * a > L, "trail_gap_gt_half": 2 * (L - b) > L,
                "hists": min(len(case["hists"]), 10)}

    def shrink(self, case):
        for i in range(len(case["hists"])):
            yield dict(case, hists=[case["hists"][i]])
        if len(case["hists"]) == 1:
            h = case["hists"][0]
            for i in range(len(h)):
                if len(h) > 1:
                    yield dict(case, hists=[h[:i] + h[i + 1:]])
        d = case["desc"]
        for i in range(len(d["edges"])):
            yield dict(case, desc=dict(d, edges=d["edges"][:i] + d["edges"][i + 1:]))
        if case.get("tracked"):
            yield dict(case, tracked=None)
        if case["sample_lists"]:
            yield dict(case, sample_lists=False)


# ----------------------------------------------------------------------------------
# coiterate on pairs of tree sequences whose breakpoints differ, incl. by one ulp / 1e-12
# ----------------------------------------------------------------------------------
PERTURB = ["exact", "ulp_up", "ulp_dn", "rel_up", "rel_dn", "rel9_up"]


def coord_map(desc, kinds):
    """lattice point x -> float coordinate; kinds[x] perturbs interior points (ends stay exact)."""
    s = desc.get("scale", 1)
    L = desc["L"]
    out = []
    for x in range(L + 1):
        b = float(x * s)
        k = kinds[x] if 0 < x < L else "exact"
        if k == "ulp_up":
            b = math.nextafter(b, math.inf)
        elif k == "ulp_dn":
            b = math.nextafter(b, -math.inf)
        elif k == "rel_up":
            b = b * (1 + 1e-12)
        elif k == "rel_dn":
            b = b * (1 - 1e-12)
        elif k == "rel9_up":
            b = b * (1 + 4e-10)
        out.append(b)
    if any(not a < b for a, b in zip(out, out[1:])):
        out = [float(x * s) for x in range(L + 1)]
    return out


def build_mapped(desc, cmap):
    import tskit
    tc = tskit.TableCollection(cmap[desc["L"]])
    for fl, t, _p, _i, _m in desc["nodes"]:
        tc.nodes.add_row(flags=fl, time=t)
    for l, r, p, c, _m in desc["edges"]:
        tc.edges.add_row(cmap[l], cmap[r], p, c)
    tc.sort()
    return tc.tree_sequence()


class Coiterate(Family):
    """TreeSequence.coiterate: the yielded intervals are the partition of [0, L) at the union of
    the two breakpoint sets (compared as doubles, exactly), and each yielded tree is the tree of
    its sequence that covers the interval."""
    name = "coiterate"
    timeout = 30.0
    workers = 6

    def generate(self, rng, tier):
        n = 400 if tier == "quick" else 4000
        for i in range(n):
            scale = rng.choice([1 / 3, 0.1, 1 / 7, 1, 0.3, 2.5, 1e-3 / 3, 1e6 / 7])
            d1 = gen_ts.random_desc(rng, max_nodes=6, max_L=rng.choice([4, 8, 12]), max_sites=0, metadata=False,
                                    individuals=False, populations=False, scale=scale,
                                    p_gap=rng.choice([0.0, 0.3]))
            d2 = gen_ts.random_desc(rng, max_nodes=6, max_L=d1["L"], max_sites=0, metadata=False,
                                    individuals=False, populations=False, scale=scale,
                                    p_gap=rng.choice([0.0, 0.3]))
            d2["L"] = d1["L"]
            mode = rng.choice(["exact", "mixed", "mixed", "all_ulp", "self"])
            if mode == "self":
                d2 = d1
            L = d1["L"]
            if mode in ("exact", "self"):
                k2 = ["exact"] * (L + 1)
            elif mode == "all_ulp":
                k2 = [rng.choice(["ulp_up", "ulp_dn"]) for _ in range(L + 1)]
            else:
                k2 = [rng.choice(PERTURB) for _ in range(L + 1)]
            k1 = ["exact"] * (L + 1) if rng.random() < 0.7 else [rng.choice(PERTURB) for _ in range(L + 1)]
            yield {"d1": d1, "d2": d2, "k1": k1, "k2": k2, "sample_lists": rng.random() < 0.3}

    def observe(self, case):
        c1 = coord_map(case["d1"], case["k1"])
        c2 = coord_map(case["d2"], case["k2"])
        ts1 = build_mapped(case["d1"], c1)
        ts2 = build_mapped(case["d2"], c2)
        o = {"bps1": [float(b).hex() for b in ts1.breakpoints()],
             "bps2": [float(b).hex() for b in ts2.breakpoints()], "rows": []}
        try:
            for iv, t1, t2 in ts1.coiterate(ts2, sample_lists=case["sample_lists"]):
                if len(o["rows"]) > 200:
                    o["exc"] = "more than 200 intervals"
                    break
                o["rows"].append([float(iv.left).hex(), float(iv.right).hex(),
                                  int(t1.index), float(t1.interval.left).hex(), float(t1.interval.right).hex(),
                                  _ints(t1.parent_array),
                                  int(t2.index), float(t2.interval.left).hex(), float(t2.interval.right).hex(),
                                  _ints(t2.parent_array)])
        except Exception as e:
            o["exc"] = "%s: %s" % (type(e).__name__, e)
        return o

    def oracle(self, case, obs):
        out = []
        c1 = coord_map(case["d1"], case["k1"])
        c2 = coord_map(case["d2"], case["k2"])
        lat1 = gen_ts.breakpoints(case["d1"])
        lat2 = gen_ts.breakpoints(case["d2"])
        b1 = [c1[x] for x in lat1]
        b2 = [c2[x] for x in lat2]
        if obs["bps1"] != [b.hex() for b in b1] or obs["bps2"] != [b.hex() for b in b2]:
            out.append(("coiterate-breakpoints", "breakpoints are not the edge coordinates"))
            return out
        if "exc" in obs:
            out.append(("coiterate-exception", obs["exc"]))
        allb = sorted(set(b1) | set(b2))
        exp = [[a.hex(), b.hex()] for a, b in zip(allb[:-1], allb[1:])]
        got = [r[:2] for r in obs["rows"]]
        if got != exp:
            out.append(("coiterate-intervals", "intervals %r, partition at the union of the breakpoints %r"
                        % ([[float.fromhex(a), float.fromhex(b)] for a, b in got[:8]],
                           [[float.fromhex(a), float.fromhex(b)] for a, b in exp[:8]])))
        for r in obs["rows"]:
            left, right = float.fromhex(r[0]), float.fromhex(r[1])
            for (idx, tl, tr, par), bb, lat, desc in ((r[2:6], b1, lat1, case["d1"]), (r[6:10], b2, lat2, case["d2"])):
                k = max(i for i in range(len(bb) - 1) if bb[i] <= left)
                if idx != k or float.fromhex(tl) != bb[k] or float.fromhex(tr) != bb[k + 1] or not (bb[k] <= left and right <= bb[k + 1]):
                    out.append(("coiterate-trees", "interval [%r,%r): tree %d [%r,%r) does not cover it (expected tree %d)"
                                % (left, right, idx, float.fromhex(tl), float.fromhex(tr), k)))
                    break
                if par != gen_ts.parent_at(desc, lat[k]) + [NULL]:
                    out.append(("coiterate-parent", "interval [%r,%r): wrong parents" % (left, right)))
                    break
            if len(out) > 3:
                break
        return out[:4]

    prelude = "From TskVerif Require Import Base.Common C01.Model.\nOpen Scope Z_scope."
    shard = 200

    def coq_check(self, case, obs):
        # order-isomorphic image: every double that occurs -> its rank
        if "exc" in obs:
            return None
        vals = sorted({float.fromhex(h) for h in obs["bps1"] + obs["bps2"]})
        rank = {v: i for i, v in enumerate(vals)}
        r = lambda h: rank[float.fromhex(h)]
        try:
            rows = [[r(x[0]), r(x[1]), x[2], r(x[3]), r(x[4]), x[6], r(x[7]), r(x[8])] for x in obs["rows"]]
        except KeyError:
            return None       # an interval end that is no breakpoint: the oracle reports it
        return "res_eqb zll_eqb (coiterate %s %s %s) %s" % (
            cz(len(vals) - 1), clist([r(h) for h in obs["bps1"]]), clist([r(h) for h in obs["bps2"]]), cll(rows))

    def nontrivial(self, case, obs):
        return len(obs.get("rows", [])) > 1

    def describe(self, case, obs):
        return {"intervals": min(len(obs.get("rows", [])), 12),
                "perturbed": sum(1 for k in case["k2"][1:-1] if k != "exact")}

    def shrink(self, case):
        for key in ("k1", "k2"):
            for i, k in enumerate(case[key]):
                if k != "exact":
                    yield dict(case, **{key: case[key][:i] + ["exact"] + case[key][i + 1:]})
        for key in ("d1", "d2"):
            d = case[key]
            for i in range(len(d["edges"])):
                yield dict(case, **{key: dict(d, edges=d["edges"][:i] + d["edges"][i + 1:])})


# ----------------------------------------------------------------------------------
# correspondence with the Coq model (C01.Model evaluated by vm_compute)
# ----------------------------------------------------------------------------------

def cll(xss):
    return "[" + "; ".join(clist(xs) for xs in xss) + "]"


def clll(xsss):
    return "[" + ";\n ".join(cll(xss) for xss in xsss) + "]"


def impl_tree_obs(ts, t, inv, lists, queries):
    N = ts.num_nodes
    V = N
    o = [[int(t.index), inv[float(t.interval.left)], inv[float(t.interval.right)], int(t.num_edges)],
         _ints(t.parent_array), _ints(t.left_child_array), _ints(t.right_child_array),
         _ints(t.left_sib_array), _ints(t.right_sib_array), _ints(t.num_children_array),
         _ints(t.edge_array),
         [int(t.num_samples(u)) for u in range(N + 1)],
         [int(t.num_tracked_samples(u)) for u in range(N + 1)]]
    if lists:
        o += [[int(t.left_sample(u)) for u in range(N + 1)],
              [int(t.right_sample(u)) for u in range(N + 1)],
              [int(t.next_sample(i)) for i in range(ts.num_samples)]]
    if queries:
        o += [_ints(t.preorder()), _ints(t.postorder())]
        o += [_ints(t.preorder(u)) for u in range(N + 1)]
        o += [_ints(t.postorder(u)) for u in range(N + 1)]
        o += [[int(t.mrca(u, v)) for v in range(N + 1)] for u in range(N + 1)]
        o += [[int(t.depth(u)) for u in range(N + 1)]]
        o += [[int(bool(t.is_descendant(u, v))) for v in range(N + 1)] for u in range(N + 1)]
        tb = t.total_branch_length
        assert float(tb) == int(tb)
        o += [[int(tb)]]
        o += [_ints(t.children(u)) for u in range(N + 1)]
    return o


def observe_sweep(case):
    desc = case["desc"]
    inv = lattice(desc)
    ts = gen_ts.build_tables(desc).tree_sequence()
    kw = tree_kwargs(case)
    edges = [[inv[float(l)], inv[float(r)], int(p), int(c)]
             for l, r, p, c in zip(ts.edges_left, ts.edges_right, ts.edges_parent, ts.edges_child)]
    head = [_ints(ts.indexes_edge_insertion_order), _ints(ts.indexes_edge_removal_order),
            [inv[float(b)] for b in ts.breakpoints()], [int(ts.num_trees)], [1],
            _ints(ts.samples()),
            [(-1 if not (ts.node(u).flags & 1) else list(ts.samples()).index(u)) for u in range(ts.num_nodes)]]

    def dl(**k):
        out = []
        for iv, eo, ei in ts.edge_diffs(**k):
            out += [[inv[float(iv.left)], inv[float(iv.right)]], [int(e.id) for e in eo], [int(e.id) for e in ei]]
        return out
    trees = [impl_tree_obs(ts, t, inv, case["sample_lists"], case["queries"]) for t in ts.trees(**kw)]
    import tskit
    tr = tskit.Tree(ts, **kw)
    while tr.next():
        pass
    trees.append(impl_tree_obs(ts, tr, inv, case["sample_lists"], False))   # null state after the last tree
    sites = {"pos": [inv[float(p)] for p in ts.sites_position],
             "muts": [[int(a), int(b)] for a, b in zip(ts.mutations_site, ts.mutations_node)],
             "obs": [[int(s.id) for s in t.sites()] for t in ts.trees()] + [[int(m.edge) for m in ts.mutations()]]}
    return {"edges": edges, "obs": [head, dl(), dl(include_terminal=True)] + trees, "sites": sites}


def coq_sweep_term(case, obs):
    desc = case["desc"]
    ns = "[" + "; ".join("mkNode %s %s" % (cbool(nd[0] & 1), cz(nd[1])) for nd in desc["nodes"]) + "]"
    es = "[" + "; ".join("mkEdge %s %s %s %s" % tuple(cz(x) for x in e) for e in obs["edges"]) + "]"
    o = "(mkOpts %s %s %s)" % (cz(case["thr"]), cbool(case["sample_lists"]), clist(case.get("tracked") or []))
    term = "res_eqb zlll_eqb (model_obs %s %s %s %s %s) %s" % (
        cz(2 * desc["L"]), ns, es, o, cbool(case["queries"]), clll(obs["obs"]))
    st = obs["sites"]
    if st["pos"]:
        muts = "[" + "; ".join("(%s, %s)" % (cz(a), cz(b)) for a, b in st["muts"]) + "]"
        term += " && res_eqb zll_eqb (model_sites %s %s %s %s %s) %s" % (
            cz(2 * desc["L"]), ns, es, clist(st["pos"]), muts, cll(st["obs"]))
    return term


class SweepBase(Family):
    prelude = "From TskVerif Require Import Base.Common C01.Model.\nOpen Scope Z_scope."
    timeout = 60.0
    workers = 8
    shard = 120
    coq_timeout = 1200

    def observe(self, case):
        return observe_sweep(case)

    def oracle(self, case, obs):
        # the indexes are sorted permutations; intervals are the end-point partition; parents
        # follow the definition (cheap re-check so that a model disagreement can be attributed)
        out = []
        desc = case["desc"]
        bps = [2 * b for b in gen_ts.breakpoints(desc)]
        if obs["obs"][0][2] != bps:
            out.append(("breakpoints", "%r vs %r" % (obs["obs"][0][2], bps)))
        for k, t in enumerate(obs["obs"][3:]):
            if k < len(bps) - 1:
                exp = Spec(desc, bps[k], case["thr"], case.get("tracked")).par + [NULL]
                if t[1] != exp:
                    out.append(("parent", "tree %d: %r vs %r" % (k, t[1], exp)))
        return out

    def coq_check(self, case, obs):
        return coq_sweep_term(case, obs)

    def nontrivial(self, case, obs):
        return len(case["desc"]["edges"]) > 0

    def describe(self, case, obs):
        d = case["desc"]
        return {"nodes": len(d["nodes"]), "edges": min(len(d["edges"]), 14), "trees": obs["obs"][0][3][0],
                "thr": case["thr"], "sample_lists": case["sample_lists"], "queries": case["queries"]}

    def shrink(self, case):
        d = case["desc"]
        for i in range(len(d["edges"])):
            yield dict(case, desc=dict(d, edges=d["edges"][:i] + d["edges"][i + 1:]))
        if case.get("tracked"):
            yield dict(case, tracked=None)
        if case["sample_lists"]:
            yield dict(case, sample_lists=False)
        if case["queries"]:
            yield dict(case, queries=False)
        if case["thr"] != 1:
            yield dict(case, thr=1)


# ----------------------------------------------------------------------------------
# navigation histories against C01.NavModel: the whole tree state after every step
# ----------------------------------------------------------------------------------

OPCODE = {"next": 0, "prev": 1, "first": 2, "last": 3, "clear": 4, "seek": 5, "seek_index": 6}


def observe_navmodel(case):
    import tskit
    desc = case["desc"]
    inv = lattice(desc)
    ts = gen_ts.build_tables(desc).tree_sequence()
    kw = tree_kwargs(case)
    s = desc.get("scale", 1)
    edges = [[inv[float(l)], inv[float(r)], int(p), int(c)]
             for l, r, p, c in zip(ts.edges_left, ts.edges_right, ts.edges_parent, ts.edges_child)]
    out = []
    for ops in case["hists"]:
        t = tskit.Tree(ts, **kw)
        steps = []
        for op in ops:
            exc = 0
            try:
                if op[0] == "seek":
                    h = op[1]
                    t.seek((h / 2 if h % 2 else h // 2) * s)
                elif op[0] == "seek_index":
                    t.seek_index(op[1])
                else:
                    getattr(t, op[0])()
            except (ValueError, IndexError):
                exc = 1
            steps.append([[exc]] + impl_tree_obs(ts, t, inv, case["sample_lists"], False))
        out.append(steps)
    return {"edges": edges, "num_trees": int(ts.num_trees), "obs": out}


class NavModelBase(Family):
    """tskit.Tree driven through a history of next / prev / first / last / clear / seek /
    seek_index; after every step index, interval, num_edges, the quintuply linked arrays, edge
    array, counts and sample lists equal those of C01.NavModel (whose bookmarks decide what
    the following step removes and inserts)."""
    prelude = "From TskVerif Require Import Base.Common C01.Model C01.NavModel.\nOpen Scope Z_scope."
    timeout = 60.0
    workers = 8
    shard = 100
    coq_timeout = 1200

    def observe(self, case):
        return observe_navmodel(case)

    def oracle(self, case, obs):
        # index and parent array by definition (so that a model disagreement can be attributed)
        out = []
        desc = case["desc"]
        bps2 = [2 * b for b in gen_ts.breakpoints(desc)]
        nT = len(bps2) - 1
        for ops, steps in zip(case["hists"], obs["obs"]):
            idx = -1
            for j, (op, st) in enumerate(zip(ops, steps)):
                exp = nav_expected_index(nT, bps2, idx, op)
                if (exp is None) != (st[0][0] == 1):
                    out.append(("nav-reject", "%r step %d" % (ops, j)))
                    break
                idx = idx if exp is None else exp
                if st[1][0] != idx:
                    out.append(("nav-index", "%r step %d: %d vs %d" % (ops, j, st[1][0], idx)))
                    break
                par = ([NULL] * len(desc["nodes"]) if idx == -1 else
                       Spec(desc, bps2[idx], case["thr"], case.get("tracked")).par) + [NULL]
                if st[2] != par:
                    out.append(("nav-parent", "%r step %d: %r vs %r" % (ops, j, st[2], par)))
                    break
            if out:
                break
        return out

    def coq_check(self, case, obs):
        desc = case["desc"]
        ns = "[" + "; ".join("mkNode %s %s" % (cbool(nd[0] & 1), cz(nd[1])) for nd in desc["nodes"]) + "]"
        es = "[" + "; ".join("mkEdge %s %s %s %s" % tuple(cz(x) for x in e) for e in obs["edges"]) + "]"
        o = "(mkOpts %s %s %s)" % (cz(case["thr"]), cbool(case["sample_lists"]), clist(case.get("tracked") or []))
        hs = "[" + "; ".join("[" + "; ".join("(%s, %s)" % (cz(OPCODE[op[0]]), cz(op[1] if len(op) > 1 else 0))
                                              for op in ops) + "]" for ops in case["hists"]) + "]"
        exp = "[" + ";\n ".join(clll(h) for h in obs["obs"]) + "]"
        return "res_eqb zllll_eqb (model_nav %s %s %s %s %s) %s" % (cz(2 * desc["L"]), ns, es, o, hs, exp)

    def nontrivial(self, case, obs):
        return len(case["desc"]["edges"]) > 0

    def describe(self, case, obs):
        d = case["desc"]
        kinds = sorted({op[0] for ops in case["hists"] for op in ops[1:]})
        return {"trees": obs.get("num_trees"), "edges": min(len(d["edges"]), 12), "thr": case["thr"],
                "sample_lists": case["sample_lists"], "tracked": bool(case.get("tracked")),
                "first_ops": sorted({ops[0][0] for ops in case["hists"]}), "later_ops": kinds}

    def shrink(self, case):
        for i in range(len(case["hists"])):
            if len(case["hists"]) > 1:
                yield dict(case, hists=[case["hists"][i]])
        if len(case["hists"]) == 1:
            h = case["hists"][0]
            for i in range(len(h)):
                if len(h) > 1:
                    yield dict(case, hists=[h[:i] + h[i + 1:]])
        d = case["desc"]
        for i in range(len(d["edges"])):
            yield dict(case, desc=dict(d, edges=d["edges"][:i] + d["edges"][i + 1:]))
        if case.get("tracked"):
            yield dict(case, tracked=None)
        if case["sample_lists"]:
            yield dict(case, sample_lists=False)
        if case["thr"] != 1:
            yield dict(case, thr=1)


def all_first_ops(L, nT):
    return [["seek", h] for h in range(0, 2 * L)] + [["seek_index", k] for k in range(-nT, nT)] + \
           [["next"], ["prev"], ["first"], ["last"]]


class NavModelTiny(NavModelBase):
    """every tiny table x every first operation from a fresh tree x sampled continuations"""
    name = "nav_model_tiny"

    def generate(self, rng, tier):
        scopes = [(2, 2), (3, 2), (3, 3)] if tier == "quick" else [(2, 3), (3, 3), (4, 2), (4, 3)]
        budget = 200 if tier == "quick" else 1500
        allc = [(n, L, tv, edges) for n, L in scopes for tv, edges in tiny_descs(n, L)]
        keep = allc if len(allc) <= budget else rng.sample(allc, budget)
        conts = [["next"], ["prev"], ["first"], ["last"], ["clear"]]
        for n, L, tv, edges in keep:
            flags = tuple(1 if rng.random() < 0.75 else 0 for _ in range(n))
            edges = list(edges)
            rng.shuffle(edges)
            # dyadic scales only: the distances of tsk_tree_seek_linear are then exact in doubles,
            # as they are in the model (with 1/3 a tie can round either way and the walk, hence
            # the sibling order, differs)
            desc = mk_desc(L, tv, flags, edges, scale=rng.choice([1, 0.5, 0.25]))
            nT = len(gen_ts.breakpoints(desc)) - 1
            s = sample_ids(desc)
            hists = []
            for f in all_first_ops(L, nT) + [["seek", 2 * L], ["seek", -1], ["seek_index", nT], ["seek_index", -nT - 1]]:
                h = [f]
                for _ in range(rng.randrange(1, 4)):
                    r = rng.random()
                    h.append(["seek", rng.randrange(0, 2 * L)] if r < 0.25 else
                             ["seek_index", rng.randrange(-nT, nT)] if r < 0.35 else rng.choice(conts[:2]) if r < 0.85
                             else rng.choice(conts))
                hists.append(h)
            yield {"desc": desc, "sample_lists": rng.random() < 0.5, "thr": rng.choice([1, 1, 2, 3]),
                   "tracked": sorted(rng.sample(s, rng.randrange(0, len(s) + 1))) if rng.random() < 0.6 else None,
                   "hists": hists}


class NavModelRand(NavModelBase):
    """random tables, a share with edge-less ends covering more than half of L"""
    name = "nav_model_rand"

    def generate(self, rng, tier):
        n = 300 if tier == "quick" else 2500
        for i in range(n):
            desc, a, b = gap_desc(rng, max_nodes=rng.choice([4, 6, 8]))
            desc = dict(desc, scale=rng.choice([1, 0.5, 0.25, 2]))
            nT = len(gen_ts.breakpoints(desc)) - 1
            case = dict(rand_opts(rng, desc), desc=desc)
            case["hists"] = [rand_history(rng, desc["L"], nT, a, b) for _ in range(5)]
            yield case


class SweepTiny(SweepBase):
    name = "sweep_tiny"

    def generate(self, rng, tier):
        scopes = [(2, 2), (3, 2), (3, 3), (4, 2)] if tier == "quick" else [(2, 3), (3, 3), (4, 2), (4, 3)]
        budget = 600 if tier == "quick" else 4000
        allc = [(n, L, tv, edges) for n, L in scopes for tv, edges in tiny_descs(n, L)]
        keep = allc if len(allc) <= budget else rng.sample(allc, budget)
        for n, L, tv, edges in keep:
            flags = tuple(1 if rng.random() < 0.75 else 0 for _ in range(n))
            edges = list(edges)
            rng.shuffle(edges)
            desc = mk_desc(L, tv, flags, edges, scale=rng.choice([1, 0.5, 1 / 3]))
            s = sample_ids(desc)
            yield {"desc": desc, "sample_lists": rng.random() < 0.7, "thr": rng.choice([1, 1, 2, 3]),
                   "tracked": sorted(rng.sample(s, rng.randrange(0, len(s) + 1))) if rng.random() < 0.6 else None,
                   "queries": True}


class SweepRand(SweepBase):
    name = "sweep_rand"

    def generate(self, rng, tier):
        n = 700 if tier == "quick" else 6000
        for i in range(n):
            desc = gen_ts.random_desc(rng, max_nodes=9, max_L=6, max_sites=rng.choice([0, 3, 5]),
                                      max_muts=3, metadata=False,
                                      individuals=False, populations=False,
                                      p_internal_sample=rng.choice([0.0, 0.15, 0.5]),
                                      p_gap=rng.choice([0.0, 0.15, 0.4]),
                                      p_root=rng.choice([0.05, 0.2, 0.5]))
            case = dict(rand_opts(rng, desc), desc=desc)
            case["queries"] = len(desc["nodes"]) <= 6 or rng.random() < 0.3
            yield case



# ----------------------------------------------------------------------------------
# Python-level views and reverse edge diffs vs the model (model_pyviews)
# ----------------------------------------------------------------------------------

def observe_pyviews(case):
    import tskit
    desc = case["desc"]
    inv = lattice(desc)
    ts = gen_ts.build_tables(desc).tree_sequence()
    kw = tree_kwargs(case)
    N = ts.num_nodes
    edges = [[inv[float(l)], inv[float(r)], int(p), int(c)]
             for l, r, p, c in zip(ts.edges_left, ts.edges_right, ts.edges_parent, ts.edges_child)]

    def dl(**k):
        out = []
        for iv, eo, ei in ts.edge_diffs(direction=tskit.REVERSE, **k):
            out += [[inv[float(iv.left)], inv[float(iv.right)]], [int(e.id) for e in eo], [int(e.id) for e in ei]]
        return out
    starts = [None] + list(range(N + 1))
    trees = []
    for t in ts.trees(**kw):
        o = [_ints(t.roots)]
        for order in ("inorder", "levelorder", "timeasc", "timedesc", "minlex_postorder"):
            o += [_ints(t.nodes(r, order=order)) for r in starts]
        o += [_ints(t.leaves(r)) for r in starts]
        o += [_ints(t.samples(r)) for r in starts]
        trees.append(o)
    esets = []
    for e in ts.edgesets():
        esets += [[inv[float(e.left)], inv[float(e.right)], int(e.parent)], _ints(e.children)]
    margs = case.get("mrca_args") or []
    mres = [[int(t.mrca(*a)) for a in margs] for t in ts.trees(**kw)]
    return {"edges": edges, "obs": [dl(), dl(include_terminal=True)] + trees, "edgesets": esets, "mrca": mres}


class PyViewsBase(SweepBase):
    shard = 150

    def observe(self, case):
        return observe_pyviews(case)

    def oracle(self, case, obs):
        return []

    def coq_check(self, case, obs):
        desc = case["desc"]
        ns = "[" + "; ".join("mkNode %s %s" % (cbool(nd[0] & 1), cz(nd[1])) for nd in desc["nodes"]) + "]"
        es = "[" + "; ".join("mkEdge %s %s %s %s" % tuple(cz(x) for x in e) for e in obs["edges"]) + "]"
        o = "(mkOpts %s %s %s)" % (cz(case["thr"]), cbool(case["sample_lists"]), clist(case.get("tracked") or []))
        term = ("res_eqb zlll_eqb (model_pyviews %s %s %s %s) %s && res_eqb zll_eqb (model_edgesets %s %s %s) %s"
                % (cz(2 * desc["L"]), ns, es, o, clll(obs["obs"]), cz(2 * desc["L"]), ns, es, cll(obs["edgesets"])))
        if case.get("mrca_args"):
            term += " && res_eqb zll_eqb (model_mrca %s %s %s %s %s) %s" % (
                cz(2 * desc["L"]), ns, es, o, cll(case["mrca_args"]), cll(obs["mrca"]))
        return term

    def describe(self, case, obs):
        d = case["desc"]
        return {"nodes": len(d["nodes"]), "edges": min(len(d["edges"]), 14), "trees": len(obs["obs"]) - 2,
                "thr": case["thr"], "sample_lists": case["sample_lists"]}


class PyViewsTiny(PyViewsBase):
    name = "pyviews_tiny"

    def generate(self, rng, tier):
        scopes = [(2, 2), (3, 2), (3, 3), (4, 2)] if tier == "quick" else [(3, 3), (4, 2), (4, 3)]
        budget = 400 if tier == "quick" else 2500
        allc = [(n, L, tv, edges) for n, L in scopes for tv, edges in tiny_descs(n, L)]
        keep = allc if len(allc) <= budget else rng.sample(allc, budget)
        for n, L, tv, edges in keep:
            flags = tuple(1 if rng.random() < 0.75 else 0 for _ in range(n))
            edges = list(edges)
            rng.shuffle(edges)
            desc = mk_desc(L, tv, flags, edges, scale=rng.choice([1, 0.5, 1 / 3]))
            yield {"desc": desc, "sample_lists": rng.random() < 0.6, "thr": rng.choice([1, 1, 2, 3]),
                   "tracked": None, "queries": False,
                   "mrca_args": [[rng.randrange(n + 1) for _ in range(rng.choice([2, 3, 3, 4]))] for _ in range(10)]}


class PyViewsRand(PyViewsBase):
    name = "pyviews_rand"

    def generate(self, rng, tier):
        n = 400 if tier == "quick" else 3000
        for i in range(n):
            desc = gen_ts.random_desc(rng, max_nodes=8, max_L=5, max_sites=0, metadata=False,
                                      individuals=False, populations=False,
                                      p_internal_sample=rng.choice([0.0, 0.15, 0.5]),
                                      p_gap=rng.choice([0.0, 0.15, 0.4]),
                                      p_root=rng.choice([0.05, 0.2, 0.5]))
            case = dict(rand_opts(rng, desc), desc=desc)
            case["tracked"] = None
            case["queries"] = False
            nn = len(desc["nodes"])
            case["mrca_args"] = [[rng.randrange(nn + 1) for _ in range(rng.choice([2, 3, 3, 4]))] for _ in range(10)]
            yield case


FAMILIES = [ViewsTiny, ViewsRand, ViewsBig, NavHist, Coiterate, SweepTiny, SweepRand, NavModelTiny, NavModelRand, PyViewsTiny, PyViewsRand]


NOT_COVERED = [
    "drawing, balance indexes, kc_distance/rf_distance, newick (other properties)",
    "navigation histories on a tree that was copied or whose options were changed mid-history (C06)",
    "model correspondence of seek_linear on coordinates whose distances are not exact in doubles "
    "(the oracle family nav_hist covers them; nav_model_* use dyadic scales)",
    "float coordinates that are not an order-isomorphic image of a small integer lattice",
]
