"""C08 — statistics equal their documented definitions evaluated naively; additive over
window refinements; threaded == single-threaded.

Every oracle here is an *exact* (fractions.Fraction) evaluation of the definition in
/repo/docs/stats.md and the method docstrings on the JSON description of the tree
sequence (harness/gen_ts.py, scale=1: integer edge coordinates / node times, sites on
the half-integer lattice), never on tskit's own trees:

  * marginal forest at unit interval [k,k+1): gen_ts.parent_at(desc, k);
  * state of node u  = sum of the weights of the samples at or below u;
  * branch mode      = sum_k |[k,k+1) ∩ window| * sum_{u with a parent} (t[parent]-t[u]) * F(state u)
  * node mode        = per node u: sum_k |[k,k+1) ∩ window| * F(state u)
  * site mode        = sum over sites in the window, over alleles (ancestral allele left
                       out when polarised) of f(total weight of the samples carrying it),
                       the samples' alleles being decoded naively (nearest mutation above);
  * F = f(x) (polarised) or f(x) + f(total - x) (unpolarised); span_normalise divides by
    the window length.
Floats returned by tskit are compared with the exact value at relative tolerance 1e-9
(absolute 1e-9 below magnitude 1) — never by float equality.
"""
import itertools
import math
from fractions import Fraction as Fr

from harness.runner import Family
from harness import gen_ts

NULL = -1
TOL = 1e-9

NOT_COVERED = [
    "genetic_relatedness_vector with mode='site'/'node' (this snapshot's C code supports only "
    "'branch' there: LibraryError TSK_ERR_UNSUPPORTED_STAT_MODE, although the Python default is "
    "mode='site') and with the `nodes` argument; pca (randomised linear algebra on top of it)",
    "pair_coalescence_quantiles / pair_coalescence_rates (only pair_coalescence_counts is checked)",
    "two-locus ld_matrix statistics other than r2 on biallelic sites (D, D2, Dz, pi2, D', r, "
    "*_unbiased, branch mode, sample sets, multiallelic weighting) - undocumented in this snapshot",
    "trait_linear_model with user covariates Z (only Z=None, i.e. intercept only)",
    "mode='node' for allele_frequency_spectrum is unsupported by tskit (only the error is checked)",
    "Coq models exist only for: the general framework (site/branch/node specification, the C "
    "branch sweep, the C site allele table), branch AFS with one polarised sample set, the "
    "relatedness-vector entries, rf_distance, the proportion shapes and the pair-coalescence span; "
    "Fst, Tajimas_D, trait_*, weighted relatedness, AFS (site / joint / folded), divergence / "
    "relatedness matrices, GNN, mean_descendants, pair_coalescence_counts values, LD r2 and KC "
    "are checked by the exact Python oracles only",
    "real thread interleavings (GIL release in _tskitmodule.c): only repeated runs with "
    "num_threads in {1,2,3,8} are compared; the chunk/combine logic is proved in Coq",
    "non-integer edge coordinates / node times (exactness of the oracle); window breakpoints "
    "are arbitrary rationals (halves..sevenths)",
]


# ---------------------------------------------------------------------------------
# description helpers (pure functions of the JSON description; no tskit)
# ---------------------------------------------------------------------------------

def samples_of(desc):
    return [i for i, nd in enumerate(desc["nodes"]) if nd[0] & 1]


def gen_desc(rng, max_nodes=8, max_L=6, min_samples=2, max_sites=4, p_gap=0.15):
    alle = rng.choice([("0", "1"), ("A", "C", "G", "T"), ("A", "C", "G", "T", "", "AC"), ("0", "1", "2")])
    for _ in range(200):
        d = gen_ts.random_desc(rng, max_nodes=max_nodes, max_L=max_L, max_sites=max_sites, max_muts=4,
                               metadata=False, individuals=False, populations=False,
                               alleles=alle, scale=1, p_gap=p_gap)
        if len(samples_of(d)) >= min_samples:
            return reshape_desc(rng, d)
    raise RuntimeError("no description with enough samples")


def reshape_desc(rng, d):
    """Round-5 classes 1 and 5, applied to every family that draws from gen_desc (all later
    choices - sample sets, focal nodes, windows - are made on the result, so nothing has to be
    remapped): (5) a last tree that arises purely from edge removals, long edge-less regions
    before the first and after the last edge; (1) node ids in no relation to time order."""
    d = dict(d)
    E = [list(e) for e in d["edges"]]
    if E and rng.random() < 0.3:
        rmax = max(e[1] for e in E)
        at_end = [e for e in E if e[1] == rmax and e[1] - e[0] >= 2]
        site_there = any(rmax - 1 <= fr(s_[0]) < rmax for s_ in d["sites"])
        if len(at_end) >= 1 and not site_there and any(e[1] == rmax for e in E if e not in at_end[:1]):
            for e in rng.sample(at_end, rng.randrange(1, len(at_end) + 1)):
                if sum(1 for x in E if x[1] == rmax) > 1:       # keep a tree up to rmax
                    e[1] -= 1
    if rng.random() < 0.3:
        a, b = rng.choice([0, 0, 1, 2, 3]), rng.choice([0, 1, 2, 3])
        E = [[e[0] + a, e[1] + a] + e[2:] for e in E]
        d["sites"] = [[(fr(s_[0]) + a), s_[1], s_[2]] for s_ in d["sites"]]
        d["sites"] = [[int(p_) if p_.denominator == 1 else float(p_), x, y] for p_, x, y in d["sites"]]
        d["L"] = d["L"] + a + b
    d["edges"] = E
    d2, _pi = gen_ts.permute_node_ids(rng, d, p=0.5)
    return d2


# forms for methods that hand the ids straight to the C module (mean_descendants, GNN): a
# 64-bit / unsigned array is refused there with a TypeError (safe-casting rule), which is a
# clean refusal, so only forms the interface accepts are exercised
SET_FORMS_LL = ["list", "list", "i32", "view"]     # the outer container must be a list

# ---- round-5 class 2: the same argument in the forms a caller may use ----------------
SET_FORMS = ["list", "list", "tuple", "i32", "i64", "u32", "view", "mixed"]
IDX_FORMS = ["list", "tuple", "i32", "i64", "view"]
WIN_FORMS = ["list", "tuple", "f64", "view"]


def conv_sets(sets, form):
    import numpy as np
    if sets is None or form == "list":
        return sets
    flat = not isinstance(sets[0], (list, tuple))

    def one(A, j=0):
        if form == "tuple":
            return tuple(A)
        if form in ("i32", "i64", "u32") or (form == "mixed" and j % 2 == 0):
            return np.array(A, dtype={"i32": np.int32, "i64": np.int64, "u32": np.uint32, "mixed": np.int64}[form])
        if form == "view":
            buf = np.full(2 * len(A) + 1, -1, dtype=np.int32)
            buf[::2][:len(A)] = A
            return buf[::2][:len(A)]
        return list(A)
    if flat:
        return one(sets)
    out = [one(A, j) for j, A in enumerate(sets)]
    return tuple(out) if form == "tuple" else out


def conv_idx(idx, form):
    import numpy as np
    if idx is None or form == "list":
        return idx
    single = not isinstance(idx[0], (list, tuple))
    if form == "tuple":
        return tuple(idx) if single else tuple(tuple(t) for t in idx)
    a = np.array(idx, dtype=np.int64 if form == "i64" else np.int32)
    if form == "view":
        if single:
            buf = np.full(2 * len(idx), 0, dtype=np.int32)
            buf[::2] = idx
            return buf[::2]
        buf = np.zeros((a.shape[0], 2 * a.shape[1]), dtype=np.int32)
        buf[:, ::2] = a
        return buf[:, ::2]
    return a


def conv_win(w, form):
    import numpy as np
    if w is None or isinstance(w, str) or form == "list":
        return w
    if form == "tuple":
        return tuple(w)
    if form == "view":
        buf = np.full(2 * len(w), -1.0)
        buf[::2] = w
        return buf[::2]
    return np.array(w, dtype=np.float64)


def form_of(case, key, choices):
    """deterministic choice of an argument form from the case itself (also for corpus cases)"""
    import hashlib
    import json
    h = hashlib.sha256((key + json.dumps(case, sort_keys=True, default=str)).encode()).digest()
    return choices[h[0] % len(choices)]


def random_argform(rng):
    return {"sets": rng.choice(SET_FORMS), "idx": rng.choice(IDX_FORMS), "win": rng.choice(WIN_FORMS)}


def fr(x):
    """[num, den] | int | half-integer float  ->  Fraction."""
    if isinstance(x, (list, tuple)):
        return Fr(x[0], x[1])
    return Fr(x)


def enc(q):
    q = Fr(q)
    return [q.numerator, q.denominator]


def site_positions(desc):
    return [fr(s[0]) for s in desc["sites"]]


def resolve_windows(desc, spec):
    """Window breakpoints as Fractions for a window specification."""
    L = Fr(desc["L"])
    if spec is None or spec == "none":
        return [Fr(0), L]
    if spec == "trees":
        return [Fr(x) for x in gen_ts.breakpoints(desc)]
    if spec == "sites":
        # docs/stats.md: one window per site, [s.position ...] + [L]; windows must start at
        # 0, so the first window starts at 0 (python/tskit/trees.py parse_windows)
        pos = site_positions(desc)
        if not pos:
            return [Fr(0), L]
        return [Fr(0)] + pos[1:] + [L]
    return [fr(x) for x in spec]


def random_windows(rng, desc, kind=None):
    """A window spec: None | 'trees' | 'sites' | explicit dyadic breakpoints (cutting trees,
    landing on sites, leaving empty windows)."""
    L = desc["L"]
    kind = kind or rng.choice(["none", "trees", "sites", "list", "list", "list", "list"])
    if kind != "list":
        return kind
    # dyadic breakpoints are exact floats; thirds / fifths / sevenths are not: the
    # implementation then sees the nearest double (harmless at 1e-9 because sites sit on the
    # half-integer lattice and tree breakpoints on integers, never on such a breakpoint)
    den = rng.choice([1, 2, 2, 4, 3, 5, 7])
    cand = [p for p in range(1, L * den) if den in (1, 2, 4) or (2 * p) % den != 0]
    k = rng.randrange(0, min(len(cand), 5) + 1)
    pts = sorted(rng.sample(cand, k))
    return [[0, 1]] + [enc(Fr(p, den)) for p in pts] + [[L, 1]]


def refine(rng, wins, L):
    """Random refinement: extra dyadic breakpoints inserted into [Fraction] windows."""
    den = rng.choice([2, 4, 8])
    cand = [Fr(p, den) for p in range(1, L * den) if Fr(p, den) not in wins]
    k = rng.randrange(1, min(len(cand), 4) + 1) if cand else 0
    return sorted(set(wins) | set(rng.sample(cand, k)))


def win_arg(spec):
    """Window spec -> the argument handed to tskit."""
    if spec is None or spec == "none":
        return None
    if isinstance(spec, str):
        return spec
    return [float(fr(x)) for x in spec]


class Forests:
    """Per unit interval k: parent array and, per sample, its chain to the root."""

    def __init__(self, desc):
        self.desc = desc
        self.N = len(desc["nodes"])
        self.L = desc["L"]
        self.time = [Fr(nd[1]) for nd in desc["nodes"]]
        self.samples = samples_of(desc)
        self.par = {}

    def parent(self, x):
        """parent array at position x (x integer or a site's half-integer position)"""
        key = Fr(x)
        if key not in self.par:
            self.par[key] = gen_ts.parent_at(self.desc, key)
        return self.par[key]

    def chain(self, x, s):
        par = self.parent(x)
        out, u = [], s
        while u != NULL:
            out.append(u)
            u = par[u]
        return out

    def state(self, x, W):
        """W: {sample: vector}.  state[u] = sum of W[s] over samples s at or below u."""
        k = len(next(iter(W.values()))) if W else 0
        st = [[Fr(0)] * k for _ in range(self.N)]
        for s, w in W.items():
            for u in self.chain(x, s):
                st[u] = [a + b for a, b in zip(st[u], w)]
        return st

    def genotype(self, site_index):
        """allele (string) carried by every sample at a site: derived state of the nearest
        mutation at or above the sample (the last one on that node), else ancestral."""
        pos, anc, _ = self.desc["sites"][site_index]
        muts = [(i, m) for i, m in enumerate(self.desc["mutations"]) if m[0] == site_index]
        parents = {m[3] for _, m in muts}
        bottom = {}          # node -> derived state of its lowest mutation at this site
        for i, m in muts:
            same_node_child = any(m2[3] == i and m2[1] == m[1] for _, m2 in muts)
            if not same_node_child:
                bottom[m[1]] = m[2]
        g = {}
        for s in self.samples:
            a = anc
            for u in self.chain(fr(pos), s):
                if u in bottom:
                    a = bottom[u]
                    break
            g[s] = a
        alleles = [anc]
        for _, m in muts:
            if m[2] not in alleles:
                alleles.append(m[2])
        return g, alleles


UNDEF = None      # a term that divides by zero: tskit returns nan/inf (or 0 when untouched)


def vadd(a, b):
    return [UNDEF if (x is UNDEF or y is UNDEF) else x + y for x, y in zip(a, b)]


def vscale(c, a):
    return [UNDEF if x is UNDEF else c * x for x in a]


def safe(thunk):
    try:
        return thunk()
    except ZeroDivisionError:
        return UNDEF


def general_exact(desc, W, f, m, wins, mode, polarised, span_normalise, forests=None):
    """The documented definition of general_stat, exactly.  W: {sample: [Fraction]},
    f: vector -> list of m (Fraction | UNDEF).  Returns per window a list of m values
    (site, branch) or per window per node a list of m values (node)."""
    F_ = forests or Forests(desc)
    k = len(next(iter(W.values())))
    total = [sum((W[s][j] for s in W), Fr(0)) for j in range(k)]

    def Fun(x):
        r = f(x)
        if not polarised:
            r = vadd(r, f([t - a for t, a in zip(total, x)]))
        return r

    out = []
    for a, b in zip(wins[:-1], wins[1:]):
        if mode == "site":
            acc = [Fr(0)] * m
            for si, s in enumerate(desc["sites"]):
                if not (a <= fr(s[0]) < b):
                    continue
                g, alleles = F_.genotype(si)
                for al in alleles[(1 if polarised else 0):]:
                    w = [sum((W[smp][j] for smp in W if g[smp] == al), Fr(0)) for j in range(k)]
                    acc = vadd(acc, f(w))
        elif mode == "branch":
            acc = [Fr(0)] * m
            for kk in range(desc["L"]):
                ov = min(b, Fr(kk + 1)) - max(a, Fr(kk))
                if ov <= 0:
                    continue
                par = F_.parent(kk)
                st = F_.state(kk, W)
                for u in range(F_.N):
                    if par[u] != NULL:
                        bl = F_.time[par[u]] - F_.time[u]
                        acc = vadd(acc, vscale(ov * bl, Fun(st[u])))
        elif mode == "node":
            acc = [[Fr(0)] * m for _ in range(F_.N)]
            for kk in range(desc["L"]):
                ov = min(b, Fr(kk + 1)) - max(a, Fr(kk))
                if ov <= 0:
                    continue
                st = F_.state(kk, W)
                for u in range(F_.N):
                    acc[u] = vadd(acc[u], vscale(ov, Fun(st[u])))
        else:
            raise ValueError(mode)
        if span_normalise:
            if mode == "node":
                acc = [vscale(1 / (b - a), r) for r in acc]
            else:
                acc = vscale(1 / (b - a), acc)
        out.append(acc)
    # A summary function whose denominator vanishes for these sample-set sizes (it then
    # does so for every state, e.g. diversity of a single sample) is nan for every node in
    # the C code, and the running sums never recover from nan: the whole output column is
    # unspecified ("do not rely on 0 or nan", docs/stats.md), also for windows without terms.
    z = f([Fr(0)] * k)
    degenerate = [j for j in range(m) if z[j] is UNDEF]
    if degenerate:
        def kill(row):
            if row and isinstance(row[0], list):
                return [kill(r) for r in row]
            return [UNDEF if j in degenerate else v for j, v in enumerate(row)]
        out = [kill(r) for r in out]
    return out


def indicator_W(desc, sample_sets):
    return {s: [Fr(1 if s in A else 0) for A in sample_sets] for s in samples_of(desc)}


# ---- summary functions of docs/stats.md "Summary functions" (x = counts, n = set sizes) ---

def sf_diversity(n):
    return lambda x: [safe(lambda j=j: x[j] * (n[j] - x[j]) / Fr(n[j] * (n[j] - 1))) for j in range(len(n))]


def sf_segsites(n):
    return lambda x: [safe(lambda j=j: (1 if x[j] > 0 else 0) * (1 - x[j] / Fr(n[j]))) for j in range(len(n))]


def sf_Y1(n):
    return lambda x: [safe(lambda j=j: x[j] * (n[j] - x[j]) * (n[j] - x[j] - 1) / Fr(n[j] * (n[j] - 1) * (n[j] - 2)))
                      for j in range(len(n))]


def sf_divergence(n, idx):
    def one(x, i, j):
        if i == j:      # "unless the two indices are the same, when the diversity function is used"
            return x[i] * (n[i] - x[i]) / Fr(n[i] * (n[i] - 1))
        return x[i] * (n[j] - x[j]) / Fr(n[i] * n[j])
    return lambda x: [safe(lambda i=i, j=j: one(x, i, j)) for i, j in idx]


def sf_Y2(n, idx):
    return lambda x: [safe(lambda i=i, j=j: x[i] * (n[j] - x[j]) * (n[j] - x[j] - 1) / Fr(n[i] * n[j] * (n[j] - 1)))
                      for i, j in idx]


def sf_f2(n, idx):
    def one(x, i, j):
        den = Fr(n[i] * (n[i] - 1) * n[j] * (n[j] - 1))
        return (x[i] * (x[i] - 1) * (n[j] - x[j]) * (n[j] - x[j] - 1)) / den \
            - (x[i] * (n[i] - x[i]) * (n[j] - x[j]) * x[j]) / den
    return lambda x: [safe(lambda i=i, j=j: one(x, i, j)) for i, j in idx]


def sf_Y3(n, idx):
    return lambda x: [safe(lambda i=i, j=j, k=k: x[i] * (n[j] - x[j]) * (n[k] - x[k]) / Fr(n[i] * n[j] * n[k]))
                      for i, j, k in idx]


def sf_f3(n, idx):
    def one(x, i, j, k):
        den = Fr(n[i] * (n[i] - 1) * n[j] * n[k])
        return (x[i] * (x[i] - 1) * (n[j] - x[j]) * (n[k] - x[k])) / den \
            - (x[i] * (n[i] - x[i]) * (n[j] - x[j]) * x[k]) / den
    return lambda x: [safe(lambda i=i, j=j, k=k: one(x, i, j, k)) for i, j, k in idx]


def sf_f4(n, idx):
    def one(x, i, j, k, l):
        den = Fr(n[i] * n[j] * n[k] * n[l])
        return (x[i] * x[k] * (n[j] - x[j]) * (n[l] - x[l])) / den \
            - (x[i] * x[l] * (n[j] - x[j]) * (n[k] - x[k])) / den
    return lambda x: [safe(lambda t=t: one(x, *t)) for t in idx]


def sf_relatedness(n, idx, centre):
    def fn(x):
        p = [x[k] / Fr(n[k]) for k in range(len(n))]
        mbar = sum(p) / len(n) if centre else 0
        return [(p[i] - mbar) * (p[j] - mbar) for i, j in idx]
    return fn


ONE_WAY = {"diversity": sf_diversity, "segregating_sites": sf_segsites, "Y1": sf_Y1}
K_WAY = {"divergence": (2, sf_divergence), "Y2": (2, sf_Y2), "f2": (2, sf_f2),
         "Y3": (3, sf_Y3), "f3": (3, sf_f3), "f4": (4, sf_f4)}


# ---- summary functions offered to general_stat / sample_count_stat (polynomials: exact) ----

def gs_funcs(name, total):
    """name -> (f over generic numbers, output_dim, strict)."""
    k = len(total)
    if name == "ident":
        return (lambda x: [x[j] for j in range(k)]), k, False
    if name == "sum":
        return (lambda x: [sum(x[j] for j in range(k))]), 1, False
    if name == "x(T-x)":
        return (lambda x: [x[0] * (total[0] - x[0])]), 1, True
    if name == "poly2":
        return (lambda x: [x[0] * x[k - 1], x[0] * x[0] * (total[0] - x[0]) + 1]), 2, False
    if name == "cube":
        return (lambda x: [x[0] * x[0] * (total[0] - x[0])]), 1, True
    raise KeyError(name)


GS_NAMES = ["ident", "sum", "x(T-x)", "poly2", "cube"]

# how the custom summary function hands its values back to the C trampoline
# (python/_tskitmodule.c general_stat_func): the statistic must not depend on the memory
# layout of the returned object
GS_RETURNS = ["fresh", "fresh", "list", "colview", "strided", "reversed", "fortran_row",
              "readonly", "float32", "diag"]


def gs_return(vals, how):
    """the same numbers in a different container / memory layout; the cells around the
    view hold large garbage so that reading adjacent memory is visible"""
    import numpy as np
    m = len(vals)
    if how == "list":
        return [float(v) for v in vals]
    if how == "colview":
        work = np.full((m, 3), -7.25e5)
        work[:, 0] = vals
        return work[:, 0]
    if how == "strided":
        buf = np.full(2 * m + 1, 9.5e5)
        buf[::2][:m] = vals
        return buf[::2][:m]
    if how == "reversed":
        buf = np.full(m + 2, -3.5e5)
        buf[1:m + 1] = list(vals)[::-1]
        return buf[1:m + 1][::-1]
    if how == "fortran_row":
        M = np.asfortranarray(np.full((3, m), 6.25e5))
        M[1, :] = vals
        return M[1, :]
    if how == "diag":
        D = np.full((m, m), 4.75e5)
        for i_, v in enumerate(vals):
            D[i_, i_] = v
        return np.diagonal(D)
    a = np.array(vals, dtype=float)
    if how == "readonly":
        a.setflags(write=False)
        return a
    if how == "float32":
        return a.astype(np.float32)
    return a


# ---------------------------------------------------------------------------------
# float <-> exact comparison
# ---------------------------------------------------------------------------------

def encf(x):
    """numpy output -> JSON-able nested lists; non-finite floats as strings."""
    import numpy as np
    a = np.asarray(x, dtype=float)

    def one(v):
        if math.isnan(v):
            return "nan"
        if math.isinf(v):
            return "inf" if v > 0 else "-inf"
        return float(v)

    def rec(y):
        if isinstance(y, list):
            return [rec(z) for z in y]
        return one(y)
    return rec(a.tolist())


def num(v):
    return float(v) if not isinstance(v, str) else float(v)


def close(obs, exact):
    """obs: float or 'nan'/'inf' string; exact: Fraction | float | UNDEF.  Where the
    definition divides by zero the documentation promises nothing ("usually nan", 0 for
    untouched windows, subject to change): any value is accepted there."""
    if exact is UNDEF:
        return True
    if isinstance(obs, str):
        return False
    e = float(exact)
    return abs(obs - e) <= TOL * max(1.0, abs(e))


def compare(obs, exact, path=""):
    """Recursive comparison of nested lists (shape included). Returns list of messages."""
    if isinstance(exact, list):
        if not isinstance(obs, list) or len(obs) != len(exact):
            return ["%s: shape differs: got %r expected list of %d" % (path, obs if not isinstance(obs, list) else len(obs), len(exact))]
        out = []
        for i, (o, e) in enumerate(zip(obs, exact)):
            out += compare(o, e, path + "[%d]" % i)
            if len(out) > 3:
                break
        return out
    if isinstance(obs, list):
        return ["%s: shape differs: got a list, expected a scalar" % path]
    if not close(obs, exact):
        return ["%s: got %r, exact value %s" % (path, obs, "undefined" if exact is UNDEF else "%s (~%.12g)" % (exact, float(exact)))]
    return []


def combine_fine(fine, fine_w, coarse_w, span_normalise):
    """Span-weighted combination of the finer rows into the coarser windows (floats)."""
    out = []
    for a, b in zip(coarse_w[:-1], coarse_w[1:]):
        rows = [(fine_w[i + 1] - fine_w[i], fine[i]) for i in range(len(fine_w) - 1)
                if a <= fine_w[i] and fine_w[i + 1] <= b]

        def comb(items):
            first = items[0][1]
            if isinstance(first, list):
                return [comb([(s, r[j]) for s, r in items]) for j in range(len(first))]
            if any(isinstance(r, str) for _, r in items):
                return "nan"
            if span_normalise:
                return sum(float(s) * r for s, r in items) / float(b - a)
            return sum(r for _, r in items)
        out.append(comb(rows))
    return out


def compare_float(a, b, path=""):
    if isinstance(a, list) or isinstance(b, list):
        if not (isinstance(a, list) and isinstance(b, list) and len(a) == len(b)):
            return ["%s: shapes differ" % path]
        out = []
        for i, (x, y) in enumerate(zip(a, b)):
            out += compare_float(x, y, path + "[%d]" % i)
            if len(out) > 3:
                break
        return out
    if isinstance(a, str) or isinstance(b, str):
        return []        # undefined (nan/inf) entries are not additive
    if abs(a - b) > TOL * max(1.0, abs(a), abs(b)):
        return ["%s: %r vs %r" % (path, a, b)]
    return []


def build_ts(desc):
    return gen_ts.build_tables(desc).tree_sequence()


# ---- Coq term printing (Q_scope) -------------------------------------------------

PRELUDE = ("From Coq Require Import QArith.\nFrom TskVerif Require Import Base.Common C08.Model C08.Incremental C08.Afs C08.Shapes C08.PairSpan C08.Rf C08.RelVec C08.Kc.\n"
           "Open Scope Q_scope.")


def cq(q):
    q = Fr(q)
    return "(%d # %d)" % (q.numerator, q.denominator) if q >= 0 else "((%d) # %d)" % (q.numerator, q.denominator)


def cqlist(xs):
    return "[" + "; ".join(cq(x) for x in xs) + "]"


def czl(xs):
    return "[" + "; ".join(("(%d)%%Z" % x) if x < 0 else ("%d%%Z" % x) for x in xs) + "]"


def coq_segs(desc):
    bps = gen_ts.breakpoints(desc)
    return "[" + "; ".join("mkseg %s %s %s" % (cq(a), cq(b), czl(gen_ts.parent_at(desc, a)))
                           for a, b in zip(bps[:-1], bps[1:])) + "]"


def coq_W(W):
    return "[" + "; ".join("(%d%%Z, %s)" % (s, cqlist(W[s])) for s in sorted(W)) + "]"


def coq_sites(desc):
    out = []
    for si, (pos, anc, _m) in enumerate(desc["sites"]):
        ids = {anc: 0}
        muts = []
        local = {}       # global mutation index -> index within the site's list
        for gi, m in enumerate(desc["mutations"]):
            if m[0] == si:
                ids.setdefault(m[2], len(ids))
                local[gi] = len(muts)
                par = local[m[3]] if m[3] != NULL else -1
                muts.append("mkmut %d%%Z %d%%Z %s" % (m[1], ids[m[2]], "(-1)%Z" if par < 0 else "%d%%Z" % par))
        out.append("mksite %s 0%%Z [%s] %s" % (cq(fr(pos)), "; ".join(muts), czl(gen_ts.parent_at(desc, fr(pos)))))
    return "[" + "; ".join(out) + "]"


def coq_times(desc):
    return cqlist([Fr(nd[1]) for nd in desc["nodes"]])


def rat(x):
    """the small-denominator rational the float agrees with (within TOL), else the float's
    exact binary value (so that the Coq comparison fails)"""
    r = Fr(x).limit_denominator(10 ** 6)
    if abs(float(r) - x) <= TOL * max(1.0, abs(x)):
        return r
    return Fr(x)


def coq_stat_expr(desc, W, k, sf, mode, polarised):
    """Coq term of type Q -> Q -> Q: the specification statistic (site / branch mode)"""
    pol = "true" if polarised else "false"
    if mode == "site":
        return "(site_stat %d%%nat (sf_eval %s) %s %s %s)" % (k, sf, coq_W(W), pol, coq_sites(desc))
    return "(branch_stat %d%%nat (sf_eval %s) %s %s %s %s)" % (k, sf, coq_W(W), coq_times(desc), pol, coq_segs(desc))


def table_index(ts):
    """the sorted edge table and the index arrays the C sweep walks (integer coordinates)"""
    t = ts.tables
    return {"edges": [[int(e.left), int(e.right), int(e.parent), int(e.child)] for e in t.edges],
            "ins": [int(x) for x in t.indexes.edge_insertion_order],
            "rem": [int(x) for x in t.indexes.edge_removal_order]}


def coq_stat_check(desc, W, k, sf, mode, polarised, span_normalise, wins, values, tab=None):
    """Coq bool: the specification (C08.Model) evaluated on this tree sequence equals the
    rationals the implementation's floats stand for.  values: flat list (window-major;
    node-minor in node mode) of floats."""
    if any(isinstance(v, str) for v in values):
        return None
    exp = cqlist([rat(v) for v in values])
    pol, nrm = ("true" if polarised else "false"), ("true" if span_normalise else "false")
    ws = cqlist(wins)
    if mode == "site":
        # the specification (alleles decoded per sample) and the port of the C allele table
        return ("check_windows (site_stat %d%%nat (sf_eval %s) %s %s %s) %s %s %s && "
                "check_windows (site_stat_c %d%%nat (sf_eval %s) %s %s %s) %s %s %s") % (
            k, sf, coq_W(W), pol, coq_sites(desc), nrm, ws, exp,
            k, sf, coq_W(W), pol, coq_sites(desc), nrm, ws, exp)
    if mode == "branch":
        t = "check_windows (branch_stat %d%%nat (sf_eval %s) %s %s %s %s) %s %s %s" % (
            k, sf, coq_W(W), coq_times(desc), pol, coq_segs(desc), nrm, ws, exp)
        if tab is not None:
            # the Gallina port of the C running-sum sweep on the same tables / indexes
            t += (" && check_incremental (branch_incremental %d%%nat (polar %d%%nat (sf_eval %s) %s %s) %s %s %s %s) %s %s %s" % (
                k, k, sf, coq_W(W), pol, coq_times(desc), coq_W(W), coq_edges(tab, desc["L"]), ws, nrm, ws, exp))
            # hypotheses of theorem branch_incremental_equals_branch_stat, evaluated on this run:
            # visited trees tile [0,L) and are the table's marginal forests, every edge
            # operation of the sweep is valid, the weight table is well-formed
            Fq = "(polar %d%%nat (sf_eval %s) %s %s)" % (k, sf, coq_W(W), pol)
            tr = "(branch_trace %d%%nat %s %s %s %s)" % (k, Fq, coq_times(desc), coq_W(W), coq_edges(tab, desc["L"]))
            nn = len(desc["nodes"])
            t += " && trace_tiles_b %s 0 %s && trace_segs_b %s %s" % (tr, cq(desc["L"]), tr, coq_segs(desc))
            t += " && wok_b %d%%nat %d%%nat %s" % (k, nn, coq_W(W))
            t += (" && sweep_ok %s %s %d%%nat %d%%nat %s 0%%Z 0%%Z 0 (init_state %d%%nat %s %d%%nat %s)" % (
                Fq, coq_times(desc), nn, 2 * len(tab["edges"]) + 2, coq_edges(tab, desc["L"]), k, Fq, nn, coq_W(W)))
        return t
    return "check_windows_nodes (fun u => node_stat %d%%nat (sf_eval %s) %s %s %s u) %d%%nat %s %s %s" % (
        k, sf, coq_W(W), pol, coq_segs(desc), len(desc["nodes"]), nrm, ws, exp)


def coq_edges(tab, L):
    rows = "[" + "; ".join("mkedge %s %s %d%%Z %d%%Z" % (cq(e[0]), cq(e[1]), e[2], e[3]) for e in tab["edges"]) + "]"
    return "%s %s %s %s" % (rows, czl(tab["ins"]), czl(tab["rem"]), cq(L))


def random_sample_sets(rng, desc, kmin=1, kmax=4, disjoint=False):
    smp = samples_of(desc)
    k = rng.randrange(kmin, kmax + 1)
    sets = []
    pool = list(smp)
    for _ in range(k):
        if disjoint:
            if not pool:
                break
            sz = rng.randrange(1, max(1, len(pool) // 2) + 1)
            A = rng.sample(pool, sz)
            pool = [s for s in pool if s not in A]
        else:
            sz = rng.randrange(1, len(smp) + 1)
            if rng.random() < 0.6:
                sz = max(sz, min(len(smp), 2))
            A = rng.sample(smp, sz)
        sets.append(sorted(A) if rng.random() < 0.7 else A)
    return sets


def with_refinement(rng, case, desc):
    wins = resolve_windows(desc, case["windows"])
    case["wins"] = [enc(w) for w in wins]
    fine = refine(rng, wins, desc["L"])
    case["fine"] = [enc(w) for w in fine]
    return case


# ---------------------------------------------------------------------------------
# Family 1: general_stat / sample_count_stat with polynomial summary functions
# ---------------------------------------------------------------------------------

class GeneralStat(Family):
    """TreeSequence.general_stat and sample_count_stat against the definition, all three
    modes x polarised x span_normalise x windows, plus additivity over a refinement."""
    name = "general_stat"
    workers = 8
    timeout = 60.0

    def generate(self, rng, tier):
        n = 500 if tier == "quick" else 5000
        for i in range(n):
            desc = gen_desc(rng, max_nodes=8 if i % 4 else 11, max_L=6 if i % 4 else 9)
            smp = samples_of(desc)
            api = rng.choice(["general_stat", "sample_count_stat"])
            if api == "general_stat":
                k = rng.randrange(1, 4)
                den = rng.choice([1, 1, 2, 4])
                W = [[enc(Fr(rng.randrange(-4, 9), den)) for _ in range(k)] for _ in smp]
                sets = None
            else:
                sets = random_sample_sets(rng, desc, 1, 3)
                W = None
            case = {"desc": desc, "api": api, "W": W, "sample_sets": sets,
                    "f": rng.choice(GS_NAMES), "ret": rng.choice(GS_RETURNS),
                    "mode": rng.choice(["site", "branch", "node"]),
                    "polarised": rng.random() < 0.5, "span_normalise": rng.random() < 0.6,
                    "windows": random_windows(rng, desc)}
            yield with_refinement(rng, case, desc)

    @staticmethod
    def weights(case):
        desc = case["desc"]
        smp = samples_of(desc)
        if case["api"] == "general_stat":
            return {s: [fr(x) for x in row] for s, row in zip(smp, case["W"])}
        return indicator_W(desc, case["sample_sets"])

    def observe(self, case):
        import numpy as np
        desc = case["desc"]
        ts = build_ts(desc)
        W = self.weights(case)
        k = len(next(iter(W.values())))
        total = [float(sum(W[s][j] for s in W)) for j in range(k)]
        f, m, strict = gs_funcs(case["f"], total)

        how = case.get("ret", "fresh")
        if how == "float32" and case["f"] not in ("ident", "sum"):
            how = "fresh"       # keep the values exactly representable

        def npf(x):
            return gs_return(f(x), how)
        kw = dict(polarised=case["polarised"], mode=case["mode"],
                  span_normalise=case["span_normalise"], strict=strict)

        def run(windows):
            if case["api"] == "general_stat":
                Wm = np.array([[float(v) for v in W[s]] for s in samples_of(desc)], dtype=float)
                return ts.general_stat(Wm, npf, m, windows=conv_win(windows, form_of(case, "w", WIN_FORMS)), **kw)
            return ts.sample_count_stat(conv_sets(case["sample_sets"], form_of(case, "s", SET_FORMS)), npf, m,
                                        windows=conv_win(windows, form_of(case, "w", WIN_FORMS)), **kw)
        try:
            out = encf(run(win_arg(case["windows"])))
            fine = encf(run([float(fr(x)) for x in case["fine"]]))
        except Exception as e:
            return {"err": type(e).__name__, "msg": str(e)[:200]}
        r = {"out": out, "fine": fine}
        if case["mode"] == "branch":
            r["tab"] = table_index(ts)
        return r

    def oracle(self, case, obs):
        if "err" in obs:
            return [("unexpected-error", "%s: %s" % (obs["err"], obs["msg"]))]
        desc = case["desc"]
        W = self.weights(case)
        k = len(next(iter(W.values())))
        total = [sum(W[s][j] for s in W) for j in range(k)]
        f, m, _ = gs_funcs(case["f"], total)
        wins = [fr(x) for x in case["wins"]]
        exact = general_exact(desc, W, f, m, wins, case["mode"], case["polarised"], case["span_normalise"])
        if case["windows"] in (None, "none"):
            exact = exact[0]
        fails = []
        msgs = compare(obs["out"], exact)
        if msgs:
            fails.append(("definition/%s/%s" % (case["api"], case["mode"]), "; ".join(msgs[:3])))
        fine_w = [fr(x) for x in case["fine"]]
        coarse = obs["out"] if case["windows"] not in (None, "none") else [obs["out"]]
        comb = combine_fine(obs["fine"], fine_w, wins, case["span_normalise"])
        msgs = compare_float(coarse, comb)
        if msgs:
            fails.append(("additivity/%s/%s" % (case["api"], case["mode"]), "; ".join(msgs[:3])))
        return fails

    prelude = PRELUDE

    def coq_check(self, case, obs):
        if "err" in obs:
            return None
        W = self.weights(case)
        k = len(next(iter(W.values())))
        T0 = sum(W[s_][0] for s_ in W)
        sf = {"ident": "(SF_ident 0)", "sum": "SF_sum", "x(T-x)": "(SF_xTx %s)" % cq(T0),
              "poly2": "(SF_poly2 %d)" % (k - 1), "cube": "(SF_cube %s)" % cq(T0)}[case["f"]]
        out = obs["out"] if case["windows"] not in (None, "none") else [obs["out"]]
        if case["mode"] == "node":
            vals = [node[0] for win in out for node in win]
        else:
            vals = [win[0] for win in out]
        return coq_stat_check(case["desc"], W, k, sf, case["mode"], case["polarised"],
                              case["span_normalise"], [fr(x) for x in case["wins"]], vals, obs.get("tab"))

    def nontrivial(self, case, obs):
        return "out" in obs and len(case["desc"]["edges"]) > 0

    def describe(self, case, obs):
        w = case["windows"]
        return {"mode": case["mode"], "api": case["api"], "f": case["f"], "ret": case.get("ret", "fresh"),
                "windows": w if isinstance(w, str) else "list%d" % (len(w) - 1),
                "polarised": case["polarised"], "span_normalise": case["span_normalise"]}

    def shrink(self, case):
        d = case["desc"]
        for key in ("mutations", "sites", "edges"):
            if key == "sites" and d["mutations"]:
                continue
            for i in range(len(d[key])):
                dd = dict(d)
                dd[key] = d[key][:i] + d[key][i + 1:]
                if key == "mutations":
                    dd[key] = [[m[0], m[1], m[2], (m[3] - (1 if m[3] > i else 0)) if m[3] != i else NULL, m[4], m[5]]
                               for m in dd[key]]
                c = dict(case)
                c["desc"] = dd
                try:
                    wins = resolve_windows(dd, c["windows"])
                    c["wins"] = [enc(w) for w in wins]
                    c["fine"] = [enc(w) for w in sorted(set(wins) | {fr(x) for x in case["fine"]})]
                except Exception:
                    continue
                yield c



# ---------------------------------------------------------------------------------
# Family 2: the named statistics built on the general framework
# ---------------------------------------------------------------------------------

def drop_last(x, depth):
    """[..[v]..] -> [..v..] at nesting depth `depth` (dimension dropping rule 2/3)."""
    if depth == 0:
        assert len(x) == 1
        return x[0]
    return [drop_last(y, depth - 1) for y in x]


def zipmap(fn, *xs):
    """apply fn leaf-wise to equally shaped nested lists"""
    if isinstance(xs[0], list):
        return [zipmap(fn, *ys) for ys in zip(*xs)]
    return fn(*xs)


def all_indexes(rng, nsets, k):
    n = rng.randrange(1, 4)
    return [[rng.randrange(nsets) for _ in range(k)] for _ in range(n)]


PRIMARY = ["diversity", "segregating_sites", "Y1", "divergence", "Y2", "f2", "Y3", "f3", "f4",
           "genetic_relatedness", "genetic_relatedness_weighted",
           "trait_covariance", "trait_correlation", "trait_linear_model", "genetic_relatedness_vector"]
DERIVED = ["Fst", "Tajimas_D", "genetic_relatedness_proportion"]


def named_exact(desc, case, wins, span_normalise=None):
    """Exact value of a named statistic per window: list over windows of
    (list over outputs | list over nodes of list over outputs)."""
    st, mode = case["stat"], case["mode"]
    sn = case.get("span_normalise", True) if span_normalise is None else span_normalise
    smp = samples_of(desc)
    F_ = Forests(desc)

    def gen(W, f, m, polarised, sn_=sn):
        return general_exact(desc, W, f, m, wins, mode, polarised, sn_, forests=F_)

    if st in ONE_WAY:
        sets = case["sets"]
        n = [len(A) for A in sets]
        return gen(indicator_W(desc, sets), ONE_WAY[st](n), len(sets), False)
    if st in K_WAY:
        sets, idx = case["sets"], [tuple(t) for t in case["indexes"]]
        n = [len(A) for A in sets]
        return gen(indicator_W(desc, sets), K_WAY[st][1](n, idx), len(idx), False)
    if st in ("genetic_relatedness", "genetic_relatedness_proportion"):
        sets, idx = case["sets"], [tuple(t) for t in case["indexes"]]
        n = [len(A) for A in sets]
        out = gen(indicator_W(desc, sets), sf_relatedness(n, idx, case["centre"]), len(idx), case["polarised"])
        if st == "genetic_relatedness_proportion":
            alls = sorted({u for A in sets for u in A})
            den = gen(indicator_W(desc, [alls]), sf_segsites([len(alls)]), 1, False)
            # denominator has one column; broadcast over the index columns
            def div(o, d):
                if isinstance(o[0], list):      # node mode: per node
                    return [div(oo, dd) for oo, dd in zip(o, d)]
                return [UNDEF if (v is UNDEF or d[0] is UNDEF or d[0] == 0) else v / d[0] for v in o]
            out = [div(o, d) for o, d in zip(out, den)]
        return out
    if st == "genetic_relatedness_weighted":
        Wm = [[fr(x) for x in row] for row in case["W"]]
        idx = [tuple(t) for t in case["indexes"]]
        ns = len(smp)
        kcols = len(Wm[0])
        colsum = [sum(r[j] for r in Wm) for j in range(kcols)]
        W = {s: Wm[i] + [Fr(1, ns)] for i, s in enumerate(smp)}   # last column: proportion of samples
        if case["centre"]:
            f = lambda x: [(x[i] - colsum[i] * x[-1]) * (x[j] - colsum[j] * x[-1]) for i, j in idx]
        else:
            f = lambda x: [x[i] * x[j] for i, j in idx]
        return gen(W, f, len(idx), case["polarised"])
    if st == "genetic_relatedness_vector":
        # out[w][i][j] = sum_b W[b][j] * C_ib, C = genetic_relatedness between the samples
        # (polarised, proportion=False, centred or not), docstring of the method
        Wm = [[fr(x) for x in row] for row in case["W"]]
        ns, kc = len(smp), len(Wm[0])
        c2 = {"stat": "genetic_relatedness", "mode": mode, "sets": [[s_] for s_ in smp],
              "indexes": [(i, j) for i in range(ns) for j in range(ns)], "centre": case["centre"],
              "polarised": True, "span_normalise": sn}
        C = named_exact(desc, c2, wins, span_normalise=sn)
        return [[[sum((Wm[b][j] * Cw[i * ns + b] for b in range(ns)), Fr(0)) for j in range(kc)]
                 for i in range(ns)] for Cw in C]
    if st == "trait_covariance":
        Wm = [[fr(x) for x in row] for row in case["W"]]
        ns, kc = len(smp), len(Wm[0])
        mean = [sum(r[j] for r in Wm) / ns for j in range(kc)]
        W = {s: [Wm[i][j] - mean[j] for j in range(kc)] for i, s in enumerate(smp)}
        f = lambda x: [safe(lambda j=j: x[j] * x[j] / (2 * Fr(ns - 1) ** 2)) for j in range(kc)]
        return gen(W, f, kc, False)
    if st == "trait_correlation":
        Wm = [[fr(x) for x in row] for row in case["W"]]
        ns, kc = len(smp), len(Wm[0])
        mean = [sum(r[j] for r in Wm) / ns for j in range(kc)]
        var = [sum((r[j] - mean[j]) ** 2 for r in Wm) / Fr(ns - 1) for j in range(kc)]
        # state: (sum of centred weights, number of samples below); the weights are divided
        # by the standard deviation, which only enters squared
        W = {s: [Wm[i][j] - mean[j] for j in range(kc)] + [Fr(1)] for i, s in enumerate(smp)}

        def f(x):
            cnt = x[-1]
            if not (0 < cnt < ns):
                return [Fr(0)] * kc
            return [x[j] * x[j] / var[j] / (2 * cnt * (1 - cnt / Fr(ns)) * (ns - 1)) for j in range(kc)]
        return gen(W, f, kc, False)
    if st == "trait_linear_model":
        # Z=None: w ~ b0 + b1 g ; b1 = cov(g,w)/var(g); statistic adds b1^2/2 per allele
        Wm = [[fr(x) for x in row] for row in case["W"]]
        ns, kc = len(smp), len(Wm[0])
        tot = [sum(r[j] for r in Wm) for j in range(kc)]
        W = {s: Wm[i] + [Fr(1)] for i, s in enumerate(smp)}

        def f(x):
            cnt = x[-1]
            if not (0 < cnt < ns):
                return [Fr(0)] * kc
            vg = cnt - cnt * cnt / Fr(ns)            # sum (g - gbar)^2
            return [((x[j] - cnt * tot[j] / Fr(ns)) / vg) ** 2 / 2 for j in range(kc)]
        return gen(W, f, kc, False)
    if st == "Fst":
        sets, idx = case["sets"], [tuple(t) for t in case["indexes"]]
        n = [len(A) for A in sets]
        Wi = indicator_W(desc, sets)
        div = gen(Wi, sf_divergence(n, idx), len(idx), False)
        dv = gen(Wi, sf_diversity(n), len(sets), False)

        def one(dxy_row, d_row):
            if isinstance(dxy_row[0], list):
                return [one(a, b) for a, b in zip(dxy_row, d_row)]
            out = []
            for kk, (u, v) in enumerate(idx):
                a, b, c = d_row[u], d_row[v], dxy_row[kk]
                if a is UNDEF or b is UNDEF or c is UNDEF or a + b + 2 * c == 0:
                    out.append(UNDEF)
                else:
                    out.append(1 - 2 * (a + b) / (a + b + 2 * c))
            return out
        return [one(a, b) for a, b in zip(div, dv)]
    if st == "Tajimas_D":
        sets = case["sets"]
        n = [len(A) for A in sets]
        Wi = indicator_W(desc, sets)
        T = gen(Wi, sf_diversity(n), len(sets), False, False)
        S = gen(Wi, sf_segsites(n), len(sets), False, False)

        def one(Trow, Srow):
            if isinstance(Trow[0], list):
                return [one(a, b) for a, b in zip(Trow, Srow)]
            out = []
            for j, nn in enumerate(n):
                t, s_ = Trow[j], Srow[j]
                if t is UNDEF or s_ is UNDEF or nn < 2:
                    out.append(UNDEF)
                    continue
                h = sum(Fr(1, i) for i in range(1, nn))
                g = sum(Fr(1, i * i) for i in range(1, nn))
                a = Fr(nn + 1) / (3 * (nn - 1) * h) - 1 / h ** 2
                b = Fr(2 * (nn * nn + nn + 3), 9 * nn * (nn - 1)) - Fr(nn + 2) / (h * nn) + g / h ** 2
                den2 = a * s_ + (b / (h * h + g)) * s_ * (s_ - 1)
                if den2 <= 0:
                    out.append(UNDEF)
                else:
                    out.append((float(t - s_ / h)) / math.sqrt(float(den2)))
            return out
        return [one(a, b) for a, b in zip(T, S)]
    raise KeyError(st)


class NamedStat(Family):
    """diversity, divergence, segregating_sites, Y1-3, f2-4, genetic_relatedness(+weighted,
    +proportion), trait_*, Fst, Tajimas_D through the public Python methods (including the
    dimension-dropping rules) against the documented summary functions."""
    name = "named_stat"
    workers = 8
    timeout = 60.0

    def generate(self, rng, tier):
        n = 800 if tier == "quick" else 8000
        stats = PRIMARY + DERIVED
        for i in range(n):
            if i % 40 == 39:
                # capacity boundary: 31..65 samples, as many singleton sample sets (class 11)
                desc = big_leaf_desc(rng)
                smp = samples_of(desc)
                st = rng.choice(["divergence", "f2", "Y3", "segregating_sites"])
                kk = K_WAY[st][0] if st in K_WAY else 1
                case = {"desc": desc, "stat": st, "mode": rng.choice(["site", "branch"]),
                        "span_normalise": rng.random() < 0.5, "windows": random_windows(rng, desc),
                        "drop": None, "argform": random_argform(rng), "big": True}
                if st == "f2":       # needs sets of size >= 2: 32/33-sample halves plus singletons
                    half = len(smp) // 2
                    case["sets"] = [smp[:half], smp[half:]] + [[u] for u in smp[:3]]
                    case["indexes"] = [[0, 1], [1, 0]]
                else:
                    case["sets"] = [[u] for u in smp]
                    if kk > 1:
                        ns_ = len(smp)
                        case["indexes"] = [[rng.randrange(ns_) for _ in range(kk)] for _ in range(3)] + [[0] + [ns_ - 1] * (kk - 1)]
                yield with_refinement(rng, case, desc)
                continue
            desc = gen_desc(rng, max_nodes=8 if i % 5 else 11, max_L=6 if i % 5 else 9)
            smp = samples_of(desc)
            st = stats[i % len(stats)] if i < 4 * len(stats) else rng.choice(stats)
            case = {"desc": desc, "stat": st, "mode": rng.choice(["site", "branch", "node"]),
                    "span_normalise": rng.random() < 0.6, "windows": random_windows(rng, desc),
                    "drop": None, "argform": random_argform(rng)}
            if st in ONE_WAY or st == "Tajimas_D":
                r = rng.random()
                if r < 0.15:
                    case["sets"], case["drop"] = [list(smp)], "none"      # sample_sets=None
                elif r < 0.3:
                    case["sets"], case["drop"] = random_sample_sets(rng, desc, 1, 1), "flat"
                else:
                    case["sets"] = random_sample_sets(rng, desc, 1, 3)
            elif st in K_WAY or st in ("Fst", "genetic_relatedness", "genetic_relatedness_proportion"):
                k = K_WAY[st][0] if st in K_WAY else 2
                r = rng.random()
                if r < 0.15:
                    case["sets"] = random_sample_sets(rng, desc, k, k, disjoint=rng.random() < 0.5)
                    while len(case["sets"]) < k:
                        case["sets"].append(rng.sample(smp, rng.randrange(1, len(smp) + 1)))
                    case["indexes"], case["drop"] = [list(range(k))], "none"      # indexes=None
                else:
                    # the C layer demands at least k sample sets (check_sample_stat_inputs,
                    # TSK_ERR_INSUFFICIENT_SAMPLE_SETS) even when the tuples repeat an index
                    case["sets"] = random_sample_sets(rng, desc, k, max(k, 4), disjoint=rng.random() < 0.3)
                    while len(case["sets"]) < k:
                        case["sets"].append(rng.sample(smp, rng.randrange(1, len(smp) + 1)))
                    case["indexes"] = all_indexes(rng, len(case["sets"]), k)
                    if r < 0.3:
                        case["indexes"], case["drop"] = case["indexes"][:1], "flat"
                if st.startswith("genetic_relatedness"):
                    case["centre"] = rng.random() < 0.6
                    case["polarised"] = rng.random() < 0.6
            else:
                kc = rng.randrange(1, 3)
                den = rng.choice([1, 1, 2])
                while True:
                    W = [[Fr(rng.randrange(-3, 7), den) for _ in range(kc)] for _ in smp]
                    if st != "trait_correlation" or all(len({r[j] for r in W}) > 1 for j in range(kc)):
                        break
                case["W"] = [[enc(x) for x in r] for r in W]
                if st == "genetic_relatedness_vector":
                    case["mode"] = "branch"       # the only mode the C code supports here
                    case["centre"] = rng.random() < 0.5
                if st == "genetic_relatedness_weighted":
                    r = rng.random()
                    if r < 0.15:
                        case["W"] = [[enc(Fr(rng.randrange(-3, 7), den)) for _ in range(2)] for _ in smp]
                        case["indexes"], case["drop"] = [[0, 1]], "none"
                    elif r < 0.3:
                        case["indexes"], case["drop"] = all_indexes(rng, kc, 2)[:1], "flat"
                    else:
                        case["indexes"] = all_indexes(rng, kc, 2)
                    case["centre"] = rng.random() < 0.6
                    case["polarised"] = rng.random() < 0.5
            yield with_refinement(rng, case, desc)

    def call(self, ts, case, windows):
        import numpy as np
        st, mode, sn = case["stat"], case["mode"], case["span_normalise"]
        drop = case["drop"]
        af = case.get("argform") or {"sets": "list", "idx": "list", "win": "list"}
        kw = dict(windows=conv_win(windows, af["win"]), mode=mode)
        if st != "Tajimas_D":
            kw["span_normalise"] = sn
        if st in ONE_WAY or st == "Tajimas_D":
            sets = None if drop == "none" else (case["sets"][0] if drop == "flat" else case["sets"])
            return getattr(ts, st)(conv_sets(sets, af["sets"]), **kw)
        if st in K_WAY or st in ("Fst", "genetic_relatedness", "genetic_relatedness_proportion"):
            idx = None if drop == "none" else (tuple(case["indexes"][0]) if drop == "flat" else [tuple(t) for t in case["indexes"]])
            idx = conv_idx(idx, af["idx"])
            if st.startswith("genetic_relatedness"):
                return ts.genetic_relatedness(conv_sets(case["sets"], af["sets"]), indexes=idx, polarised=case["polarised"],
                                              centre=case["centre"],
                                              proportion=(st == "genetic_relatedness_proportion"), **kw)
            return getattr(ts, st)(conv_sets(case["sets"], af["sets"]), indexes=idx, **kw)
        W = np.array([[float(fr(x)) for x in r] for r in case["W"]], dtype=float)
        if st == "genetic_relatedness_vector":
            return ts.genetic_relatedness_vector(W, centre=case["centre"], **kw)
        if st == "genetic_relatedness_weighted":
            idx = None if drop == "none" else (tuple(case["indexes"][0]) if drop == "flat" else [tuple(t) for t in case["indexes"]])
            return ts.genetic_relatedness_weighted(W, indexes=idx, polarised=case["polarised"],
                                                   centre=case["centre"], **kw)
        return getattr(ts, st)(W, **kw)

    def observe(self, case):
        ts = build_ts(case["desc"])
        try:
            out = encf(self.call(ts, case, win_arg(case["windows"])))
            fine = encf(self.call(ts, case, [float(fr(x)) for x in case["fine"]]))
        except Exception as e:
            return {"err": type(e).__name__, "msg": str(e)[:200]}
        r = {"out": out, "fine": fine}
        if case["mode"] == "branch":
            r["tab"] = table_index(ts)
        return r

    prelude = PRELUDE

    def coq_check(self, case, obs):
        """first output column of the sample-count statistics against the Coq specification
        (and, in branch mode, the Gallina port of the C sweep)"""
        st = case["stat"]
        if case.get("big"):
            return None          # 65-column weight tables: oracle only (term size)
        if st == "genetic_relatedness_vector" and "err" not in obs and not case["centre"]:
            # model of the code: the span_normalise flag is ignored (finding C08-F5)
            desc = case["desc"]
            smp = samples_of(desc)
            out = obs["out"] if case["windows"] not in (None, "none") else [obs["out"]]
            if any(isinstance(v, str) for v in flatten(out)):
                return None
            Wq = "[" + "; ".join("(%d%%Z, %s)" % (s_, cq(fr(r[0]))) for s_, r in zip(smp, case["W"])) + "]"
            terms = []
            for i, s_ in enumerate(smp):
                vals = [win[i][0] for win in out]
                terms.append("qlist_eqb (grv_code %s %s %s %d%%Z %s %s) %s" % (
                    "true" if case["span_normalise"] else "false", coq_times(desc), Wq, s_, coq_segs(desc),
                    cqlist([fr(x) for x in case["wins"]]), cqlist([rat(v) for v in vals])))
            return " && ".join(terms)
        if "err" in obs:
            return None
        desc = case["desc"]
        smp = samples_of(desc)
        ns = len(smp)
        if st in ("trait_covariance", "trait_correlation", "trait_linear_model", "genetic_relatedness_weighted"):
            # weight statistics as instances of the general specification (first output column)
            Wm = [[fr(x) for x in row] for row in case["W"]]
            kc = len(Wm[0])
            pol = False
            if st == "trait_covariance":
                if ns < 2:
                    return None
                mean = [sum(r[j] for r in Wm) / ns for j in range(kc)]
                W = {s_: [Wm[i][j] - mean[j] for j in range(kc)] for i, s_ in enumerate(smp)}
                k, sf = kc, "(SF_trait_cov %s 0)" % cq(ns)
            elif st == "trait_correlation":
                mean = [sum(r[j] for r in Wm) / ns for j in range(kc)]
                var0 = sum((r[0] - mean[0]) ** 2 for r in Wm) / Fr(ns - 1)
                W = {s_: [Wm[i][j] - mean[j] for j in range(kc)] + [Fr(1)] for i, s_ in enumerate(smp)}
                k, sf = kc + 1, "(SF_trait_corr %s %s 0 %d)" % (cq(ns), cq(var0), kc)
            elif st == "trait_linear_model":
                W = {s_: Wm[i] + [Fr(1)] for i, s_ in enumerate(smp)}
                k, sf = kc + 1, "(SF_trait_lm %s %s 0 %d)" % (cq(ns), cq(sum(r[0] for r in Wm)), kc)
            else:
                i0, j0 = case["indexes"][0]
                colsum = [sum(r[j] for r in Wm) for j in range(kc)]
                W = {s_: Wm[i] + [Fr(1, ns)] for i, s_ in enumerate(smp)}
                k, sf = kc + 1, "(SF_grw %s %s %s %d %d %d)" % ("true" if case["centre"] else "false",
                                                                  cq(colsum[i0]), cq(colsum[j0]), i0, j0, kc)
                pol = case["polarised"]
            out = obs["out"] if case["windows"] not in (None, "none") else [obs["out"]]
            dropped = case["drop"] is not None
            if case["mode"] == "node":
                vals = [(node if dropped else node[0]) for win in out for node in win]
            else:
                vals = [(win if dropped else win[0]) for win in out]
            return coq_stat_check(desc, W, k, sf, case["mode"], pol, case["span_normalise"],
                                  [fr(x) for x in case["wins"]], vals, obs.get("tab"))
        if st == "Fst" and case["mode"] in ("site", "branch"):
            sets = case["sets"]
            n = [len(A) for A in sets]
            u, v = case["indexes"][0]
            if n[u] < 2 or n[v] < 2:
                return None
            out = obs["out"] if case["windows"] not in (None, "none") else [obs["out"]]
            vals = [(win if case["drop"] is not None else win[0]) for win in out]
            W = indicator_W(desc, sets)
            nq = cqlist(n)
            ws = cqlist([fr(x) for x in case["wins"]])
            nrm = "true" if case["span_normalise"] else "false"

            def wv(sf):
                return "(win_values %s %s %s)" % (coq_stat_expr(desc, W, len(sets), sf, case["mode"], False), nrm, ws)
            exp = "[" + "; ".join("None" if isinstance(x, str) else "(Some %s)" % cq(rat(x)) for x in vals) + "]"
            return "fst_check %s %s %s %s" % (wv("(SF_diversity %s %d)" % (nq, u)), wv("(SF_diversity %s %d)" % (nq, v)),
                                              wv("(SF_divergence %s %d %d)" % (nq, u, v)), exp)
        if not (st in ONE_WAY or st in K_WAY or st == "genetic_relatedness"):
            return None
        sets = case["sets"]
        n = [len(A) for A in sets]
        nq = cqlist(n)
        pol = case.get("polarised", False)
        if st in ONE_WAY:
            bad = {"diversity": lambda m: m < 2, "segregating_sites": lambda m: m < 1, "Y1": lambda m: m < 3}[st](n[0])
            sf = "(SF_%s %s 0)" % ({"diversity": "diversity", "segregating_sites": "segsites", "Y1": "Y1"}[st], nq)
        elif st == "genetic_relatedness":
            i, j = case["indexes"][0]
            bad = False
            sf = "(SF_relatedness %s %s %d %d)" % (nq, "true" if case["centre"] else "false", i, j)
        else:
            t = case["indexes"][0]
            i = t[0]
            # sizes for which a denominator of the documented summary function vanishes
            bad = {"divergence": lambda: t[0] == t[1] and n[i] < 2,
                   "Y2": lambda: n[t[1]] < 2, "f2": lambda: n[t[0]] < 2 or n[t[1]] < 2,
                   "Y3": lambda: False, "f3": lambda: n[t[0]] < 2, "f4": lambda: False}[st]()
            sf = "(SF_%s %s %s)" % (st, nq, " ".join(str(x) for x in t))
        if bad:
            return None
        out = obs["out"]
        if case["windows"] in (None, "none"):
            out = [out]
        dropped = case["drop"] is not None
        if case["mode"] == "node":
            vals = [(node if dropped else node[0]) for win in out for node in win]
        else:
            vals = [(win if dropped else win[0]) for win in out]
        W = indicator_W(case["desc"], sets)
        return coq_stat_check(case["desc"], W, len(sets), sf, case["mode"], pol, case["span_normalise"],
                              [fr(x) for x in case["wins"]], vals, obs.get("tab"))

    def shape(self, case, exact, windows_spec):
        depth = 2 if (case["mode"] == "node" or case["stat"] == "genetic_relatedness_vector") else 1
        if case["drop"] is not None:
            exact = drop_last(exact, depth)
        if windows_spec in (None, "none"):
            exact = exact[0]
        return exact

    def oracle(self, case, obs):
        if "err" in obs:
            if (case["stat"] == "genetic_relatedness_proportion" and case["drop"] == "flat"
                    and obs["err"] == "ValueError" and "reshape" in obs["msg"]):
                # finding F14: proportion=True with a single index tuple (documented) raises
                return [("raises/genetic_relatedness-proportion-single-index-tuple",
                         "%s: %s" % (obs["err"], obs["msg"]))]
            return [("unexpected-error/%s" % case["stat"], "%s: %s" % (obs["err"], obs["msg"]))]
        desc = case["desc"]
        wins = [fr(x) for x in case["wins"]]
        exact = self.shape(case, named_exact(desc, case, wins), case["windows"])
        fails = []
        msgs = compare(obs["out"], exact)
        if msgs:
            key = "definition/%s/%s" % (case["stat"], case["mode"])
            if case["stat"] == "genetic_relatedness_vector" and case["span_normalise"]:
                # finding C08-F5: exactly the un-normalised value?
                raw = self.shape(case, named_exact(desc, case, wins, span_normalise=False), case["windows"])
                if not compare(obs["out"], raw):
                    key = "genetic_relatedness_vector/span_normalise-ignored"
            fails.append((key, "; ".join(msgs[:3])))
        if case["stat"] in PRIMARY and not (case["stat"] == "genetic_relatedness_vector" and case["span_normalise"]):
            fine_w = [fr(x) for x in case["fine"]]
            coarse = obs["out"] if case["windows"] not in (None, "none") else [obs["out"]]
            comb = combine_fine(obs["fine"], fine_w, wins, case["span_normalise"])
            msgs = compare_float(coarse, comb)
            if msgs:
                fails.append(("additivity/%s/%s" % (case["stat"], case["mode"]), "; ".join(msgs[:3])))
        return fails

    def nontrivial(self, case, obs):
        return "out" in obs and len(case["desc"]["edges"]) > 0

    def describe(self, case, obs):
        w = case["windows"]
        return {"stat": case["stat"], "mode": case["mode"], "drop": case["drop"],
                "argform": "/".join(sorted(set((case.get("argform") or {}).values()))),
                "windows": w if isinstance(w, str) else "list%d" % (len(w) - 1)}

    shrink = GeneralStat.shrink



# ---------------------------------------------------------------------------------
# Family 3: allele frequency spectrum
# ---------------------------------------------------------------------------------

def afs_fold(c, n):
    """docs: unpolarised AFS is folded - allele counts c and n-c add to the same entry, the
    array being "lower triangular"; ties are broken on successively shorter prefixes."""
    for kk in range(len(c), 0, -1):
        s_, half = sum(c[:kk]), Fr(sum(n[:kk]), 2)
        if s_ != half:
            if s_ > half:
                return [nj - cj for cj, nj in zip(c, n)]
            return list(c)
    return list(c)


def afs_exact(desc, sets, wins, mode, polarised, span_normalise):
    F_ = Forests(desc)
    smp = F_.samples
    n = [len(A) for A in sets]
    nall = len(smp)
    dims = [x + 1 for x in n]

    def zeros(d):
        return Fr(0) if not d else [zeros(d[1:]) for _ in range(d[0])]

    def bump(arr, c, v):
        for j in c[:-1]:
            arr = arr[j]
        arr[c[-1]] += v
    out = []
    for a, b in zip(wins[:-1], wins[1:]):
        afs = zeros(dims)
        if mode == "site":
            for si, st in enumerate(desc["sites"]):
                if not (a <= fr(st[0]) < b):
                    continue
                g, alleles = F_.genotype(si)
                for al in alleles[(1 if polarised else 0):]:
                    carriers = [s for s in smp if g[s] == al]
                    if 0 < len(carriers) < nall:
                        c = [sum(1 for s in A if g[s] == al) for A in sets]
                        if not polarised:
                            c = afs_fold(c, n)
                        bump(afs, c, Fr(1) if polarised else Fr(1, 2))
        else:
            for kk in range(desc["L"]):
                ov = min(b, Fr(kk + 1)) - max(a, Fr(kk))
                if ov <= 0:
                    continue
                par = F_.parent(kk)
                below = {u: set() for u in range(F_.N)}
                for s in smp:
                    for u in F_.chain(kk, s):
                        below[u].add(s)
                for u in range(F_.N):
                    if par[u] != NULL and 0 < len(below[u]) < nall:
                        c = [sum(1 for s in A if s in below[u]) for A in sets]
                        if not polarised:
                            c = afs_fold(c, n)
                        bump(afs, c, ov * (F_.time[par[u]] - F_.time[u]))
        if span_normalise:
            afs = zipmap(lambda v: v / (b - a), afs)
        out.append(afs)
    return out


def afs_branch_port(tab, times, L, all_samples, sets, wins, polarised, span_normalise):
    """Line-by-line port (exact arithmetic) of tsk_treeseq_branch_allele_frequency_spectrum /
    tsk_treeseq_update_branch_afs, c/tskit/trees.c 3470-3633.  NOT the definition: it keeps
    the code's behaviour of not refreshing last_update[u] when an edge above u is inserted
    (finding F15) and is used only to recognise that known defect."""
    E, I, O = tab["edges"], tab["ins"], tab["rem"]
    N = len(times)
    K = len(sets) + 1
    n = [len(A) for A in sets]
    dims = [x + 1 for x in n]
    nw = len(wins) - 1

    def zeros(d):
        return Fr(0) if not d else [zeros(d[1:]) for _ in range(d[0])]
    result = [zeros(dims) for _ in range(nw)]
    counts = [[0] * K for _ in range(N)]
    for j, A in enumerate(sets):
        for u in A:
            counts[u][j] = 1
    for u in all_samples:
        counts[u][K - 1] = 1
    parent = [NULL] * N
    last_update = [Fr(0)] * N
    bl = [Fr(0)] * N

    def update(u, right, wi):
        x = (right - last_update[u]) * bl[u]
        alls = counts[u][K - 1]
        if 0 < alls < len(all_samples):
            c = counts[u][:K - 1]
            if not polarised:
                c = afs_fold(c, n)
            arr = result[wi]
            for j in c[:-1]:
                arr = arr[j]
            arr[c[-1]] += x
        last_update[u] = right
    tj = tk = 0
    t_left = Fr(0)
    wi = 0
    M = len(E)
    while tj < M or t_left < L:
        while tk < M and E[O[tk]][1] == t_left:
            h = O[tk]
            tk += 1
            u, v = E[h][3], E[h][2]
            update(u, t_left, wi)
            while v != NULL:
                update(v, t_left, wi)
                counts[v] = [a - b for a, b in zip(counts[v], counts[u])]
                v = parent[v]
            parent[u] = NULL
            bl[u] = Fr(0)
        while tj < M and E[I[tj]][0] == t_left:
            h = I[tj]
            tj += 1
            u, v = E[h][3], E[h][2]
            parent[u] = v
            bl[u] = Fr(times[v]) - Fr(times[u])
            while v != NULL:
                update(v, t_left, wi)
                counts[v] = [a + b for a, b in zip(counts[v], counts[u])]
                v = parent[v]
        t_right = Fr(L)
        if tj < M:
            t_right = min(t_right, Fr(E[I[tj]][0]))
        if tk < M:
            t_right = min(t_right, Fr(E[O[tk]][1]))
        while wi < nw and wins[wi + 1] <= t_right:
            for u in range(N):
                update(u, wins[wi + 1], wi)
            wi += 1
        t_left = t_right
    if span_normalise:
        result = [zipmap(lambda v, a=a, b=b: v / (b - a), r) for r, a, b in zip(result, wins[:-1], wins[1:])]
    return result


class AFS(Family):
    """allele_frequency_spectrum (joint, polarised / folded), site and branch mode."""
    name = "afs"
    workers = 8
    timeout = 60.0

    def generate(self, rng, tier):
        n = 400 if tier == "quick" else 4000
        for i in range(n):
            desc = gen_desc(rng, max_nodes=8 if i % 5 else 11, max_L=6)
            smp = samples_of(desc)
            r = rng.random()
            case = {"desc": desc, "mode": rng.choice(["site", "branch"]),
                    "polarised": rng.random() < 0.5, "span_normalise": rng.random() < 0.5,
                    "windows": random_windows(rng, desc)}
            if r < 0.2:
                case["sets"], case["none"] = [list(smp)], True
            elif r < 0.45:       # the configuration modelled in Coq (C08.Afs)
                case["sets"], case["none"] = random_sample_sets(rng, desc, 1, 1), False
                case["mode"], case["polarised"] = "branch", True
            else:
                case["sets"], case["none"] = random_sample_sets(rng, desc, 1, 3, disjoint=rng.random() < 0.5), False
            yield with_refinement(rng, case, desc)

    def observe(self, case):
        ts = build_ts(case["desc"])

        def run(w):
            return ts.allele_frequency_spectrum(None if case["none"] else conv_sets(case["sets"], form_of(case, "s", SET_FORMS)),
                                                windows=conv_win(w, form_of(case, "w", WIN_FORMS)),
                                                mode=case["mode"], polarised=case["polarised"],
                                                span_normalise=case["span_normalise"])
        try:
            node_err = None
            try:
                ts.allele_frequency_spectrum(case["sets"], mode="node")
            except Exception as e:
                node_err = type(e).__name__
            return {"out": encf(run(win_arg(case["windows"]))),
                    "fine": encf(run([float(fr(x)) for x in case["fine"]])), "node_err": node_err,
                    "tab": table_index(ts)}
        except Exception as e:
            return {"err": type(e).__name__, "msg": str(e)[:200]}

    def oracle(self, case, obs):
        if "err" in obs:
            return [("unexpected-error/afs", "%s: %s" % (obs["err"], obs["msg"]))]
        wins = [fr(x) for x in case["wins"]]
        exact = afs_exact(case["desc"], case["sets"], wins, case["mode"], case["polarised"], case["span_normalise"])
        if case["windows"] in (None, "none"):
            exact = exact[0]
        fails = []
        msgs = compare(obs["out"], exact)
        if msgs:
            fails.append(("definition/afs/%s/%s" % (case["mode"], "polarised" if case["polarised"] else "folded"),
                          "; ".join(msgs[:3])))
        coarse = obs["out"] if case["windows"] not in (None, "none") else [obs["out"]]
        comb = combine_fine(obs["fine"], [fr(x) for x in case["fine"]], wins, case["span_normalise"])
        msgs = compare_float(coarse, comb)
        if msgs:
            fails.append(("additivity/afs/%s" % case["mode"], "; ".join(msgs[:3])))
        if fails and case["mode"] == "branch":
            # finding F15: is this exactly the code's stale-last_update behaviour?
            desc = case["desc"]
            times = [nd[1] for nd in desc["nodes"]]
            args = (obs["tab"], times, desc["L"], samples_of(desc), case["sets"])
            p1 = afs_branch_port(*args, wins, case["polarised"], case["span_normalise"])
            p2 = afs_branch_port(*args, [fr(x) for x in case["fine"]], case["polarised"], case["span_normalise"])
            if not compare(coarse, p1) and not compare(obs["fine"], p2):
                fails = [("afs-branch/parentless-node-gains-parent-inside-window/" + k.split("/")[0], m) for k, m in fails]
        if obs["node_err"] is None:
            fails.append(("afs-node-mode-accepted", "mode='node' is documented as unsupported (ValueError)"))
        return fails

    prelude = PRELUDE

    def coq_check(self, case, obs):
        """one sample set, polarised, branch mode: the Gallina port of the (repaired) C sweep
        and the Coq definition must both give exactly the implementation's table"""
        if "err" in obs or case["mode"] != "branch" or not case["polarised"] or len(case["sets"]) != 1:
            return None
        out = obs["out"] if case["windows"] not in (None, "none") else [obs["out"]]
        if any(isinstance(v, str) for v in flatten(out)):
            return None
        desc = case["desc"]
        wins = [fr(x) for x in case["wins"]]
        exp = "[" + "; ".join(cqlist([rat(v) for v in row]) for row in out) + "]"
        nrm = "true" if case["span_normalise"] else "false"
        return ("check_afs_port (afs_branch_port %s %s %s %s %s) %s %s %s && check_afs_spec %s %s %s %s %s %s %s" % (
            coq_times(desc), czl(case["sets"][0]), czl(samples_of(desc)), coq_edges(obs["tab"], desc["L"]),
            cqlist(wins), nrm, cqlist(wins), exp,
            coq_times(desc), czl(case["sets"][0]), czl(samples_of(desc)), coq_segs(desc), nrm, cqlist(wins), exp))

    def nontrivial(self, case, obs):
        return "out" in obs and (len(case["desc"]["edges"]) > 0)

    def describe(self, case, obs):
        return {"mode": case["mode"], "polarised": case["polarised"], "nsets": len(case["sets"])}

    shrink = GeneralStat.shrink



# ---------------------------------------------------------------------------------
# Family 4: divergence_matrix / genetic_relatedness_matrix, and worker threads
# ---------------------------------------------------------------------------------

def pair_distance_site(F_, a, b):
    """{(u,v): number of sites in [a,b) at which samples u and v carry different alleles}"""
    d = {}
    for si, st in enumerate(F_.desc["sites"]):
        if not (a <= fr(st[0]) < b):
            continue
        g, _ = F_.genotype(si)
        for u in F_.samples:
            for v in F_.samples:
                if g[u] != g[v]:
                    d[(u, v)] = d.get((u, v), 0) + 1
    return d


def path_length(F_, x, u, v):
    """length of the path between u and v in the forest at x; to the respective roots when
    they have no common ancestor"""
    cu, cv = F_.chain(x, u), F_.chain(x, v)
    common = [w for w in cu if w in cv]
    if common:
        m = common[0]
        return (F_.time[m] - F_.time[u]) + (F_.time[m] - F_.time[v])
    return (F_.time[cu[-1]] - F_.time[u]) + (F_.time[cv[-1]] - F_.time[v])


def pair_distance_branch(F_, a, b):
    d = {}
    for kk in range(F_.L):
        ov = min(b, Fr(kk + 1)) - max(a, Fr(kk))
        if ov <= 0:
            continue
        for u in F_.samples:
            for v in F_.samples:
                if u != v:
                    d[(u, v)] = d.get((u, v), 0) + ov * path_length(F_, kk, u, v)
    return d


def divmat_exact(desc, sets, wins, mode, span_normalise):
    """mean divergence between distinct samples of the sets; diagonal = within-set mean over
    distinct pairs (0 for singletons)."""
    F_ = Forests(desc)
    out = []
    for a, b in zip(wins[:-1], wins[1:]):
        d = pair_distance_site(F_, a, b) if mode == "site" else pair_distance_branch(F_, a, b)
        M = []
        for i, A in enumerate(sets):
            row = []
            for j, B in enumerate(sets):
                tot = sum((d.get((u, v), 0) for u in A for v in B if u != v), Fr(0))
                den = len(A) * (len(A) - 1) if i == j else len(A) * len(B)
                val = tot / den if den else Fr(0)
                row.append(val / (b - a) if span_normalise else val)
            M.append(row)
        out.append(M)
    return out


def grm_from_divmat(D, n):
    """genetic_relatedness_matrix docstring: diagonal corrected by (n-1)/n, double-centred, / -2"""
    N = len(D)
    if N == 0:
        return D
    B = [[D[i][j] * (Fr(n[i] - 1, n[i]) if i == j else 1) for j in range(N)] for i in range(N)]
    mean = sum(sum(r) for r in B) / (N * N)
    y = [sum(B[i][j] for i in range(N)) / N for j in range(N)]
    return [[(B[i][j] + mean - y[i] - y[j]) / -2 for j in range(N)] for i in range(N)]


class Matrix(Family):
    """divergence_matrix and genetic_relatedness_matrix against the pairwise definition; the
    same call with num_threads in {1,2,3,8}, repeated, against num_threads=0; for
    mode='branch' genetic_relatedness_matrix against genetic_relatedness (docstring claim)."""
    name = "matrix_threads"
    workers = 8
    timeout = 120.0
    THREADS = [1, 2, 3, 8]

    def generate(self, rng, tier):
        n = 240 if tier == "quick" else 2500
        for i in range(n):
            if i % 30 == 29:
                desc = big_leaf_desc(rng)          # 31..65 singleton sets, num_threads 8 > windows
            else:
                desc = gen_desc(rng, max_nodes=9 if i % 3 else 12, max_L=6 if i % 3 else 10, max_sites=5)
            smp = samples_of(desc)
            r = rng.random()
            if r < 0.25:
                sets, how = [[s] for s in smp], "none"
            elif r < 0.45:
                sub = rng.sample(smp, rng.randrange(1, len(smp) + 1))
                sets, how = [[s] for s in sub], "flat"
            else:
                sets, how = random_sample_sets(rng, desc, 1, 4, disjoint=True), "sets"
            wk = rng.choice(["none", "none", "trees", "list", "list", "partial"])
            if wk == "partial":      # divergence_matrix does not require the windows to span [0,L)
                L, den = desc["L"], rng.choice([1, 2, 4])
                pts = sorted(rng.sample(range(0, L * den + 1), min(L * den + 1, rng.randrange(2, 6))))
                windows = [enc(Fr(p_, den)) for p_ in pts]
            else:
                windows = random_windows(rng, desc, wk)
            yield {"desc": desc, "sets": sets, "how": how, "windows": windows,
                   "wins": [enc(w) for w in resolve_windows(desc, windows)],
                   "mode": rng.choice(["site", "branch"]), "span_normalise": rng.random() < 0.6,
                   "reps": 2 if tier == "quick" else 3}

    def observe(self, case):
        ts = build_ts(case["desc"])
        arg = None if case["how"] == "none" else ([A[0] for A in case["sets"]] if case["how"] == "flat" else case["sets"])
        w = conv_win(win_arg(case["windows"]), form_of(case, "w", WIN_FORMS))
        sform = form_of(case, "s", SET_FORMS)
        kw = dict(windows=w, mode=case["mode"], span_normalise=case["span_normalise"])
        out = {}
        for meth in ("divergence_matrix", "genetic_relatedness_matrix"):
            # a flat list of ids (= singleton sets) is only documented for divergence_matrix
            # (_parse_stat_matrix_sample_sets); genetic_relatedness_matrix wants lists of lists
            a = case["sets"] if (meth == "genetic_relatedness_matrix" and case["how"] == "flat") else arg
            try:
                a = conv_sets(a, sform)
                out[meth] = encf(getattr(ts, meth)(a, num_threads=0, **kw))
                th = {}
                for t in self.THREADS:
                    th[str(t)] = [encf(getattr(ts, meth)(a, num_threads=t, **kw)) for _ in range(case["reps"])]
                out[meth + "_threads"] = th
            except Exception as e:
                out[meth] = {"err": type(e).__name__, "msg": str(e)[:200]}
        return out

    def oracle(self, case, obs):
        desc = case["desc"]
        wins = [fr(x) for x in case["wins"]]
        fails = []
        D = divmat_exact(desc, case["sets"], wins, case["mode"], case["span_normalise"])
        n = [len(A) for A in case["sets"]]
        K = [grm_from_divmat(M, n) for M in D]
        single = case["windows"] in (None, "none")
        for meth, exact in (("divergence_matrix", D), ("genetic_relatedness_matrix", K)):
            o = obs[meth]
            if isinstance(o, dict):
                fails.append(("unexpected-error/%s" % meth, "%s: %s" % (o["err"], o["msg"])))
                continue
            msgs = compare(o, exact[0] if single else exact)
            if msgs:
                fails.append(("definition/%s/%s" % (meth, case["mode"]), "; ".join(msgs[:3])))
            for t, runs in obs[meth + "_threads"].items():
                for r in runs:
                    msgs = compare_float(o, r)
                    if msgs or any(isinstance(x, str) for x in flatten(r)) != any(isinstance(x, str) for x in flatten(o)):
                        fails.append(("threads/%s/%s" % (meth, "by-tree" if single else "by-window"),
                                      "num_threads=%s differs from single-threaded: %s" % (t, "; ".join(msgs[:2]))))
                        break
        # docstring: branch mode equals genetic_relatedness(centre=True, proportion=False)
        one_mut = all(sum(1 for m_ in desc["mutations"] if m_[0] == si) <= 1 for si in range(len(desc["sites"])))
        if ((case["mode"] == "branch" or one_mut) and not isinstance(obs["genetic_relatedness_matrix"], dict)
                and len(case["sets"]) >= 2):
            N = len(case["sets"])
            idx = [(i, j) for i in range(N) for j in range(N)]
            c2 = {"stat": "genetic_relatedness", "mode": case["mode"], "sets": case["sets"], "indexes": idx,
                  "centre": True, "polarised": True, "span_normalise": case["span_normalise"]}
            R = named_exact(desc, c2, wins)
            R = [[[row[i * N + j] for j in range(N)] for i in range(N)] for row in R]
            msgs = compare(obs["genetic_relatedness_matrix"], R[0] if single else R)
            if msgs:
                fails.append(("grm-vs-genetic_relatedness/%s" % case["mode"], "; ".join(msgs[:3])))
        return fails

    def nontrivial(self, case, obs):
        return len(case["desc"]["edges"]) > 0 and len(case["sets"]) > 1

    def describe(self, case, obs):
        w = case["windows"]
        return {"mode": case["mode"], "how": case["how"],
                "windows": w if isinstance(w, str) else "list%d" % (len(w) - 1)}


def flatten(x):
    if isinstance(x, list):
        for y in x:
            yield from flatten(y)
    else:
        yield x



# ---------------------------------------------------------------------------------
# Family 5: dedicated algorithms - mean_descendants, genealogical_nearest_neighbours
# (+ threads), pair_coalescence_counts
# ---------------------------------------------------------------------------------

def below_sets(F_, x, nodes):
    """{u: set of the given nodes at or below u} in the forest at x"""
    par = F_.parent(x)
    out = {u: set() for u in range(F_.N)}
    for s in nodes:
        u = s
        while u != NULL:
            out[u].add(s)
            u = par[u]
    return out


def mean_descendants_exact(desc, sets):
    """C[v][j] = total span x number of nodes of set j descending from v, divided by the span
    over which v is an ancestor (or self) of any node of the reference sets."""
    F_ = Forests(desc)
    allref = sorted({u for A in sets for u in A})
    num = [[Fr(0)] * len(sets) for _ in range(F_.N)]
    den = [Fr(0)] * F_.N
    for kk in range(F_.L):
        b = below_sets(F_, kk, allref)
        for v in range(F_.N):
            if b[v]:
                den[v] += 1
                for j, A in enumerate(sets):
                    num[v][j] += sum(1 for s in A if s in b[v])
    return [[(num[v][j] / den[v]) if den[v] else Fr(0) for j in range(len(sets))] for v in range(F_.N)]


def gnn_exact(desc, focal, sets):
    F_ = Forests(desc)
    allref = sorted({u for A in sets for u in A})
    out = []
    for u in focal:
        acc = [Fr(0)] * len(sets)
        length = Fr(0)
        for kk in range(F_.L):
            b = below_sets(F_, kk, allref)
            for p in F_.chain(kk, u):
                others = b[p] - {u}
                if others:
                    length += 1
                    for j, A in enumerate(sets):
                        acc[j] += Fr(sum(1 for s in A if s in others), len(others))
                    break
        out.append([a / length if length else Fr(0) for a in acc])
    return out


def pair_coalescence_exact(desc, sets, idx, wins, span_normalise, pair_normalise):
    """per window, per index pair (j,k), per node n: span-weighted number of unordered sample
    pairs (one in set j, one in set k) whose most recent common ancestor is n, n itself not
    being one of the pair; span_normalise divides by the window span that has a tree at all."""
    F_ = Forests(desc)
    out = []
    for a, b in zip(wins[:-1], wins[1:]):
        res = [[Fr(0)] * F_.N for _ in idx]
        nonmissing = Fr(0)
        for kk in range(F_.L):
            ov = min(b, Fr(kk + 1)) - max(a, Fr(kk))
            if ov <= 0:
                continue
            par = F_.parent(kk)
            if any(p_ != NULL for p_ in par):
                nonmissing += ov
            for ii, (j, k) in enumerate(idx):
                pairs = set()
                for u in sets[j]:
                    for v in sets[k]:
                        if u != v:
                            pairs.add((min(u, v), max(u, v)))
                for u, v in pairs:
                    cu, cv = F_.chain(kk, u), F_.chain(kk, v)
                    common = [w for w in cu if w in cv]
                    if common and common[0] not in (u, v):
                        res[ii][common[0]] += ov
        for ii, (j, k) in enumerate(idx):
            den = Fr(1)
            if span_normalise:
                den *= nonmissing
            if pair_normalise:
                nj, nk = len(sets[j]), len(sets[k])
                den *= Fr(nj * (nj - 1), 2) if j == k else nj * nk
            res[ii] = [(v / den if den else Fr(0)) for v in res[ii]] if (span_normalise or pair_normalise) else res[ii]
        out.append(res)
    return out


def pcc_code_spans(desc, wins):
    """Port of the window-span bookkeeping of tsk_treeseq_pair_coalescence_stat
    (c/tskit/trees.c 9525-9592): NOT the definition (finding C08-F3: when a window ends
    inside an interval without edges the part beyond the window end is subtracted a second
    time instead of being added back); used only to recognise that defect."""
    bps = [Fr(x) for x in gen_ts.breakpoints(desc)]
    spans, missing, w = [], Fr(0), 0
    nw = len(wins) - 1
    for left, right in zip(bps[:-1], bps[1:]):
        empty = all(p_ == NULL for p_ in gen_ts.parent_at(desc, left))
        if empty:
            missing += right - left
        while w < nw and wins[w + 1] <= right:
            span = wins[w + 1] - wins[w] - missing
            missing = Fr(0)
            if empty:
                rem = right - wins[w + 1]
                span -= rem
                missing += rem
            spans.append(span)
            w += 1
    return spans


class Dedicated(Family):
    name = "dedicated"
    workers = 8
    timeout = 120.0

    def generate(self, rng, tier):
        n = 450 if tier == "quick" else 6000
        for i in range(n):
            what = ["mean_descendants", "gnn", "pair_coalescence_counts"][i % 3]
            desc = gen_desc(rng, max_nodes=9 if i % 2 else 12, max_L=6 if i % 2 else 10, max_sites=0,
                            p_gap=0.45 if (what == "pair_coalescence_counts" and i % 2) else 0.15)
            smp = samples_of(desc)
            N = len(desc["nodes"])
            case = {"desc": desc, "what": what}
            if what == "mean_descendants":
                # reference sets may be any nodes
                k = rng.randrange(1, 4)
                case["sets"] = [sorted(rng.sample(range(N), rng.randrange(1, N + 1))) for _ in range(k)]
            elif what == "gnn":
                pool = list(range(N)) if rng.random() < 0.4 else list(smp)
                k = rng.randrange(1, 4)
                sets = []
                for _ in range(k):
                    if not pool:
                        break
                    A = rng.sample(pool, rng.randrange(1, max(1, len(pool) // 2) + 1))
                    pool = [x for x in pool if x not in A]
                    sets.append(A)
                case["sets"] = sets
                case["focal"] = [rng.randrange(N) for _ in range(rng.randrange(1, 7))]
                case["reps"] = 2
            else:
                sets = random_sample_sets(rng, desc, 1, 3, disjoint=True)
                case["sets"] = sets
                r = rng.random()
                if len(sets) <= 2 and r < 0.3:
                    case["indexes"] = None
                else:
                    case["indexes"] = [[rng.randrange(len(sets)), rng.randrange(len(sets))] for _ in range(rng.randrange(1, 4))]
                case["windows"] = random_windows(rng, desc, rng.choice(["none", "list", "list", "list", "trees"]))
                case["wins"] = [enc(w) for w in resolve_windows(desc, case["windows"])]
                case["span_normalise"] = rng.random() < 0.5
                case["pair_normalise"] = rng.random() < 0.4
                case["time_windows"] = None
                if rng.random() < 0.35:
                    tmax = max(nd[1] for nd in desc["nodes"]) + 1
                    pts = sorted(rng.sample(range(1, 2 * tmax + 1), min(2 * tmax, rng.randrange(0, 4))))
                    case["time_windows"] = [[0, 1]] + [enc(Fr(p_, 2)) for p_ in pts] + ([None] if rng.random() < 0.6 else [])
                    if len(case["time_windows"]) < 2:
                        case["time_windows"].append(None)
            yield case

    def observe(self, case):
        ts = build_ts(case["desc"])
        try:
            if case["what"] == "mean_descendants":
                return {"out": encf(ts.mean_descendants(conv_sets(case["sets"], form_of(case, "s", SET_FORMS_LL))))}
            if case["what"] == "gnn":
                focal = conv_sets(case["focal"], form_of(case, "f", ["list", "tuple", "i32", "view"]))
                rsets = conv_sets(case["sets"], form_of(case, "s", SET_FORMS_LL))
                out = {"out": encf(ts.genealogical_nearest_neighbours(focal, rsets))}
                out["threads"] = {str(t): [encf(ts.genealogical_nearest_neighbours(focal, rsets, num_threads=t))
                                           for _ in range(case["reps"])] for t in (1, 2, 3, 8)}
                return out
            w = win_arg(case["windows"])
            if isinstance(w, str):
                w = [float(fr(x)) for x in case["wins"]]
            kw = dict(sample_sets=conv_sets(case["sets"], form_of(case, "s", SET_FORMS)),
                      indexes=None if case["indexes"] is None else conv_idx([tuple(t) for t in case["indexes"]], form_of(case, "i", ["list", "tuple", "i32", "view"])),
                      windows=conv_win(w, form_of(case, "w", WIN_FORMS)), pair_normalise=case["pair_normalise"])
            if case.get("time_windows"):
                kw["time_windows"] = [float("inf") if x is None else float(fr(x)) for x in case["time_windows"]]
            return {"out": encf(ts.pair_coalescence_counts(span_normalise=case["span_normalise"], **kw)),
                    "raw": encf(ts.pair_coalescence_counts(span_normalise=False, **kw)),
                    "norm": encf(ts.pair_coalescence_counts(span_normalise=True, **kw))}
        except Exception as e:
            return {"err": type(e).__name__, "msg": str(e)[:200]}

    def oracle(self, case, obs):
        what = case["what"]
        desc = case["desc"]
        if what == "pair_coalescence_counts" and case.get("time_windows"):
            # explicit refusal (python/_tskitmodule.c "Node-to-bin map has null values for all
            # nodes"): no node time falls into any of the time windows
            tw = [None if x is None else fr(x) for x in case["time_windows"]]
            inside = any(tw[0] <= Fr(nd[1]) and (tw[-1] is None or Fr(nd[1]) < tw[-1]) for nd in desc["nodes"])
            if not inside:
                if obs.get("err") == "ValueError" and "null values for all nodes" in obs.get("msg", ""):
                    return []
                return [("pair_coalescence_counts/empty-time-windows-accepted",
                         "no node time lies in the time windows, expected the documented ValueError, got %r" % (obs,))]
        if "err" in obs:
            return [("unexpected-error/%s" % what, "%s: %s" % (obs["err"], obs["msg"]))]
        fails = []
        if what == "mean_descendants":
            exact = mean_descendants_exact(desc, case["sets"])
        elif what == "gnn":
            exact = gnn_exact(desc, case["focal"], case["sets"])
            for t, runs in obs["threads"].items():
                for r in runs:
                    if compare_float(obs["out"], r) or len(r) != len(obs["out"]):
                        fails.append(("threads/gnn", "num_threads=%s differs from single-threaded" % t))
                        break
        else:
            sets = case["sets"]
            idx = case["indexes"]
            if idx is None:
                idx = [[0, 0]] if len(sets) == 1 else [[0, 1]]
            wins = [fr(x) for x in case["wins"]]
            def bins(rows):
                """time_windows: node counts added up per half-open time interval"""
                tw = case.get("time_windows")
                if not tw:
                    return rows
                edges_ = [None if x is None else fr(x) for x in tw]
                times = [Fr(nd[1]) for nd in desc["nodes"]]
                out_ = []
                for row in rows:
                    acc = [Fr(0)] * (len(edges_) - 1)
                    for u, v in enumerate(row):
                        for b_ in range(len(edges_) - 1):
                            hi_ = edges_[b_ + 1]
                            if edges_[b_] <= times[u] and (hi_ is None or times[u] < hi_):
                                acc[b_] += v
                    out_.append(acc)
                return out_
            exact = [bins(win) for win in pair_coalescence_exact(desc, sets, [tuple(t) for t in idx], wins,
                                                                 case["span_normalise"], case["pair_normalise"])]
            if case["indexes"] is None:
                exact = [e[0] for e in exact]
            if case["windows"] in (None, "none"):
                exact = exact[0]
        msgs = compare(obs["out"], exact)
        if msgs:
            key = "definition/%s" % what
            if what == "pair_coalescence_counts" and case["span_normalise"]:
                # finding C08-F3: is it exactly the code's window-span bookkeeping?
                raw = [bins(win) for win in pair_coalescence_exact(desc, sets, [tuple(t) for t in idx], wins, False, case["pair_normalise"])]
                spans = pcc_code_spans(desc, wins)
                buggy = [[[(v / sp if sp else Fr(0)) for v in row] for row in win] for win, sp in zip(raw, spans)]
                if case["indexes"] is None:
                    buggy = [e[0] for e in buggy]
                if case["windows"] in (None, "none"):
                    buggy = buggy[0]
                if not compare(obs["out"], buggy):
                    key = "pair_coalescence_counts/window-ends-inside-edgeless-interval"
            fails.append((key, "; ".join(msgs[:3])))
        return fails

    prelude = PRELUDE

    def coq_check(self, case, obs):
        """pair_coalescence_counts: the window spans implied by the implementation
        (un-normalised / span-normalised counts) against the port of its span bookkeeping"""
        if case["what"] != "pair_coalescence_counts" or "err" in obs:
            return None
        desc = case["desc"]
        wins = [fr(x) for x in case["wins"]]
        raw, norm = obs["raw"], obs["norm"]
        if case["windows"] in (None, "none"):
            raw, norm = [raw], [norm]
        implied = []
        for rw, nw_ in zip(raw, norm):
            v = "None"
            for a, b in zip(flatten(rw), flatten(nw_)):
                if isinstance(a, str) or isinstance(b, str) or a == 0:
                    continue
                v = "(Some %s)" % cq(rat(a) / rat(b) if b != 0 else 0)
                if b == 0:
                    # the code multiplies by 0 when its span is 0
                    v = "(Some %s)" % cq(0)
                break
            implied.append(v)
        bps = gen_ts.breakpoints(desc)
        trees = "[" + "; ".join("mkpt %s %s %s" % (cq(a), cq(b), "true" if all(p_ == NULL for p_ in gen_ts.parent_at(desc, a)) else "false")
                                for a, b in zip(bps[:-1], bps[1:])) + "]"
        return "check_spans (pcc_code_spans %s %s) [%s]" % (trees, cqlist(wins), "; ".join(implied))

    def nontrivial(self, case, obs):
        return len(case["desc"]["edges"]) > 0

    def describe(self, case, obs):
        return {"what": case["what"]}



# ---------------------------------------------------------------------------------
# Family 6: output shapes of genetic_relatedness(proportion=True) (finding C08-F1)
# ---------------------------------------------------------------------------------

class ProportionShape(Family):
    """Shape (or ValueError) of genetic_relatedness(..., proportion=True) for every
    combination of windows (None / n windows) x mode x indexes (None / one tuple / list),
    against the shape model C08.Shapes.proportion_shape and the documented shape."""
    name = "proportion_shape"
    workers = 4
    prelude = PRELUDE

    def generate(self, rng, tier):
        for rep in range(2 if tier == "quick" else 12):
            desc = gen_desc(rng, max_nodes=7, max_L=5)
            for nwin in (None, 1, 2, 3):
                for mode in ("site", "branch", "node"):
                    for idx in (None, "one", 1, 2):
                        yield {"desc": desc, "nwin": nwin, "mode": mode, "idx": idx}

    def observe(self, case):
        import numpy as np
        desc = case["desc"]
        ts = build_ts(desc)
        smp = samples_of(desc)
        sets = [smp[:1], smp[1:2] or smp[:1]]
        L = desc["L"]
        w = None if case["nwin"] is None else [L * i / case["nwin"] for i in range(case["nwin"] + 1)]
        idx = {None: None, "one": (0, 1), 1: [(0, 1)], 2: [(0, 1), (1, 1)]}[case["idx"]]
        try:
            out = ts.genetic_relatedness(sets, indexes=idx, windows=w, mode=case["mode"], proportion=True)
            return {"shape": list(np.asarray(out).shape)}
        except ValueError as e:
            return {"shape": None, "msg": str(e)[:100]}

    @staticmethod
    def documented(case):
        lead = ([] if case["nwin"] is None else [case["nwin"]]) + ([len(case["desc"]["nodes"])] if case["mode"] == "node" else [])
        return lead + ([case["idx"]] if isinstance(case["idx"], int) else [])

    def oracle(self, case, obs):
        if obs["shape"] is None:
            key = ("raises/genetic_relatedness-proportion-single-index-tuple" if case["idx"] == "one"
                   else "raises/genetic_relatedness-proportion")
            return [(key, "ValueError: %s (documented shape %r)" % (obs["msg"], self.documented(case)))]
        if obs["shape"] != self.documented(case):
            return [("shape/genetic_relatedness-proportion", "shape %r, documented %r" % (obs["shape"], self.documented(case)))]
        return []

    def coq_check(self, case, obs):
        w = "None" if case["nwin"] is None else "(Some %d%%nat)" % case["nwin"]
        idx = {None: "None", "one": "(Some (true, 1%nat))", 1: "(Some (false, 1%nat))", 2: "(Some (false, 2%nat))"}[case["idx"]]
        o = "None" if obs["shape"] is None else "(Some [%s])" % "; ".join("%d%%nat" % d for d in obs["shape"])
        return "shape_eqb (proportion_shape %s %s %d%%nat %s) %s" % (
            w, "true" if case["mode"] == "node" else "false", len(case["desc"]["nodes"]), idx, o)

    def describe(self, case, obs):
        return {"idx": case["idx"], "nwin": case["nwin"], "mode": case["mode"], "raises": obs["shape"] is None}



# ---------------------------------------------------------------------------------
# Family 7: LD r^2 (LdCalculator, ld_matrix) and tree distances (KC, Robinson-Foulds)
# ---------------------------------------------------------------------------------

def single_mutation_sites(rng, desc):
    """rewrite the mutations: exactly one non-silent mutation per site (LdCalculator's domain)"""
    d = dict(desc)
    N = len(desc["nodes"])
    d["sites"] = [[s[0], "0", ""] for s in desc["sites"]]
    d["mutations"] = [[si, rng.randrange(N), "1", NULL, None, ""] for si in range(len(d["sites"]))]
    return d


def r2_exact(F_, a, b):
    n = len(F_.samples)
    ga, _ = F_.genotype(a)
    gb, _ = F_.genotype(b)
    A = {s for s in F_.samples if ga[s] == "1"}
    B = {s for s in F_.samples if gb[s] == "1"}
    pA, pB, pAB = Fr(len(A), n), Fr(len(B), n), Fr(len(A & B), n)
    den = pA * (1 - pA) * pB * (1 - pB)
    if den == 0:
        return UNDEF
    return (pAB - pA * pB) ** 2 / den


def random_leaf_trees(rng, n, L):
    """description of a tree sequence whose trees are single-rooted, without unary nodes,
    with exactly the leaves 0..n-1 as samples (the domain of the KC distance)"""
    nodes = [[1, 0, NULL, NULL, ""] for _ in range(n)]
    nb = rng.randrange(0, min(L, 3))
    bps = [0] + sorted(rng.sample(range(1, L), nb)) + [L] if L > 1 else [0, L]
    edges = []
    for a, b in zip(bps[:-1], bps[1:]):
        roots = list(range(n))
        t = 0
        while len(roots) > 1:
            k = min(len(roots), rng.choice([2, 2, 2, 3]))
            ch = rng.sample(roots, k)
            t += rng.choice([1, 1, 2])
            p_ = len(nodes)
            nodes.append([0, t, NULL, NULL, ""])
            for c in ch:
                edges.append([a, b, p_, c, ""])
            roots = [r for r in roots if r not in ch] + [p_]
    return {"L": L, "scale": 1, "nodes": nodes, "edges": edges, "sites": [], "mutations": [],
            "individuals": [], "populations": [], "migrations": []}


def internal_sample_trees(rng, n, k, L, wide=False):
    """single-rooted trees without unary nodes over the samples 0..n-1 (leaves, time 0) and
    n..n+k-1 (INTERNAL samples, time 10*(j+1), each with >= 2 children in every tree, hence
    with sample descendants); the internal samples sit at different depths, under parents and
    roots of different ages, from tree to tree.  Other internal nodes are fresh per tree."""
    nodes = [[1, 0, NULL, NULL, ""] for _ in range(n)] + [[1, 10 * (j + 1), NULL, NULL, ""] for j in range(k)]
    nb = rng.randrange(0, min(L, 3))
    bps = [0] + sorted(rng.sample(range(1, L), nb)) + [L] if L > 1 else [0, L]
    edges = []
    for a, b in zip(bps[:-1], bps[1:]):
        roots = list(range(n))

        def fresh(ch):
            t = max(nodes[c][1] for c in ch) + rng.choice([1, 1, 2, 3])
            nodes.append([0, t, NULL, NULL, ""])
            return len(nodes) - 1
        for j in range(k):
            s_ = n + j
            remaining = k - 1 - j                               # every later sample needs >= 2 roots
            if len(roots) > 3 + remaining and rng.random() < 0.5:        # a fresh merge below the next sample
                ch = rng.sample([r for r in roots], 2)
                if max(nodes[c][1] for c in ch) + 3 < nodes[s_][1]:
                    p_ = fresh(ch)
                    edges += [[a, b, p_, c, ""] for c in ch]
                    roots = [r for r in roots if r not in ch] + [p_]
            ch = rng.sample(roots, max(2, min(len(roots) - remaining, rng.choice([3, 3, 4] if wide else [2, 2, 3]))))
            edges += [[a, b, s_, c, ""] for c in ch]
            roots = [r for r in roots if r not in ch] + [s_]
        while len(roots) > 1:
            ch = rng.sample(roots, min(len(roots), rng.choice([2, 2, 3])))
            p_ = fresh(ch)
            edges += [[a, b, p_, c, ""] for c in ch]
            roots = [r for r in roots if r not in ch] + [p_]
    return {"L": L, "scale": 1, "nodes": nodes, "edges": edges, "sites": [], "mutations": [],
            "individuals": [], "populations": [], "migrations": []}


def evolving_trees(rng, n, k, L):
    """Like internal_sample_trees, but consecutive trees differ by ONE subtree move (a node,
    preferably an internal sample, gets another older parent) and unchanged edges persist
    across the breakpoints (squashed), so that the incremental algorithms see subtrees that
    are re-attached at another depth / under a root of another age while the edges inside
    them stay.  No unary nodes, single root, same samples in every tree."""
    base = internal_sample_trees(rng, n, k, 1, wide=True)
    nodes = base["nodes"]
    N = len(nodes)
    par = [NULL] * N
    for _l, _r, p_, c, _m in base["edges"]:
        par[c] = p_
    nb = rng.randrange(0, min(L, 4))
    bps = [0] + sorted(rng.sample(range(1, L), nb)) + [L] if L > 1 else [0, L]
    forests = [list(par)]
    for _ in range(len(bps) - 2):
        par = list(par)
        for _try in range(40):
            cands = [u for u in range(N) if par[u] != NULL]
            pref = [u for u in cands if n <= u < n + k]
            u = rng.choice(pref) if pref and rng.random() < 0.6 else rng.choice(cands)
            po = par[u]
            if sum(1 for c in range(N) if par[c] == po) < 3:
                continue
            sub = {u}
            grew = True
            while grew:
                grew = False
                for c in range(N):
                    if par[c] in sub and c not in sub:
                        sub.add(c)
                        grew = True
            ws = [w for w in range(N) if w not in sub and w != po and nodes[w][1] > nodes[u][1]
                  and any(par[c] == w for c in range(N))]
            if not ws:
                continue
            par[u] = rng.choice(ws)
            break
        forests.append(list(par))
    edges = []
    for c in range(N):
        j = 0
        while j < len(forests):
            p_ = forests[j][c]
            if p_ == NULL:
                j += 1
                continue
            i2 = j
            while i2 + 1 < len(forests) and forests[i2 + 1][c] == p_:
                i2 += 1
            edges.append([bps[j], bps[i2 + 1], p_, c, ""])
            j = i2 + 1
    rng.shuffle(edges)
    d = dict(base)
    d["L"], d["edges"] = L, edges
    return d


def kc_vectors(F_, x, lam):
    """Kendall-Colijn vector of the tree at x: per sample pair (1-lam)*#edges(root..mrca) +
    lam*(t[root]-t[mrca]); per sample (1-lam)*1 + lam*pendant branch length"""
    smp = F_.samples
    par = F_.parent(x)
    v = []
    for i, a in enumerate(smp):
        for b in smp[i + 1:]:
            ca, cb = F_.chain(x, a), F_.chain(x, b)
            m = [w for w in ca if w in cb][0]
            root = ca[-1]
            depth = len(F_.chain(x, m)) - 1
            if m in (a, b):
                # one sample is an ancestor of the other: the KC paper only has leaf labels;
                # tskit gives such a pair no entry in either tree (recorded decision)
                v.append(Fr(0))
                continue
            v.append((1 - lam) * depth + lam * (F_.time[root] - F_.time[m]))
    for a in smp:
        bl = (F_.time[par[a]] - F_.time[a]) if par[a] != NULL else 0     # a sample root has no branch
        v.append((1 - lam) * 1 + lam * bl)
    return v


def clades(F_, x, drop_empty=True):
    par = F_.parent(x)
    b = below_sets(F_, x, F_.samples)
    roots = [u for u in range(F_.N) if par[u] == NULL and b[u]]      # roots subtend samples
    reach = set()
    for u in range(F_.N):
        c = F_.chain(x, u)
        if c[-1] in roots:
            reach.add(u)
    out = {frozenset(b[u]) for u in reach}
    if drop_empty:
        out.discard(frozenset())
    return out, roots


CAPACITY_SIZES = [31, 32, 33, 63, 64, 65]      # around the 32/64-bit blocks of sample bitsets


def big_leaf_desc(rng, with_sites=True):
    """round-5 class 11: a leaf tree sequence with 31..65 samples (two-locus statistics keep
    per-allele sample bitsets; k-way statistics get that many sample sets)"""
    n = rng.choice(CAPACITY_SIZES)
    d = random_leaf_trees(rng, n, rng.randrange(1, 4))
    if with_sites:
        L = d["L"]
        cand = [2 * x for x in range(L)] + [2 * x + 1 for x in range(L)]
        pos2 = sorted(rng.sample(cand, min(len(cand), rng.randrange(2, 5))))
        d["sites"] = [[p2 / 2 if p2 % 2 else p2 // 2, "0", ""] for p2 in pos2]
        d = single_mutation_sites(rng, d)
        # mutations on nodes that exist at the site (any node is legal; prefer informative ones)
    return d


def permute_pair(rng, d1, d2):
    """round-5 class 1 for tree pairs: renumber so that the shared samples (the leaves
    0..n-1 of both descriptions) are no longer the first ids and not in time order, with the
    SAME new ids in both trees: one internal node of each tree gets id 0, the leaves follow
    in a common random order, the remaining internal nodes come last in random order."""
    n = sum(1 for nd in d1["nodes"] if nd[0] & 1)
    sigma = list(range(n))
    rng.shuffle(sigma)

    def one(d):
        M = len(d["nodes"])
        internals = list(range(n, M))
        rng.shuffle(internals)
        pi = [None] * M
        for i in range(n):
            pi[i] = 1 + sigma[i]
        pi[internals[0]] = 0
        for j, u in enumerate(internals[1:]):
            pi[u] = n + 1 + j
        nodes = [None] * M
        for u in range(M):
            nodes[pi[u]] = d["nodes"][u]
        dd = dict(d)
        dd["nodes"] = nodes
        dd["edges"] = [[l, r, pi[p_], pi[c], m_] for l, r, p_, c, m_ in d["edges"]]
        dd["mutations"] = [[s_, pi[u], ds, par, t, m_] for s_, u, ds, par, t, m_ in d["mutations"]]
        return dd
    if min(len(d1["nodes"]), len(d2["nodes"])) <= n or rng.random() < 0.4:
        return d1, d2
    return one(d1), one(d2)


def decorate_unary(rng, desc):
    """A single-rooted leaf tree (random_leaf_trees, L = 1) decorated with the legal shapes
    that repeat a clade: unary chains above internal nodes, above leaves and above the root,
    and dangling sample-free siblings (which make their parent effectively unary).  The
    samples stay exactly the leaves 0..n-1, so the pair of trees keeps the same samples."""
    d = dict(desc)
    nodes = [[fl, 4 * t, a, b, m_] for fl, t, a, b, m_ in desc["nodes"]]     # room between times
    edges = [list(e) for e in desc["edges"]]
    L = desc["L"]
    for _ in range(rng.randrange(1, 5)):
        kind = rng.choice(["unary", "unary", "unary", "root", "dangling"])
        if kind == "unary" and edges:
            e = rng.choice(edges)
            par, c = e[2], e[3]
            below = c
            for step in range(rng.randrange(1, 4)):          # chain of 1..3 unary nodes
                t_new = nodes[below][1] + 1
                if t_new >= nodes[par][1]:
                    break
                w = len(nodes)
                nodes.append([0, t_new, NULL, NULL, ""])
                edges = [x for x in edges if not (x[2] == par and x[3] == below)]
                edges.append([0, L, w, below, ""])
                edges.append([0, L, par, w, ""])
                below = w
        elif kind == "root":
            children = {x[3] for x in edges}
            roots = [u for u in {x[2] for x in edges} if u not in children]
            if roots:
                r_ = roots[0]
                w = len(nodes)
                nodes.append([0, nodes[r_][1] + 1, NULL, NULL, ""])
                edges.append([0, L, w, r_, ""])
        elif kind == "dangling":
            internals = sorted({x[2] for x in edges})
            if internals:
                p_ = rng.choice(internals)
                w = len(nodes)
                nodes.append([0, max(0, nodes[p_][1] - rng.randrange(1, 4)), NULL, NULL, ""])
                if nodes[w][1] < nodes[p_][1]:
                    edges.append([0, L, p_, w, ""])
    d["nodes"], d["edges"] = nodes, edges
    return d


class LdAndDistance(Family):
    name = "ld_distance"
    workers = 8
    timeout = 60.0

    def generate(self, rng, tier):
        n = 300 if tier == "quick" else 3000
        for i in range(n):
            what = ["ld", "kc", "rf"][i % 3]
            if what == "ld":
                if i % 15 == 0:
                    desc = big_leaf_desc(rng)
                else:
                    desc = single_mutation_sites(rng, gen_desc(rng, max_nodes=9, max_L=6, max_sites=5))
                ns = len(desc["sites"])
                yield {"what": "ld", "desc": desc,
                       "a": rng.randrange(ns) if ns else 0, "direction": rng.choice([1, -1]),
                       "max_sites": rng.choice([None, 1, 2]), "max_distance": rng.choice([None, [1, 1], [3, 2], [5, 2]])}
            elif what == "kc":
                nl, L = rng.randrange(2, 6), rng.randrange(1, 6)
                if rng.random() < 0.5:
                    # internal samples with sample descendants that move between trees; both
                    # sequences have their own breakpoints; lambda never only 0
                    nl, ki = rng.randrange(4, 9), rng.randrange(1, 4)
                    nl = max(nl, 2 * ki + 3)
                    gen1 = evolving_trees if rng.random() < 0.6 else internal_sample_trees
                    gen2 = evolving_trees if rng.random() < 0.6 else internal_sample_trees
                    if rng.random() < 0.25:
                        ki = 0                       # leaf samples only, persistent edges
                    L = max(L, rng.randrange(2, 7))
                    da, db = permute_pair(rng, gen1(rng, nl, ki, L), gen2(rng, nl, ki, L))
                else:
                    da, db = permute_pair(rng, random_leaf_trees(rng, nl, L), random_leaf_trees(rng, nl, L))
                yield {"what": "kc", "desc": da, "desc2": db,
                       "lam": rng.choice([[0, 1], [1, 1], [1, 2], [1, 4]])}
            else:
                r_ = rng.random()
                if r_ < 0.25:
                    nl = rng.randrange(2, 6)
                    da, db = permute_pair(rng, random_leaf_trees(rng, nl, 1), random_leaf_trees(rng, nl, 1))
                    yield {"what": "rf", "desc": da, "desc2": db}
                elif r_ < 0.7:
                    # single-rooted pairs with unary nodes / dangling sample-free siblings:
                    # per-node clades repeat, the distance must count distinct bipartitions
                    nl = rng.randrange(2, 7)
                    a_, b_ = random_leaf_trees(rng, nl, 1), random_leaf_trees(rng, nl, 1)
                    if rng.random() < 0.3:
                        b_ = a_                      # same topology, only the decoration differs
                    da = decorate_unary(rng, a_)
                    db = decorate_unary(rng, b_) if rng.random() < 0.6 else b_
                    da, db = permute_pair(rng, da, db)
                    yield {"what": "rf", "desc": da, "desc2": db}
                else:
                    d1 = gen_desc(rng, max_nodes=8, max_L=1, max_sites=0)
                    d2 = dict(d1)
                    # same nodes (hence same samples), different random forest
                    d2["edges"] = gen_desc_like(rng, d1)
                    yield {"what": "rf", "desc": d1, "desc2": d2}

    def observe(self, case):
        import tskit
        ts = build_ts(case["desc"])
        try:
            if case["what"] == "ld":
                if ts.num_sites == 0:
                    return {"skip": True}
                ld = tskit.LdCalculator(ts)
                md = None if case["max_distance"] is None else float(fr(case["max_distance"]))
                out = {"matrix": encf(ld.r2_matrix()),
                       "array": encf(ld.r2_array(case["a"], direction=case["direction"], max_sites=case["max_sites"], max_distance=md)),
                       "pair": encf(ld.r2(case["a"], ts.num_sites - 1))}
                try:
                    out["ld_matrix"] = encf(ts.ld_matrix(stat="r2"))
                except Exception as e:
                    out["ld_matrix_err"] = "%s: %s" % (type(e).__name__, str(e)[:100])
                return out
            ts2 = build_ts(case["desc2"])
            if case["what"] == "kc":
                lam = float(fr(case["lam"]))
                return {"ts": encf(ts.kc_distance(ts2, lam)),
                        "ts_rev": encf(ts2.kc_distance(ts, lam)),
                        "trees": [encf(ts.at(x, sample_lists=True).kc_distance(ts2.at(x, sample_lists=True), lam))
                                  for x in range(case["desc"]["L"])]}
            return {"rf": int(ts.first().rf_distance(ts2.first()))}
        except Exception as e:
            return {"err": type(e).__name__, "msg": str(e)[:200]}

    def oracle(self, case, obs):
        if obs.get("skip"):
            return []
        F_ = Forests(case["desc"])
        fails = []
        if case["what"] == "ld":
            if "err" in obs:
                return [("unexpected-error/ld", "%s: %s" % (obs["err"], obs["msg"]))]
            ns = len(case["desc"]["sites"])
            M = [[(Fr(1) if i == j else r2_exact(F_, i, j)) for j in range(ns)] for i in range(ns)]
            msgs = compare(obs["matrix"], M)
            if msgs:
                fails.append(("definition/ld/r2_matrix", "; ".join(msgs[:3])))
            if "ld_matrix" in obs:
                M2 = [[r2_exact(F_, i, j) for j in range(ns)] for i in range(ns)]
                msgs = compare(obs["ld_matrix"], M2)
                if msgs:
                    fails.append(("definition/ld/ld_matrix-r2", "; ".join(msgs[:3])))
            a, d = case["a"], case["direction"]
            pos = site_positions(case["desc"])
            idxs = list(range(a + 1, ns)) if d == 1 else list(range(a - 1, -1, -1))
            exp = []
            for b in idxs:
                if case["max_sites"] is not None and len(exp) >= case["max_sites"]:
                    break
                if case["max_distance"] is not None and abs(pos[b] - pos[a]) > fr(case["max_distance"]):
                    break
                exp.append(r2_exact(F_, a, b))
            msgs = compare(obs["array"], exp)
            if msgs:
                fails.append(("definition/ld/r2_array", "; ".join(msgs[:3])))
            msgs = compare(obs["pair"], Fr(1) if a == ns - 1 else r2_exact(F_, a, ns - 1))
            if msgs and a != ns - 1:
                fails.append(("definition/ld/r2", "; ".join(msgs[:3])))
            return fails
        F2 = Forests(case["desc2"])
        if case["what"] == "kc":
            if "err" in obs:
                return [("unexpected-error/kc", "%s: %s" % (obs["err"], obs["msg"]))]
            lam = fr(case["lam"])

            def dist(x):
                v1, v2 = kc_vectors(F_, x, lam), kc_vectors(F2, x, lam)
                return math.sqrt(float(sum((p_ - q) ** 2 for p_, q in zip(v1, v2))))
            L = case["desc"]["L"]
            exp_ts = sum(dist(x) for x in range(L)) / L
            for x in range(L):
                if abs(obs["trees"][x] - dist(x)) > TOL * max(1.0, dist(x)):
                    fails.append(("definition/kc/tree", "tree pair at %d: got %r expected %r" % (x, obs["trees"][x], dist(x))))
                    break
            for nm in ("ts", "ts_rev"):
                if abs(obs[nm] - exp_ts) > TOL * max(1.0, exp_ts):
                    key = "definition/kc/tree-sequence"
                    # finding C08-F6: exactly the code's handling of the per-sample entries?
                    port = self.kc_ts_port(case, F_, F2, lam)
                    if self.has_sample_root(F_, F2, L) and abs(obs[nm] - port) <= TOL * max(1.0, port):
                        key = "kc/tree-sequence/stale-entries-of-internal-samples"
                    fails.append((key, "%s: got %r, span-weighted mean of the per-tree distances %r" % (nm, obs[nm], exp_ts)))
                    break
            return fails
        c1, r1 = clades(F_, 0)
        c2, r2 = clades(F2, 0)
        if len(r1) != 1 or len(r2) != 1:
            if obs.get("err") != "ValueError":
                fails.append(("rf/multiple-roots-accepted", "roots %r %r: %r" % (r1, r2, obs)))
            return fails
        if "err" in obs:
            return [("unexpected-error/rf", "%s: %s" % (obs["err"], obs["msg"]))]
        if obs["rf"] != len(c1 ^ c2):
            e1, _ = clades(F_, 0, drop_empty=False)
            e2, _ = clades(F2, 0, drop_empty=False)
            key = "rf/empty-clade-of-sampleless-subtree" if obs["rf"] == len(e1 ^ e2) else "definition/rf"
            fails.append((key, "rf_distance = %d, symmetric difference of the sample bipartitions = %d" % (obs["rf"], len(c1 ^ c2))))
        return fails

    @staticmethod
    def has_sample_root(F1, F2, L):
        """does some tree have a sample that is a root or an ancestor of another sample?"""
        for F in (F1, F2):
            for x in range(L):
                par = F.parent(x)
                for s_ in F.samples:
                    if par[s_] == NULL or any(w in F.samples for w in F.chain(x, s_)[1:]):
                        return True
        return False

    @staticmethod
    def kc_ts_port(case, F1, F2, lam):
        """NOT the definition: the entries that Tree.kc_distance leaves at 0 - the pair of a
        sample with its own sample descendant, and the per-sample entry of a sample that has
        no parent - are never written (nor reset) by the incremental update behind
        TreeSequence.kc_distance (update_kc_incremental / update_kc_pair_with_sample,
        c/tskit/trees.c 7686-7790): they keep the value of an earlier tree, or 0.  Used only
        to recognise finding C08-F6."""
        L = case["desc"]["L"]
        total = 0.0
        pend = [dict(), dict()]
        pairs = [dict(), dict()]
        for x in range(L):
            vecs = []
            for i, F in enumerate((F1, F2)):
                par = F.parent(x)
                edges_here = {(e[2], e[3]) for e in F.desc["edges"] if e[0] == x}
                smp = F.samples
                cur = kc_vectors(F, x, lam)
                kk = 0
                v = []
                for ia, a in enumerate(smp):
                    for b in smp[ia + 1:]:
                        ca, cb = F.chain(x, a), F.chain(x, b)
                        if not (a in cb or b in ca):
                            pairs[i][(a, b)] = cur[kk]
                        v.append(pairs[i].get((a, b), Fr(0)))
                        kk += 1
                for s_ in smp:
                    if par[s_] != NULL and (par[s_], s_) in edges_here:
                        pend[i][s_] = (1 - lam) * 1 + lam * (F.time[par[s_]] - F.time[s_])
                    v.append(pend[i].get(s_, Fr(0)))
                vecs.append(v)
            total += math.sqrt(float(sum((p_ - q) ** 2 for p_, q in zip(*vecs))))
        return total / L

    prelude = PRELUDE

    def coq_check(self, case, obs):
        if case["what"] == "kc" and "ts" in obs:
            # per tree pair: the exact squared KC distance of the model against the square of
            # the implementation's value; tree-sequence level: span-weighted mean of the
            # implementation's per-tree values (both within 1e-9)
            d1, d2 = case["desc"], case["desc2"]
            lam = cq(fr(case["lam"]))
            smp = czl(samples_of(d1))
            tol = "(1 # 1000000000)"
            terms = []
            for x in range(d1["L"]):
                terms.append("qclose %s (kc2 %s %s %s %s %s %s) %s" % (
                    tol, lam, czl(gen_ts.parent_at(d1, x)), czl(gen_ts.parent_at(d2, x)),
                    coq_times(d1), coq_times(d2), smp, cq(Fr(obs["trees"][x]) ** 2)))
            F1, F2 = Forests(d1), Forests(d2)
            if not self.has_sample_root(F1, F2, d1["L"]):
                segs = "[" + "; ".join("mkks %s %s %s" % (cq(x), cq(x + 1), cq(Fr(obs["trees"][x]))) for x in range(d1["L"])) + "]"
                terms.append("qclose %s (kc_ts %s %s) %s" % (tol, segs, cq(d1["L"]), cq(Fr(obs["ts"]))))
            return " && ".join(terms)
        return self.coq_check_rf(case, obs)

    def coq_check_rf(self, case, obs):
        """rf_distance against the model of the code (which counts the empty sample set of a
        sample-less subtree, finding C08-F4)"""
        if case["what"] != "rf" or "rf" not in obs:
            return None
        d1, d2 = case["desc"], case["desc2"]
        return "(rf_code %s %s %s =? %d%%Z)%%Z" % (czl(gen_ts.parent_at(d1, 0)), czl(gen_ts.parent_at(d2, 0)),
                                                 czl(samples_of(d1)), obs["rf"])

    def describe(self, case, obs):
        return {"what": case["what"]}


def gen_desc_like(rng, d1):
    """another random forest over the nodes of d1 on [0,1)"""
    times = [nd[1] for nd in d1["nodes"]]
    n = len(times)
    edges = []
    for u in range(n):
        older = [v for v in range(n) if times[v] > times[u]]
        if older and rng.random() > 0.2:
            older.sort(key=lambda v: (times[v], v))
            edges.append([0, d1["L"], older[min(int(rng.expovariate(0.7)), len(older) - 1)], u, ""])
    return edges


FAMILIES = [GeneralStat, NamedStat, AFS, Matrix, Dedicated, ProportionShape, LdAndDistance]
