"""C14 — subset and union.

Families
  subset   valid ts (no migrations) x node list x reorder_populations x remove_unreferenced,
           observed at three levels: the C function (low-level tables, no sort), the
           TableCollection wrapper (adds sort) and TreeSequence.subset.
  union    self/other built as two (reference-)subsets of one ts, optionally perturbed in the
           shared portion; x check_shared_equality x add_populations.
  inverse  covers in the shape the quantifier describes (shared = all nodes with time >= cut,
           young nodes split by connected component): union(subset A, subset B) vs original.
  malformed  node ids out of range, migrations present, bad node_mapping.

The oracles are written from the property text / the documentation of
TreeSequence.subset / union only (ref_subset / ref_union below are executable readings of
that text on plain Python lists); they never look at tables.c.  The Coq terms compare the
Gallina model of tables.c (coq/theories/C14/Model.v) with the raw C output.
"""
import itertools
import random

from harness.runner import Family
from harness import gen_ts

NULL = -1

# ---------------------------------------------------------------------------------------
# plain-list view of a table collection ("T"): every value an int, a list of ints or a hex
# string; genome coordinates are reported on the doubled integer lattice of the description
# (gen_ts puts sites on half-integers), so no float survives into an observation.
# ---------------------------------------------------------------------------------------

TABLES = ("nodes", "edges", "sites", "mutations", "individuals", "populations")


def _coord(x, scale):
    v = x / scale * 2
    r = int(round(v))
    assert abs(v - r) < 1e-6, (x, scale)
    return r


def _t(x):
    r = int(round(x))
    assert r == x
    return r


def dump(tc, scale):
    import tskit
    out = {"L": _coord(tc.sequence_length, scale)}
    out["nodes"] = [[int(r.flags), _t(r.time), int(r.population), int(r.individual), bytes(r.metadata).hex()]
                    for r in tc.nodes]
    out["edges"] = [[_coord(r.left, scale), _coord(r.right, scale), int(r.parent), int(r.child),
                     bytes(r.metadata).hex()] for r in tc.edges]
    out["sites"] = [[_coord(r.position, scale), r.ancestral_state.encode().hex(), bytes(r.metadata).hex()]
                    for r in tc.sites]
    out["mutations"] = [[int(r.site), int(r.node), r.derived_state.encode().hex(), int(r.parent),
                         None if tskit.is_unknown_time(r.time) else _t(r.time), bytes(r.metadata).hex()]
                        for r in tc.mutations]
    out["individuals"] = [[int(r.flags), [_t(x) for x in r.location], [int(x) for x in r.parents],
                           bytes(r.metadata).hex()] for r in tc.individuals]
    out["populations"] = [[bytes(r.metadata).hex()] for r in tc.populations]
    return out


def undump(T, scale):
    """Plain-list view -> TableCollection (rows in the given order, no sort)."""
    import tskit
    s = scale
    tc = tskit.TableCollection(T["L"] * s / 2)
    for m, in T["populations"]:
        tc.populations.add_row(metadata=bytes.fromhex(m))
    for fl, loc, par, m in T["individuals"]:
        tc.individuals.add_row(flags=fl, location=loc, parents=par, metadata=bytes.fromhex(m))
    for fl, t, p, i, m in T["nodes"]:
        tc.nodes.add_row(flags=fl, time=t, population=p, individual=i, metadata=bytes.fromhex(m))
    for l, r, p, c, m in T["edges"]:
        tc.edges.add_row(l * s / 2, r * s / 2, p, c, metadata=bytes.fromhex(m))
    for pos, a, m in T["sites"]:
        tc.sites.add_row(pos * s / 2, bytes.fromhex(a).decode(), metadata=bytes.fromhex(m))
    for site, node, d, par, t, m in T["mutations"]:
        tc.mutations.add_row(site, node, bytes.fromhex(d).decode(), parent=par,
                             time=tskit.UNKNOWN_TIME if t is None else t, metadata=bytes.fromhex(m))
    return tc


def desc_tables(desc):
    """The *sorted* input tables of a description, as the implementation sees them."""
    tc = gen_ts.build_tables(desc, sort=True, index=False)
    return dump(tc, desc.get("scale", 1))


def exc(e):
    s = str(e)
    code = s[s.rfind("(") + 1:s.rfind(")")] if "(TSK_ERR" in s else ""
    return {"error": type(e).__name__, "code": code}


# ---------------------------------------------------------------------------------------
# Executable reading of the property text (documentation of TreeSequence.subset):
#   nodes: the listed nodes in the listed order; edges: both ends listed; mutations: node
#   listed, with their sites; individuals / populations: the referenced ones (or all);
#   ids remapped, everything else in a row unchanged, relative order of rows kept.
# Documented order of retained populations: by the earliest retained node referring to
# them, unreferenced kept ones at the end; reorder_populations=False: table untouched.
# Individuals: the text fixes no order; the retained individuals keep their original
# relative order (what the implementation does; the oracle states it as `ind_order`).
# A parent reference of a retained individual to an individual that is not retained cannot
# be remapped; the entry is removed from the parents list (implementation behaviour,
# recorded in notes/C14.md as an observation).
# Duplicated node ids: the node row is emitted once per occurrence; references are
# remapped to the LAST occurrence (observed behaviour; the text is silent).
# ---------------------------------------------------------------------------------------

def ref_subset(T, nodes, reorder_populations=True, remove_unreferenced=True):
    n = len(T["nodes"])
    if any(u < 0 or u >= n for u in nodes):
        return None
    node_map = {}
    for k, u in enumerate(nodes):
        node_map[u] = k
    ref_inds = {T["nodes"][u][3] for u in nodes} - {NULL}
    keep_inds = [i for i in range(len(T["individuals"])) if (not remove_unreferenced) or i in ref_inds]
    ind_map = {i: k for k, i in enumerate(keep_inds)}
    ind_map[NULL] = NULL
    if not reorder_populations:
        keep_pops = list(range(len(T["populations"])))
    else:
        keep_pops = []
        for u in nodes:
            p = T["nodes"][u][2]
            if p != NULL and p not in keep_pops:
                keep_pops.append(p)
        if not remove_unreferenced:
            keep_pops += [p for p in range(len(T["populations"])) if p not in keep_pops]
    pop_map = {p: k for k, p in enumerate(keep_pops)}
    pop_map[NULL] = NULL
    out = {"L": T["L"]}
    out["populations"] = [list(T["populations"][p]) for p in keep_pops]
    out["individuals"] = []
    for i in keep_inds:
        fl, loc, par, m = T["individuals"][i]
        out["individuals"].append([fl, list(loc), [ind_map[p] for p in par if p in ind_map], m])
    out["nodes"] = []
    for u in nodes:
        fl, t, p, i, m = T["nodes"][u]
        out["nodes"].append([fl, t, pop_map[p], ind_map[i], m])
    out["edges"] = [[l, r, node_map[p], node_map[c], m] for l, r, p, c, m in T["edges"]
                    if p in node_map and c in node_map]
    keep_muts = [j for j, mu in enumerate(T["mutations"]) if mu[1] in node_map]
    mut_map = {j: k for k, j in enumerate(keep_muts)}
    ref_sites = {T["mutations"][j][0] for j in keep_muts}
    keep_sites = [s for s in range(len(T["sites"])) if (not remove_unreferenced) or s in ref_sites]
    site_map = {s: k for k, s in enumerate(keep_sites)}
    out["sites"] = [list(T["sites"][s]) for s in keep_sites]
    out["mutations"] = []
    for j in keep_muts:
        site, node, d, par, t, m = T["mutations"][j]
        out["mutations"].append([site_map[site], node_map[node], d, mut_map.get(par, NULL), t, m])
    return out


def sort_key_edge(T):
    return lambda e: (T["nodes"][e[2]][1], e[2], e[3], e[0])


def is_sorted(xs, key):
    ks = [key(x) for x in xs]
    return all(a <= b for a, b in zip(ks, ks[1:]))


def mut_desc(T, j, depth=0):
    """Structural description of a mutation: own data, its site's position, and the chain of
    parents.  Independent of row ids, so two tables that differ only in the order of rows
    give the same multiset of descriptions."""
    if j == NULL:
        return None
    site, node, d, par, t, m = T["mutations"][j]
    if depth > len(T["mutations"]):
        return ("cycle",)
    return (T["sites"][site][0], node, d, t, m, mut_desc(T, par, depth + 1))


def struct_view(T, level="full"):
    """Order-free view used for 'equal up to the order of rows'.  level "full": populations and
    individuals are inlined into the nodes that refer to them (so unreferenced ones and the
    numbering are invisible); level "topo": node rows without population / individual."""
    def ind_desc(i, depth=0):
        if i == NULL:
            return None
        if depth > len(T["individuals"]):
            return ("cycle",)
        fl, loc, par, m = T["individuals"][i]
        return (fl, tuple(loc), tuple(ind_desc(p, depth + 1) for p in par), m)

    if level == "full":
        nodes = [(fl, t, None if p == NULL else tuple(T["populations"][p]), ind_desc(i), m)
                 for fl, t, p, i, m in T["nodes"]]
        groups = sorted(tuple(sorted(u for u, nd in enumerate(T["nodes"]) if nd[3] == i))
                        for i in range(len(T["individuals"])))
        groups = [g for g in groups if g]
    else:
        nodes = [(fl, t, m) for fl, t, p, i, m in T["nodes"]]
        groups = []
    return {
        "L": T["L"],
        "nodes": nodes,
        "ind_groups": groups,
        "edges": sorted(map(tuple, T["edges"])),
        "sites": sorted(tuple(s) for s in T["sites"]),
        "mutations": sorted((mut_desc(T, j) for j in range(len(T["mutations"]))), key=repr),
    }


def relabel_nodes(T, new_of_old):
    """Renumber nodes: row u of T becomes row new_of_old[u] (a permutation)."""
    out = {k: ([[x if not isinstance(x, list) else list(x) for x in r] for r in v] if k != "L" else v)
           for k, v in T.items()}
    nodes = [None] * len(T["nodes"])
    for u, nd in enumerate(T["nodes"]):
        nodes[new_of_old[u]] = list(nd)
    out["nodes"] = nodes
    for e in out["edges"]:
        e[2], e[3] = new_of_old[e[2]], new_of_old[e[3]]
    for m in out["mutations"]:
        m[1] = new_of_old[m[1]]
    return out


def referenced_only(T):
    """Drop unreferenced sites / individuals / populations (what canonicalise() removes)."""
    return ref_subset(T, list(range(len(T["nodes"]))), True, True)


def parent_at(T, x2):
    par = {}
    for l, r, p, c, _m in T["edges"]:
        if l <= x2 < r:
            par[c] = p
    return par


def expected_mutation_parents(T):
    """Definition (data model): the parent of a mutation is the next mutation met going up the
    tree at the site from the mutation's node; among several mutations on one node a later row
    is below an earlier one."""
    out = []
    by_site = {}
    for j, mu in enumerate(T["mutations"]):
        by_site.setdefault(mu[0], []).append(j)
    for j, mu in enumerate(T["mutations"]):
        site, node = mu[0], mu[1]
        same = [k for k in by_site[site] if k < j and T["mutations"][k][1] == node]
        if same:
            out.append(same[-1])
            continue
        par = parent_at(T, T["sites"][site][0])
        u = par.get(node, NULL)
        found = NULL
        steps = 0
        while u != NULL and steps <= len(T["nodes"]):
            on = [k for k in by_site[site] if T["mutations"][k][1] == u]
            if on:
                found = on[-1]
                break
            u = par.get(u, NULL)
            steps += 1
        out.append(found)
    return out


# ---------------------------------------------------------------------------------------
# Reading of the union documentation, before the final sort:
#   nodes of other mapped to NULL are appended in order; with add_populations each distinct
#   population of a new node becomes a new population (first-use order) else the id is kept;
#   individuals of new nodes that are not already identified through a shared node are
#   appended (first-use order), parents remapped (NULL when unknown); edges with a new
#   parent or child are appended; mutations on new nodes are appended, with their site unless
#   a site at that position exists.  Then: sort, one site per position, parents recomputed.
# ---------------------------------------------------------------------------------------

def ref_union_raw(S, O, mapping, add_populations=True):
    out = {k: [list(r) if not isinstance(r, list) else [x if not isinstance(x, list) else list(x) for x in r]
               for r in S[k]] for k in TABLES}
    out["L"] = S["L"]
    node_map, ind_map, pop_map = {}, {NULL: NULL}, {NULL: NULL}
    for k, nd in enumerate(O["nodes"]):
        if mapping[k] != NULL and nd[3] != NULL:
            ind_map[nd[3]] = S["nodes"][mapping[k]][3]
    n_ind_self = len(S["individuals"])
    for k, nd in enumerate(O["nodes"]):
        if mapping[k] != NULL:
            node_map[k] = mapping[k]
            continue
        fl, t, p, i, m = nd
        if i != NULL and ind_map.get(i, NULL) == NULL:
            ind_map[i] = len(out["individuals"])
            r = O["individuals"][i]
            out["individuals"].append([r[0], list(r[1]), list(r[2]), r[3]])
        if p != NULL:
            if not add_populations:
                pop_map[p] = p
            elif p not in pop_map:
                pop_map[p] = len(out["populations"])
                out["populations"].append(list(O["populations"][p]))
        node_map[k] = len(out["nodes"])
        out["nodes"].append([fl, t, pop_map[p], ind_map.get(i, NULL) if i != NULL else NULL, m])
    for r in out["individuals"][n_ind_self:]:
        r[2] = [ind_map.get(p, NULL) for p in r[2]]
    for l, r, p, c, m in O["edges"]:
        if mapping[p] == NULL or mapping[c] == NULL:
            out["edges"].append([l, r, node_map[p], node_map[c], m])
    site_map = {}
    for j, (site, node, d, par, t, m) in enumerate(O["mutations"]):
        if mapping[node] == NULL:
            if site not in site_map:
                site_map[site] = len(out["sites"])
                out["sites"].append(list(O["sites"][site]))
            out["mutations"].append([site_map[site], node_map[node], d, NULL, t, m])
    return out


def canon_sites_mutations(T):
    """sort sites by position (first row of a position wins), mutations follow their site; order
    of mutations inside a site: time (known, descending) then original order."""
    order = sorted(range(len(T["sites"])), key=lambda s: (T["sites"][s][0], s))
    new_sites, smap = [], {}
    for s in order:
        if new_sites and new_sites[-1][0] == T["sites"][s][0]:
            smap[s] = len(new_sites) - 1
        else:
            smap[s] = len(new_sites)
            new_sites.append(list(T["sites"][s]))
    return new_sites, smap


# ---------------------------------------------------------------------------------------
# generators
# ---------------------------------------------------------------------------------------

def scramble_individuals(desc, rng):
    """Permute the individual table (so a parent may be listed AFTER its child), add parent links
    in both directions of the table order and a few unreferenced individuals in between."""
    inds = [list(r) for r in desc["individuals"]]
    n = len(inds)
    for _ in range(rng.randrange(0, 3)):
        inds.insert(rng.randrange(len(inds) + 1) if inds else 0, None)      # placeholders = new rows
    # positions of the old rows after insertion
    old_pos = [k for k, r in enumerate(inds) if r is not None]
    order = list(range(len(inds)))
    rng.shuffle(order)                                   # new row k holds old slot order[k]
    where = {slot: k for k, slot in enumerate(order)}
    rows = []
    for k, slot in enumerate(order):
        r = inds[slot]
        if r is None:
            r = [rng.randrange(0, 4), [rng.randrange(-3, 4) for _ in range(rng.randrange(0, 2))], [], gen_ts.hx(rng)]
        else:
            r = [r[0], list(r[1]), [where[old_pos[p]] if p != NULL else NULL for p in r[2]], r[3]]
        rows.append(r)
    # extra parent links that respect no table order (but keep the relation acyclic: only from a
    # row to rows of smaller ORIGINAL slot number — the direction gen_ts uses —, which the shuffle
    # scatters over the table)
    for k, slot in enumerate(order):
        later = [where[s2] for s2 in range(0, slot)]
        if later and rng.random() < 0.5:
            rows[k][2] = rows[k][2] + [rng.choice(later)]
    d = dict(desc)
    d["individuals"] = rows
    d["nodes"] = [[nd[0], nd[1], nd[2], (where[old_pos[nd[3]]] if nd[3] != NULL else NULL), nd[4]]
                  for nd in desc["nodes"]]
    return d


def gen_desc(rng, max_nodes=8):
    d = gen_ts.random_desc(rng, max_nodes=max_nodes, migrations=False)
    if rng.random() < 0.5:
        d = scramble_individuals(d, rng)
    if rng.random() < 0.3:          # application-defined flag bits next to the sample bit
        d = dict(d)
        d["nodes"] = [[nd[0] | rng.choice([0, 1 << 16, 1 << 19, (1 << 31) | (1 << 7)]), nd[1], nd[2], nd[3], nd[4]]
                      for nd in d["nodes"]]
    return d


def big_star_desc(rng, k):
    """k >= 256 children under one root (8-bit counters), two populations, one individual each 3 nodes."""
    nodes = [[1, 0, u % 2, (u // 3) if u % 5 else NULL, gen_ts.hx(rng)] for u in range(k)] + [[0, 1, 0, NULL, ""]]
    edges = [[0, 2, k, u, gen_ts.hx(rng)] for u in range(k)]
    sites = [[1, "A", ""]]
    muts = [[0, u, "T", NULL, None, ""] for u in range(0, k, 37)]
    inds = [[0, [], [], gen_ts.hx(rng)] for _ in range(k // 3 + 1)]
    return {"L": 2, "scale": 1, "nodes": nodes, "edges": edges, "sites": sites, "mutations": muts,
            "individuals": inds, "populations": [["01"], ["02"]], "migrations": []}


def time_consistent_individuals(desc, rng):
    """Reassign individuals so that all nodes of an individual have one time and the parents of
    an individual are referenced only by strictly older nodes (or by no node at all).  This is
    the situation the quantifier's 'shared ancestral portion' presupposes: the set of nodes
    with time >= cut is closed under 'parent individual'."""
    nodes = desc["nodes"]
    times = sorted({nd[1] for nd in nodes})
    inds, node_ind = [], [NULL] * len(nodes)
    ind_time = []
    for t in times:
        us = [u for u, nd in enumerate(nodes) if nd[1] == t]
        rng.shuffle(us)
        while us:
            if rng.random() < 0.35:
                us.pop()
                continue
            k = rng.choice([1, 2, 2, 3])
            grp, us = us[:k], us[k:]
            for u in grp:
                node_ind[u] = len(inds)
            inds.append(None)
            ind_time.append(t)
    # a few unreferenced individuals
    for _ in range(rng.randrange(0, 2)):
        inds.append(None)
        ind_time.append(None)
    order = list(range(len(inds)))
    rng.shuffle(order)                      # table order unrelated to time
    pos = {old: new for new, old in enumerate(order)}
    rows = [None] * len(inds)
    for old in range(len(inds)):
        if ind_time[old] is None:      # unreferenced: only earlier unreferenced ones (no cycles)
            cand = [j for j in range(old) if ind_time[j] is None]
        else:                          # referenced: strictly older or unreferenced
            cand = [j for j in range(len(inds)) if ind_time[j] is None or ind_time[j] > ind_time[old]]
        par = []
        for _ in range(rng.randrange(0, 3)):
            par.append(pos[rng.choice(cand)] if cand and rng.random() < 0.8 else NULL)
        rows[pos[old]] = [rng.randrange(0, 4), [rng.randrange(-3, 4) for _ in range(rng.randrange(0, 3))],
                          par, gen_ts.hx(rng)]
    d = dict(desc)
    d["individuals"] = rows
    d["nodes"] = [[nd[0], nd[1], nd[2], (pos[node_ind[u]] if node_ind[u] != NULL else NULL), nd[4]]
                  for u, nd in enumerate(nodes)]
    return d


def cover_of(T, rng, cut):
    """(A, B): node lists.  shared = time >= cut; young nodes split by connected component of the
    graph linking young nodes joined by an edge, by a common individual, or by individuals one
    of which names the other as a parent."""
    n = len(T["nodes"])
    shared = [u for u in range(n) if T["nodes"][u][1] >= cut]
    young = [u for u in range(n) if T["nodes"][u][1] < cut]
    comp = {u: u for u in young}

    def find(u):
        while comp[u] != u:
            comp[u] = comp[comp[u]]
            u = comp[u]
        return u

    def link(a, b):
        if a in comp and b in comp:
            comp[find(a)] = find(b)

    for _l, _r, p, c, _m in T["edges"]:
        link(p, c)
    by_ind = {}
    for u in range(n):
        i = T["nodes"][u][3]
        if i != NULL:
            by_ind.setdefault(i, []).append(u)
    for i, us in by_ind.items():
        for a in us[1:]:
            link(us[0], a)
        for p in T["individuals"][i][2]:
            if p != NULL:
                for a in by_ind.get(p, []):
                    link(us[0], a)
    groups = {}
    for u in young:
        groups.setdefault(find(u), []).append(u)
    g1, g2 = [], []
    for g in groups.values():
        (g1 if rng.random() < 0.5 else g2).extend(g)
    A, B = shared + g1, shared + g2
    return A, B


def mapping_of(A, B):
    ia = {u: k for k, u in enumerate(A)}
    return [ia.get(u, NULL) for u in B]


# ---------------------------------------------------------------------------------------
# Coq term printing (model side)
# ---------------------------------------------------------------------------------------

def cz(n):
    n = int(n)
    return "(%d)" % n if n < 0 else "%d" % n


def czl(xs):
    return "[" + ";".join(cz(x) for x in xs) + "]"


def chex(h):
    return czl(bytes.fromhex(h))


def ctime(t):
    return "None" if t is None else "(Some %s)" % cz(t)


def coq_tables(T):
    nodes = "[" + ";".join("mkN %s %s %s %s %s" % (cz(fl), cz(t), cz(p), cz(i), chex(m))
                           for fl, t, p, i, m in T["nodes"]) + "]"
    edges = "[" + ";".join("mkE %s %s %s %s %s" % (cz(l), cz(r), cz(p), cz(c), chex(m))
                           for l, r, p, c, m in T["edges"]) + "]"
    sites = "[" + ";".join("mkS %s %s %s" % (cz(p), chex(a), chex(m)) for p, a, m in T["sites"]) + "]"
    muts = "[" + ";".join("mkM %s %s %s %s %s %s" % (cz(s), cz(u), chex(d), cz(par), ctime(t), chex(m))
                          for s, u, d, par, t, m in T["mutations"]) + "]"
    inds = "[" + ";".join("mkI %s %s %s %s" % (cz(fl), czl(loc), czl(par), chex(m))
                          for fl, loc, par, m in T["individuals"]) + "]"
    pops = "[" + ";".join("mkP %s" % chex(m) for m, in T["populations"]) + "]"
    return "(mkT %s %s %s %s %s %s)" % (nodes, edges, sites, muts, inds, pops)


PRELUDE = ("From TskVerif Require Import Base.Common C14.Model.\n"
           "Open Scope Z_scope.")

_CODES = {}


def err_code(name):
    """Numeric value of a TSK_ERR_* name, read from the core.h of the tree under test."""
    if not _CODES:
        import os
        import re
        from harness import common
        src = open(os.path.join(common.REPO, "c", "tskit", "core.h")).read()
        for m in re.finditer(r"^#define\s+(TSK_ERR_\w+)\s+\(?(-\d+)\)?\s*$", src, re.M):
            _CODES[m.group(1)] = int(m.group(2))
    return _CODES.get(name)


def coq_expect_error(call, err):
    """model must fail; with the same library error code when the implementation named one"""
    code = err_code(err.get("code", "")) if isinstance(err, dict) else None
    if code is None:
        return "negb (is_ok (%s))" % call
    return "res_err_is (%s) %s" % (call, cz(code))


# ---------------------------------------------------------------------------------------
# Family: subset
# ---------------------------------------------------------------------------------------

def table_diff(exp, got, tables=TABLES):
    for t in tables:
        if exp[t] != got[t]:
            k = next((i for i, (a, b) in enumerate(zip(exp[t], got[t])) if a != b), min(len(exp[t]), len(got[t])))
            return t, "%s differ at row %d: expected %r, got %r (lengths %d/%d)" % (
                t, k, exp[t][k] if k < len(exp[t]) else None, got[t][k] if k < len(got[t]) else None,
                len(exp[t]), len(got[t]))
    return None


def check_sorted_equiv(exp, got, what):
    """got is exp after sort(): nodes/individuals/populations identical, edges/sites/mutations the
    same content (ids followed) in the required order."""
    fails = []
    d = table_diff(exp, got, ("nodes", "individuals", "populations"))
    if d:
        fails.append(("%s-%s" % (what, d[0]), d[1]))
    if sorted(map(tuple, exp["edges"])) != sorted(map(tuple, got["edges"])):
        fails.append((what + "-edges", "edge multiset differs: %r vs %r" % (exp["edges"], got["edges"])))
    elif not is_sorted(got["edges"], sort_key_edge(got)):
        fails.append((what + "-edge-order", "edges not sorted by (time[parent], parent, child, left)"))
    if sorted(map(tuple, exp["sites"])) != sorted(map(tuple, got["sites"])):
        fails.append((what + "-sites", "site multiset differs"))
    elif not is_sorted(got["sites"], lambda s: s[0]):
        fails.append((what + "-site-order", "sites not sorted by position"))
    me = sorted((mut_desc(exp, j) for j in range(len(exp["mutations"]))), key=repr)
    mg = sorted((mut_desc(got, j) for j in range(len(got["mutations"]))), key=repr)
    if me != mg:
        fails.append((what + "-mutations", "mutation content differs: %r vs %r" % (me, mg)))
    elif not is_sorted(got["mutations"], lambda m: m[0]):
        fails.append((what + "-mutation-order", "mutations not grouped by site"))
    return fails


class Subset(Family):
    name = "subset"
    prelude = PRELUDE
    workers = 8
    shard = 200

    def generate(self, rng, tier):
        big = tier != "quick"
        # exhaustive: every list of distinct nodes of a small ts, all four flag combinations
        for n_small, count in ((3, 2), (4, 2 if not big else 6), (5, 0 if not big else 3)):
            for _ in range(count):
                d = None
                for _try in range(200):
                    d = gen_desc(rng, max_nodes=n_small)
                    if len(d["nodes"]) == n_small and d["edges"] and (d["mutations"] or _try > 100):
                        break
                for k in range(n_small + 1):
                    for nodes in itertools.permutations(range(n_small), k):
                        for rp in (True, False):
                            for ru in (True, False):
                                yield {"desc": d, "nodes": list(nodes), "rp": rp, "ru": ru,
                                       "form": rng.choice(FORMS)}
        for k in ((300,) if not big else (300, 257, 700)):
            d = big_star_desc(rng, k)
            for nodes in (list(range(k + 1)), list(range(k, -1, -1)), list(range(0, k + 1, 2)) + [k],
                          rng.sample(range(k + 1), min(260, k))):
                yield {"desc": d, "nodes": nodes, "rp": rng.random() < 0.5, "ru": rng.random() < 0.5,
                       "form": rng.choice(["int32", "strided", "col2d", "reversed", "int64", "list"])}
        for _ in range(500 if not big else 6000):
            d = gen_desc(rng, max_nodes=rng.choice([4, 6, 8, 8, 12]))
            n = len(d["nodes"])
            r = rng.random()
            if r < 0.1:
                nodes = list(range(n))
            elif r < 0.15:
                nodes = []
            elif r < 0.3:
                nodes = list(range(n))
                rng.shuffle(nodes)
            elif r < 0.45 and n:                               # duplicates
                nodes = [rng.randrange(n) for _ in range(rng.randrange(1, n + 3))]
            elif r < 0.6 and n:                                # ancestral portion
                cut = rng.choice(sorted({nd[1] for nd in d["nodes"]}))
                nodes = [u for u in range(n) if d["nodes"][u][1] >= cut]
            else:
                nodes = rng.sample(range(n), rng.randrange(0, n + 1)) if n else []
            yield {"desc": d, "nodes": nodes, "rp": rng.random() < 0.6, "ru": rng.random() < 0.6,
                   "form": rng.choice(FORMS)}

    def observe(self, case):
        d = case["desc"]
        scale = d.get("scale", 1)
        tc = gen_ts.build_tables(d, sort=True, index=False)
        obs = {"input": dump(tc, scale)}
        form = case.get("form", "list")
        arg = lambda: as_form(case["nodes"], form, int(tc.nodes.num_rows))
        t = tc.copy()
        try:
            # the C binding itself: every form it accepts (lists and any integer array layout)
            # (an int64 array is not a safe cast to int32 for the binding: the public wrappers convert)
            t._ll_tables.subset(arg() if form != "int64" else _i32(case["nodes"]),
                                reorder_populations=case["rp"], remove_unreferenced=case["ru"])
            obs["ll"] = dump(t, scale)
        except Exception as e:
            obs["ll"] = exc(e)
        t = tc.copy()
        try:
            t.subset(arg(), record_provenance=False, reorder_populations=case["rp"],
                     remove_unreferenced=case["ru"])
            obs["tc"] = dump(t, scale)
        except Exception as e:
            obs["tc"] = exc(e)
        try:
            ts = tc.tree_sequence()
            ts2 = ts.subset(arg(), reorder_populations=case["rp"], remove_unreferenced=case["ru"])
            obs["ts"] = dump(ts2.dump_tables(), scale)
            obs["ts_prov"] = ts2.num_provenances - ts.num_provenances
        except Exception as e:
            obs["ts"] = exc(e)
        return obs

    def oracle(self, case, obs):
        I = obs["input"]
        nodes, rp, ru = case["nodes"], case["rp"], case["ru"]
        dup = "dup-" if len(set(nodes)) != len(nodes) else ""
        exp = ref_subset(I, nodes, rp, ru)
        fails = []
        if exp is None:
            for api in ("ll", "tc", "ts"):
                if "error" not in obs[api]:
                    fails.append(("out-of-range-accepted-" + api, "node list %r accepted" % (nodes,)))
            return fails
        for api in ("ll", "tc", "ts"):
            if "error" in obs[api]:
                fails.append((dup + "refused-" + api, "valid call refused: %r" % (obs[api],)))
        if "error" not in obs["ll"]:
            d = table_diff(exp, obs["ll"])
            if d:
                fails.append((dup + "subset-" + d[0], d[1]))
        for api in ("tc", "ts"):
            if "error" not in obs[api]:
                fails += [(dup + k, m) for k, m in check_sorted_equiv(exp, obs[api], api)]
        if obs.get("ts_prov", 1) != 1:
            fails.append(("provenance", "TreeSequence.subset added %r provenance rows" % obs.get("ts_prov")))
        return fails

    def coq_check(self, case, obs):
        I = obs["input"]
        if len(I["nodes"]) > 12:
            return None
        call = "subset %s %s %s %s" % (coq_tables(I), czl(case["nodes"]),
                                       "true" if not case["ru"] else "false",
                                       "true" if not case["rp"] else "false")
        if "error" in obs["ll"]:
            return coq_expect_error(call, obs["ll"])
        term = "res_tables_eqb (%s) %s" % (call, coq_tables(obs["ll"]))
        # the wrappers: TableCollection.subset (record_provenance=False) and TreeSequence.subset
        # (one provenance row) = C subset then sort, for every node list incl. the identity
        if len(I["nodes"]) <= 8 and "error" not in obs["tc"] and "error" not in obs["ts"]:
            w = "%s %s %s %s %s" % (coq_tables(I), czl(case["nodes"]), "%s",
                                    "true" if case["rp"] else "false", "true" if case["ru"] else "false")
            term += " && res_tables_prov_eqb (tc_subset %s) %s 0" % (w % "false", coq_tables(obs["tc"]))
            term += " && res_tables_prov_eqb (ts_subset %s) %s %s" % (w % "true", coq_tables(obs["ts"]),
                                                                     cz(obs.get("ts_prov", 1)))
        return term

    def nontrivial(self, case, obs):
        return "error" not in obs["ll"] and 0 < len(case["nodes"]) and len(obs["input"]["edges"]) > 0

    def describe(self, case, obs):
        n = len(obs["input"]["nodes"])
        k = len(case["nodes"])
        return {"n_nodes": n, "list": ("dup" if len(set(case["nodes"])) != k else
                                       "all" if k == n else "empty" if k == 0 else "proper"),
                "flags": "rp=%d,ru=%d" % (case["rp"], case["ru"]), "form": case.get("form", "list"),
                "out_edges": "err" if "error" in obs["ll"] else min(len(obs["ll"]["edges"]), 9)}

    def shrink(self, case):
        nodes = case["nodes"]
        for i in range(len(nodes)):
            c = dict(case)
            c["nodes"] = nodes[:i] + nodes[i + 1:]
            yield c
        d = case["desc"]
        for key in ("mutations", "edges"):
            for i in range(len(d[key])):
                if key == "mutations" and any(m[3] >= i for m in d["mutations"]):
                    continue
                d2 = dict(d)
                d2[key] = d[key][:i] + d[key][i + 1:]
                c = dict(case)
                c["desc"] = d2
                yield c


def _i32(xs):
    import numpy as np
    return np.array(xs, dtype=np.int32)


FORMS = ("list", "int32", "int64", "int16", "strided", "col2d", "reversed", "strided3")


def as_form(values, form, junk_max):
    """The id sequence `values` in a given argument form.  The view forms are int32 already (no
    conversion copy anywhere on the way to C) and NOT contiguous; the memory between / around the
    elements holds other valid ids, so a reader that ignores the strides silently gets a different
    valid id list.  Expected behaviour for every form = behaviour for the plain list."""
    import numpy as np
    n = len(values)
    junk = lambda k: (values[k % n] + 1 + k) % junk_max if n and junk_max > 0 else 0
    if form == "list":
        return list(values)
    if form == "int32":
        return np.array(values, dtype=np.int32)
    if form == "int64":
        return np.array(values, dtype=np.int64)
    if form == "int16":
        return np.array(values, dtype=np.int16)
    if form == "strided":
        buf = np.array([junk(k) for k in range(2 * n)], dtype=np.int32)
        buf[::2] = values
        return buf[::2]
    if form == "strided3":
        buf = np.array([junk(k) for k in range(3 * n + 1)], dtype=np.int32)
        buf[1::3] = values
        return buf[1::3]
    if form == "col2d":
        arr = np.array([[junk(3 * k), 0, junk(3 * k + 2)] for k in range(n)], dtype=np.int32).reshape(n, 3)
        arr[:, 1] = values
        return arr[:, 1]
    if form == "reversed":
        return np.array(list(values)[::-1], dtype=np.int32)[::-1]
    raise ValueError(form)


# ---------------------------------------------------------------------------------------
# Family: union
# ---------------------------------------------------------------------------------------

PERTURB = ("none", "node-md", "node-time", "node-flags", "edge-md", "edge-drop", "mut-derived", "mut-drop",
           "site-anc", "ind-md", "pop-md", "edge-add")


def perturb(O, mapping, kind, rng):
    """Change something in `other` that belongs to the shared portion; returns (O', changed?)."""
    O = {k: ([[x if not isinstance(x, list) else list(x) for x in r] for r in v] if k != "L" else v)
         for k, v in O.items()}
    sh = [k for k, m in enumerate(mapping) if m != NULL]
    if kind == "none" or not sh:
        return O, False
    u = rng.choice(sh)
    if kind == "node-md":
        O["nodes"][u][4] = O["nodes"][u][4] + "7f"
        return O, True
    if kind == "node-time":
        # keep validity: raise the time of a shared root only if it has no parent
        if any(e[3] == u for e in O["edges"]) or any(m[1] == u for m in O["mutations"]):
            return O, False
        O["nodes"][u][1] += 1
        return O, True
    if kind == "node-flags":
        O["nodes"][u][0] ^= 1 << 20
        return O, True
    she = [j for j, e in enumerate(O["edges"]) if mapping[e[2]] != NULL and mapping[e[3]] != NULL]
    if kind == "edge-md" and she:
        O["edges"][rng.choice(she)][4] += "01"
        return O, True
    if kind == "edge-drop" and she:
        del O["edges"][rng.choice(she)]
        return O, True
    shm = [j for j, m in enumerate(O["mutations"]) if mapping[m[1]] != NULL]
    if kind == "mut-derived" and shm:
        j = rng.choice(shm)
        O["mutations"][j][2] = O["mutations"][j][2] + "58"
        return O, True
    if kind == "mut-drop" and shm:
        j = rng.choice(shm)
        if any(m[3] == j for m in O["mutations"]):
            return O, False
        del O["mutations"][j]
        for m in O["mutations"]:
            if m[3] > j:
                m[3] -= 1
        return O, True
    if kind == "site-anc" and shm:
        s = O["mutations"][rng.choice(shm)][0]
        O["sites"][s][1] = O["sites"][s][1] + "59"
        return O, True
    if kind == "ind-md":
        i = O["nodes"][u][3]
        if i == NULL:
            return O, False
        O["individuals"][i][3] += "02"
        return O, True
    if kind == "pop-md":
        p = O["nodes"][u][2]
        if p == NULL:
            return O, False
        O["populations"][p][0] += "03"
        return O, True
    return O, False


def shared_equal(S, O, mapping):
    """'the shared parts are equal': subset both on the equivalent nodes (documentation of
    check_shared_equality) and compare up to the order of rows."""
    so = [k for k, m in enumerate(mapping) if m != NULL]
    ss = [mapping[k] for k in so]
    a = ref_subset(S, ss)
    b = ref_subset(O, so)
    return struct_view(a) == struct_view(b)


def check_union(S, O, mapping, add_pops, got, what="union"):
    """Independent check of a union result `got` (plain lists) against the documentation."""
    fails = []
    exp = ref_union_raw(S, O, mapping, add_pops)
    d = table_diff(exp, got, ("nodes", "individuals", "populations"))
    if d:
        fails.append(("%s-%s" % (what, d[0]), d[1]))
        return fails
    if sorted(map(tuple, exp["edges"])) != sorted(map(tuple, got["edges"])):
        fails.append((what + "-edges", "edge multiset differs: expected %r got %r" % (
            sorted(map(tuple, exp["edges"])), sorted(map(tuple, got["edges"])))))
    elif not is_sorted(got["edges"], sort_key_edge(got)):
        fails.append((what + "-edge-order", "edges not sorted"))
    sites, smap = canon_sites_mutations(exp)
    if sites != got["sites"]:
        fails.append((what + "-sites", "sites: expected %r got %r" % (sites, got["sites"])))
        return fails
    em = sorted((smap[m[0]], m[1], m[2], m[4], m[5]) for m in exp["mutations"])
    gm = sorted((m[0], m[1], m[2], m[4], m[5]) for m in got["mutations"])
    if em != gm:
        fails.append((what + "-mutations", "mutations (site,node,derived,time,md): expected %r got %r" % (em, gm)))
        return fails
    if not is_sorted(got["mutations"], lambda m: m[0]):
        fails.append((what + "-mutation-order", "mutations not grouped by site"))
        return fails
    par = expected_mutation_parents(got)
    if par != [m[3] for m in got["mutations"]]:
        fails.append((what + "-mutation-parents", "parents %r, by definition %r" % ([m[3] for m in got["mutations"]], par)))
    return fails


def ref_union_unsortable(S, O, mapping, add_pops):
    """union sorts mutations by site, then time when known, then by current row order (self's
    rows first).  When mutation times are unknown and `other` contributes a mutation that sits
    ABOVE one of self's mutations at the same site, no valid order results and the library
    reports TSK_ERR_MUTATION_PARENT_AFTER_CHILD.  This needs a new node that is an ancestor of
    a shared node, i.e. a shared part that is not ancestral: outside the quantifier."""
    exp = ref_union_raw(S, O, mapping, add_pops)
    sites, smap = canon_sites_mutations(exp)
    muts = [[smap[m[0]]] + m[1:] for m in exp["mutations"]]
    order = sorted(range(len(muts)), key=lambda j: (muts[j][0], 0 if muts[j][4] is None else -muts[j][4], j))
    T = dict(exp)
    T["sites"] = sites
    T["mutations"] = [muts[j] for j in order]
    par = expected_mutation_parents(T)
    return any(p > j for j, p in enumerate(par))


# ---- equivalent re-orderings: the same collection written with its rows in another order ----

def _copyT(T):
    return {k: ([[x if not isinstance(x, list) else list(x) for x in r] for r in v] if k != "L" else v)
            for k, v in T.items()}


def permute_individual_rows(T, rng):
    """Individual table in a random row order (nodes.individual and parents renumbered)."""
    T = _copyT(T)
    n = len(T["individuals"])
    if n < 2:
        return T, False
    new_of_old = list(range(n))
    rng.shuffle(new_of_old)
    rows = [None] * n
    for i, r in enumerate(T["individuals"]):
        rows[new_of_old[i]] = [r[0], r[1], [new_of_old[p] if p != NULL else NULL for p in r[2]], r[3]]
    T["individuals"] = rows
    for nd in T["nodes"]:
        if nd[3] != NULL:
            nd[3] = new_of_old[nd[3]]
    return T, new_of_old != list(range(n))


def permute_population_rows(T, rng):
    T = _copyT(T)
    n = len(T["populations"])
    if n < 2:
        return T, False
    new_of_old = list(range(n))
    rng.shuffle(new_of_old)
    rows = [None] * n
    for i, r in enumerate(T["populations"]):
        rows[new_of_old[i]] = r
    T["populations"] = rows
    for nd in T["nodes"]:
        if nd[2] != NULL:
            nd[2] = new_of_old[nd[2]]
    return T, new_of_old != list(range(n))


def swap_tied_mutations(T, rng):
    """Swap neighbouring mutations of one site with equal (or unknown) time, neither the parent of
    the other: the sort requirements leave their order open."""
    T = _copyT(T)
    ms = T["mutations"]
    cand = [j for j in range(len(ms) - 1)
            if ms[j][0] == ms[j + 1][0] and ms[j][4] == ms[j + 1][4] and ms[j + 1][3] != j and ms[j][1] != ms[j + 1][1]]
    if not cand:
        return T, False
    for j in rng.sample(cand, min(len(cand), rng.randrange(1, 3))):
        if ms[j + 1][3] == j or ms[j][3] == j + 1:
            continue
        ms[j], ms[j + 1] = ms[j + 1], ms[j]
        for m in ms:
            if m[3] == j:
                m[3] = j + 1
            elif m[3] == j + 1:
                m[3] = j
    return T, True


def permute_node_rows(T, mapping, rng):
    """`other` with its node ids permuted (node_mapping re-indexed accordingly)."""
    n = len(T["nodes"])
    if n < 2:
        return T, mapping, False
    new_of_old = list(range(n))
    rng.shuffle(new_of_old)
    T2 = relabel_nodes(T, new_of_old)
    m2 = [None] * n
    for k in range(n):
        m2[new_of_old[k]] = mapping[k]
    return T2, m2, new_of_old != list(range(n))


REORDER = ("none", "inds", "pops", "muts", "nodes", "inds+muts", "all", "canon", "self-inds", "self-canon")


class Union(Family):
    name = "union"
    prelude = PRELUDE
    workers = 8
    shard = 150

    def generate(self, rng, tier):
        n_cases = 500 if tier == "quick" else 6000
        for _ in range(n_cases):
            d = gen_desc(rng, max_nodes=rng.choice([4, 6, 8, 10]))
            if rng.random() < 0.6:
                d = time_consistent_individuals(d, rng)
            T = None
            n = len(d["nodes"])
            times = sorted({nd[1] for nd in d["nodes"]}) or [0]
            r = rng.random()
            mode = "cover" if r < 0.6 else "random"
            yield {"desc": d, "mode": mode, "cut": rng.choice((times[1:] or times) * 2 + [times[0], times[-1] + 1]),
                   "seed": rng.randrange(1 << 30), "perturb": rng.choice(PERTURB[:1] * 6 + PERTURB[1:]),
                   "check": rng.random() < 0.7, "add_pops": rng.random() < 0.5,
                   "rp": rng.random() < 0.5, "ru": rng.random() < 0.7, "form": rng.choice(FORMS),
                   "reorder": rng.choice(REORDER[:1] * 3 + REORDER[1:])}

    def build(self, case, T):
        """self/other as plain lists, from the sorted input tables T (pure python)."""
        rng = random.Random(case["seed"])
        n = len(T["nodes"])
        if case["mode"] == "cover":
            A, B = cover_of(T, rng, case["cut"])
        else:
            A = rng.sample(range(n), rng.randrange(0, n + 1)) if n else []
            B = rng.sample(range(n), rng.randrange(0, n + 1)) if n else []
        rng.shuffle(A)
        rng.shuffle(B)
        S = ref_subset(T, A, case["rp"], case["ru"])
        O = ref_subset(T, B, case["rp"], case["ru"])
        mapping = mapping_of(A, B)
        O, changed = perturb(O, mapping, case["perturb"], rng)
        # the same two collections, rows written in a different but equivalent order
        ro = case.get("reorder", "none")
        if ro in ("inds", "inds+muts", "all"):
            O, _ = permute_individual_rows(O, rng)
        if ro in ("pops", "all"):
            O, _ = permute_population_rows(O, rng)
        if ro in ("muts", "inds+muts", "all"):
            O, _ = swap_tied_mutations(O, rng)
        if ro in ("nodes", "all"):
            O, mapping, _ = permute_node_rows(O, mapping, rng)
        if ro == "self-inds":
            S, _ = permute_individual_rows(S, rng)
            S, _ = swap_tied_mutations(S, rng)
        return S, O, mapping, changed, A, B

    def observe(self, case):
        d = case["desc"]
        scale = d.get("scale", 1)
        T = desc_tables(d)
        S, O, mapping, changed, A, B = self.build(case, T)
        obs = {"S": S, "O": O, "mapping": mapping, "changed": changed}
        s, o = undump(S, scale), undump(O, scale)
        s.sort()
        o.sort()
        # one part passed through canonicalise() between the split and the join (node ids stay)
        if case.get("reorder") == "canon":
            o.canonicalise(remove_unreferenced=False)
        if case.get("reorder") == "self-canon":
            s.canonicalise(remove_unreferenced=False)
        obs["S"], obs["O"] = dump(s, scale), dump(o, scale)
        marg = lambda: as_form(mapping, case.get("form", "list"), int(s.nodes.num_rows))
        for api in ("tc", "ts"):
            try:
                if api == "tc":
                    t = s.copy()
                    t.union(o, marg(), check_shared_equality=case["check"], add_populations=case["add_pops"],
                            record_provenance=False)
                else:
                    t = s.tree_sequence().union(o.tree_sequence(), marg(), check_shared_equality=case["check"],
                                                add_populations=case["add_pops"]).dump_tables()
                obs[api] = dump(t, scale)
            except Exception as e:
                obs[api] = exc(e)
        return obs

    def oracle(self, case, obs):
        S, O, mapping = obs["S"], obs["O"], obs["mapping"]
        fails = []
        eq = shared_equal(S, O, mapping)
        pops_ok = case["add_pops"] or all(
            O["nodes"][k][2] < len(S["populations"]) for k in range(len(mapping)) if mapping[k] == NULL)
        for api in ("tc", "ts"):
            got = obs[api]
            if "error" in got:
                if case["check"] and not eq:
                    if got["code"] != "TSK_ERR_UNION_DIFF_HISTORIES":
                        fails.append(("refused-other-reason-" + api, repr(got)))
                    continue
                if not pops_ok and got["code"] == "TSK_ERR_POPULATION_OUT_OF_BOUNDS":
                    continue    # add_populations=False with a population id self does not have
                if (case["mode"] == "random" and got["code"] == "TSK_ERR_MUTATION_PARENT_AFTER_CHILD"
                        and ref_union_unsortable(S, O, mapping, case["add_pops"])):
                    continue    # non-ancestral shared part (outside the quantifier), see above
                if api == "ts" and not self.result_is_ts(S, O, mapping, case):
                    continue
                fails.append(("valid-union-refused-" + api, "shared parts equal=%r check=%r: %r" % (eq, case["check"], got)))
                continue
            if case["check"] and not eq:
                fails.append(("differing-shared-accepted-" + api,
                              "shared portions differ (%s) but union succeeded" % case["perturb"]))
                continue
            fails += check_union(S, O, mapping, case["add_pops"], got, "union-" + api)
        return fails

    def result_is_ts(self, S, O, mapping, case):
        """TreeSequence.union needs the merged tables to be a valid tree sequence; with unchecked /
        unequal shared parts or arbitrary (non-cover) parts this need not be so."""
        return case["mode"] == "cover" and not obs_changed(case)

    def coq_check(self, case, obs):
        S, O, mapping = obs["S"], obs["O"], obs["mapping"]
        if len(S["nodes"]) + len(O["nodes"]) > 16:
            return None
        got = obs["tc"]
        call = "union %s %s %s %s %s" % (coq_tables(S), coq_tables(O), czl(mapping),
                                         "true" if case["check"] else "false",
                                         "true" if case["add_pops"] else "false")
        if "error" in got:
            return coq_expect_error(call, got)
        return "res_tables_eqb (%s) %s" % (call, coq_tables(got))

    def nontrivial(self, case, obs):
        return "error" not in obs["tc"] and any(m == NULL for m in obs["mapping"]) and any(
            m != NULL for m in obs["mapping"])

    def describe(self, case, obs):
        return {"mode": case["mode"], "perturb": case["perturb"] if obs["changed"] else "none",
                "form": case.get("form", "list"), "reorder": case.get("reorder", "none"),
                "flags": "check=%d,add_pops=%d" % (case["check"], case["add_pops"]),
                "outcome": obs["tc"].get("code", "error") if "error" in obs["tc"] else "ok",
                "new_nodes": min(sum(1 for m in obs["mapping"] if m == NULL), 6)}


def obs_changed(case):
    return case["perturb"] != "none"


# ---------------------------------------------------------------------------------------
# Family: inverse  (split with subset, re-join with union)
# ---------------------------------------------------------------------------------------

def inverse_domain(T, A, B, case):
    """Is byte-identity after canonicalise() promised by the documentation?  Returns (bool, why).
    union documents: 'populations of newly added nodes are assumed to be new populations'
    (add_populations=True) / keeps the id (False); individuals are identified only through
    shared nodes."""
    newn = [u for u in B if u not in set(A)]
    pops_new = {T["nodes"][u][2] for u in newn} - {NULL}
    pops_A = {T["nodes"][u][2] for u in A} - {NULL}
    if case["add_pops"]:
        if pops_new & pops_A:
            return False, "add_populations=True copies a population that self already has"
    else:
        if pops_new and case["rp"]:
            return False, "add_populations=False needs equal population ids; reorder_populations renumbers"
        if pops_new and case.get("between", "none").startswith("canon"):
            return False, "add_populations=False needs equal population ids; canonicalise of one part renumbers"
    if not case["ru"]:
        ref = {nd[3] for nd in T["nodes"]} - {NULL}
        for u in newn:
            i = T["nodes"][u][3]
            if i != NULL and any(p != NULL and p not in ref for p in T["individuals"][i][2]):
                return False, "kept unreferenced individual named as a parent cannot be identified by union"
    return True, ""


class Inverse(Family):
    name = "inverse"
    prelude = PRELUDE
    workers = 8
    shard = 150

    def generate(self, rng, tier):
        n_cases = 400 if tier == "quick" else 5000
        for _ in range(n_cases):
            d = time_consistent_individuals(gen_desc(rng, max_nodes=rng.choice([4, 6, 8, 10])), rng)
            times = sorted({nd[1] for nd in d["nodes"]}) or [0]
            yield {"desc": d, "cut": rng.choice((times[1:] or times) * 3 + [times[0], times[-1] + 1]),
                   "seed": rng.randrange(1 << 30),
                   "check": rng.random() < 0.6, "add_pops": rng.random() < 0.5,
                   "rp": rng.random() < 0.5, "ru": rng.random() < 0.7, "shuffle": rng.random() < 0.7,
                   "between": rng.choice(["none", "none", "canon-other", "canon-self", "sort-inds-other"])}

    def cover(self, case, T):
        rng = random.Random(case["seed"])
        A, B = cover_of(T, rng, case["cut"])
        if case["shuffle"]:
            rng.shuffle(A)
            rng.shuffle(B)
        return A, B

    def observe(self, case):
        d = case["desc"]
        scale = d.get("scale", 1)
        tc = gen_ts.build_tables(d, sort=True, index=False)
        T = dump(tc, scale)
        A, B = self.cover(case, T)
        mapping = mapping_of(A, B)
        obs = {"T": T, "A": A, "B": B, "mapping": mapping}
        try:
            ts = tc.tree_sequence()
            s = ts.subset(A, reorder_populations=case["rp"], remove_unreferenced=case["ru"])
            o = ts.subset(B, reorder_populations=case["rp"], remove_unreferenced=case["ru"])
            # a part may be re-written in an equivalent row order between the split and the join
            bt = case.get("between", "none")
            if bt != "none":
                tt = (s if bt == "canon-self" else o).dump_tables()
                if bt == "sort-inds-other":
                    tt.sort_individuals()
                else:
                    tt.canonicalise(remove_unreferenced=False)
                if bt == "canon-self":
                    s = tt.tree_sequence()
                else:
                    o = tt.tree_sequence()
            obs["S"], obs["O"] = dump(s.dump_tables(), scale), dump(o.dump_tables(), scale)
            u = s.union(o, mapping, check_shared_equality=case["check"], add_populations=case["add_pops"])
            ut = u.dump_tables()
            obs["U"] = dump(ut, scale)
            # back to the original node order, then canonical form on both sides
            setA = set(A)
            newn = [x for x in B if x not in setA]
            where = {x: k for k, x in enumerate(A + newn)}
            order = [where[x] for x in range(len(T["nodes"]))]
            obs["order"] = order
            ut.subset(order, record_provenance=False, reorder_populations=False, remove_unreferenced=False)
            ut.canonicalise()
            t2 = tc.copy()
            t2.canonicalise()
            ut.provenances.clear()
            t2.provenances.clear()
            obs["canon_equal"] = bool(t2.equals(ut))
            obs["canon_T"], obs["canon_U"] = dump(t2, scale), dump(ut, scale)
        except Exception as e:
            obs["exception"] = exc(e)
        return obs

    def oracle(self, case, obs):
        T, A, B = obs["T"], obs["A"], obs["B"]
        dom, why = inverse_domain(T, A, B, case)
        if "exception" in obs:
            if (not dom and not case["add_pops"] and (case["rp"] or case.get("between", "none").startswith("canon"))
                    and obs["exception"]["code"] == "TSK_ERR_POPULATION_OUT_OF_BOUNDS"):
                return []     # add_populations=False with population ids that self does not have
            return [("inverse-refused", "split/re-join raised %r" % (obs["exception"],))]
        fails = []
        # U with the original node numbering (pure python), compared structurally with T
        inv = {k: x for x, k in enumerate(obs["order"])}       # U row k is original node inv[k]
        Ur = relabel_nodes(obs["U"], [inv[k] for k in range(len(obs["U"]["nodes"]))])
        Tr = referenced_only(T)
        Ur = referenced_only(Ur)
        if struct_view(Ur, "topo") != struct_view(Tr, "topo"):
            a, b = struct_view(Ur, "topo"), struct_view(Tr, "topo")
            k = next(k for k in a if a[k] != b[k])
            fails.append(("inverse-" + k, "re-joined %s differ from the original: %r vs %r" % (k, a[k], b[k])))
        if dom:
            if struct_view(Ur) != struct_view(Tr):
                fails.append(("inverse-individuals-populations", "population/individual content of nodes differs"))
            if not obs["canon_equal"]:
                d = table_diff(obs["canon_T"], obs["canon_U"])
                fails.append(("inverse-not-identical-after-canonicalise", d[1] if d else "equals() false, dumps equal"))
        return fails

    def coq_check(self, case, obs):
        if "exception" in obs or len(obs["T"]["nodes"]) > 10:
            return None
        if case.get("between", "none") != "none":
            # the model of the experiment has no re-ordering step: compare the union itself
            if len(obs["S"]["nodes"]) + len(obs["O"]["nodes"]) > 16:
                return None
            return "res_tables_eqb (union %s %s %s %s %s) %s" % (
                coq_tables(obs["S"]), coq_tables(obs["O"]), czl(obs["mapping"]),
                "true" if case["check"] else "false", "true" if case["add_pops"] else "false", coq_tables(obs["U"]))
        T = obs["T"]
        # the model on the same split: sort(subset) each, union, must give the implementation's U
        return ("res_tables_eqb (split_join %s %s %s %s %s %s %s) %s"
                % (coq_tables(T), czl(obs["A"]), czl(obs["B"]), "true" if not case["ru"] else "false",
                   "true" if not case["rp"] else "false", "true" if case["check"] else "false",
                   "true" if case["add_pops"] else "false", coq_tables(obs["U"])))

    def nontrivial(self, case, obs):
        return "exception" not in obs and any(m == NULL for m in obs["mapping"]) and len(obs["A"]) > obs[
            "mapping"].count(NULL) - len(obs["B"]) + len(obs["A"]) - 1 and len(obs["T"]["edges"]) > 0

    def describe(self, case, obs):
        if "exception" in obs:
            return {"outcome": obs["exception"].get("code") or obs["exception"]["error"]}
        dom, why = inverse_domain(obs["T"], obs["A"], obs["B"], case)
        nshared = sum(1 for m in obs["mapping"] if m != NULL)
        return {"domain": "identical-expected" if dom else why,
                "shared": min(nshared, 6), "new": min(len(obs["B"]) - nshared, 6),
                "flags": "check=%d,add_pops=%d,rp=%d,ru=%d" % (case["check"], case["add_pops"], case["rp"], case["ru"])}


# ---------------------------------------------------------------------------------------
# Family: malformed
# ---------------------------------------------------------------------------------------

class Malformed(Family):
    name = "malformed"
    prelude = PRELUDE
    workers = 4

    def generate(self, rng, tier):
        for _ in range(120 if tier == "quick" else 1200):
            d = gen_desc(rng, max_nodes=6)
            n = len(d["nodes"])
            kind = rng.choice(["subset-oob", "subset-oob", "subset-migrations", "union-badmap",
                               "union-maplen", "union-migrations"])
            if kind == "subset-migrations" or kind == "union-migrations":
                d = gen_ts.random_desc(rng, max_nodes=6, migrations=True)
                n = len(d["nodes"])
            bad = rng.choice([-1, -2, n, n + 1, 2 ** 31 - 1, -2 ** 31])
            nodes = [rng.randrange(n) for _ in range(rng.randrange(0, 4))] if n else []
            nodes.insert(rng.randrange(len(nodes) + 1), bad)
            mapping = [rng.choice([NULL, rng.randrange(n)]) for _ in range(n)] if n else []
            if kind == "union-badmap" and n:
                mapping[rng.randrange(n)] = rng.choice([n, n + 5, -2, -7])
            if kind == "union-maplen":
                # with no nodes the only wrong length is a longer one ([][:-1] is still right)
                mapping = mapping + [NULL] if (rng.random() < 0.5 or not mapping) else mapping[:-1]
            yield {"desc": d, "kind": kind, "nodes": nodes, "mapping": mapping,
                   "ru": rng.random() < 0.5, "rp": rng.random() < 0.5, "check": rng.random() < 0.5}

    def observe(self, case):
        d = case["desc"]
        scale = d.get("scale", 1)
        tc = gen_ts.build_tables(d, sort=True, index=False)
        obs = {"input": dump(tc, scale), "nmig": int(tc.migrations.num_rows)}
        t = tc.copy()
        try:
            if case["kind"].startswith("subset"):
                nodes = case["nodes"] if case["kind"] == "subset-oob" else list(range(tc.nodes.num_rows))
                t.subset(nodes, record_provenance=False, reorder_populations=case["rp"],
                         remove_unreferenced=case["ru"])
            else:
                t.union(tc, case["mapping"], check_shared_equality=case["check"], record_provenance=False)
            obs["result"] = "accepted"
        except Exception as e:
            obs["result"] = exc(e)
        # error, then reuse of the SAME tree sequence object: must behave like a fresh one
        if obs["nmig"] == 0 and case["kind"] in ("subset-oob", "union-badmap"):
            try:
                ts = tc.tree_sequence()
                good = list(range(ts.num_nodes))[::-1]
                fresh = dump(tc.tree_sequence().subset(good).dump_tables(), scale)
                try:
                    if case["kind"] == "subset-oob":
                        ts.subset(case["nodes"])
                    else:
                        ts.union(ts, case["mapping"], check_shared_equality=case["check"])
                except Exception:
                    pass
                obs["reuse_same"] = dump(ts.subset(good).dump_tables(), scale) == fresh
                obs["ts_unchanged"] = bool(ts.dump_tables().equals(tc, ignore_provenance=True))
            except Exception as e:
                obs["reuse_same"] = "error: %s" % type(e).__name__
        return obs

    def expected_error(self, case, obs):
        n = len(obs["input"]["nodes"])
        k = case["kind"]
        if k == "subset-oob":
            return True
        if k in ("subset-migrations", "union-migrations"):
            return obs["nmig"] > 0
        if k == "union-maplen":
            return len(case["mapping"]) != n      # a mapping of the right length is not malformed
        if k == "union-badmap":
            return any(m >= n or m < NULL for m in case["mapping"])
        return False

    def oracle(self, case, obs):
        fails = []
        if self.expected_error(case, obs) and obs["result"] == "accepted":
            fails.append(("malformed-accepted-" + case["kind"], "%r accepted" % (case["nodes"] if "subset" in case["kind"] else case["mapping"],)))
        if obs.get("reuse_same", True) is not True:
            fails.append(("reuse-after-error-differs", repr(obs.get("reuse_same"))))
        if obs.get("ts_unchanged", True) is not True:
            fails.append(("tree-sequence-changed-by-failed-call", case["kind"]))
        return fails

    def coq_check(self, case, obs):
        I = obs["input"]
        if obs["nmig"] or case["kind"] == "union-maplen":
            return None       # migrations are outside the model's table type
        if case["kind"] == "subset-oob":
            call = "subset %s %s %s %s" % (coq_tables(I), czl(case["nodes"]),
                                           "true" if not case["ru"] else "false", "true" if not case["rp"] else "false")
        elif case["kind"] == "union-badmap":
            call = "union %s %s %s %s true" % (coq_tables(I), coq_tables(I), czl(case["mapping"]),
                                               "true" if case["check"] else "false")
        else:
            return None
        if obs["result"] == "accepted":
            return "is_ok (%s)" % call
        if case["kind"] == "union-badmap" and obs["result"].get("code") not in (
                "TSK_ERR_UNION_BAD_MAP", "TSK_ERR_UNION_DIFF_HISTORIES"):
            return None      # self-union with an arbitrary map: tree-validity errors are C02's subject
        return coq_expect_error(call, obs["result"])

    def describe(self, case, obs):
        return {"kind": case["kind"], "result": obs["result"] if obs["result"] == "accepted" else obs["result"]["code"] or obs["result"]["error"]}


# ---------------------------------------------------------------------------------------
# Family: integrity  (the guard both functions run first: check_integrity(…, 0))
# ---------------------------------------------------------------------------------------

CORRUPTIONS = ("node-pop-oob", "node-pop-neg", "node-ind-oob", "node-ind-neg", "edge-parent-null",
               "edge-parent-oob", "edge-child-null", "edge-child-oob", "edge-interval", "edge-time",
               "edge-left-neg", "site-pos-neg", "mut-site-oob", "mut-node-oob", "mut-parent-oob",
               "mut-parent-neg", "mut-parent-self", "mut-time-younger", "mut-parent-other-site",
               "ind-parent-oob", "ind-parent-neg", "ind-parent-self")


def corrupt(T, kind, rng):
    """One broken reference / interval / time in an otherwise valid collection; None if the
    collection has no row of the needed kind."""
    T = {k: ([[x if not isinstance(x, list) else list(x) for x in r] for r in v] if k != "L" else v)
         for k, v in T.items()}
    nn, ne, ns, nm = len(T["nodes"]), len(T["edges"]), len(T["sites"]), len(T["mutations"])
    ni, npop = len(T["individuals"]), len(T["populations"])
    t, row = kind.split("-", 1)
    if t == "node":
        if not nn:
            return None
        r = T["nodes"][rng.randrange(nn)]
        if row == "pop-oob":
            r[2] = npop + rng.randrange(0, 3)
        elif row == "pop-neg":
            r[2] = -2 - rng.randrange(0, 3)
        elif row == "ind-oob":
            r[3] = ni + rng.randrange(0, 3)
        else:
            r[3] = -2 - rng.randrange(0, 3)
    elif t == "edge":
        if not ne:
            return None
        e = T["edges"][rng.randrange(ne)]
        if row == "parent-null":
            e[2] = NULL
        elif row == "parent-oob":
            e[2] = rng.choice([nn, nn + 4, -3])
        elif row == "child-null":
            e[3] = NULL
        elif row == "child-oob":
            e[3] = rng.choice([nn, nn + 4, -3])
        elif row == "interval":
            e[1] = e[0] - rng.randrange(0, 2)
        elif row == "time":
            e[2], e[3] = e[3], e[2]
        else:
            e[0] = -1
    elif t == "site":
        if not ns:
            return None
        T["sites"][rng.randrange(ns)][0] = -1
    elif t == "mut":
        if not nm:
            return None
        j = rng.randrange(nm)
        m = T["mutations"][j]
        if row == "site-oob":
            m[0] = rng.choice([ns, ns + 2, -1, -4])
        elif row == "node-oob":
            m[1] = rng.choice([nn, nn + 2, -1, -4])
        elif row == "parent-oob":
            m[3] = nm + rng.randrange(0, 3)
        elif row == "parent-neg":
            m[3] = -2 - rng.randrange(0, 3)
        elif row == "parent-self":
            m[3] = j
        elif row == "time-younger":
            if m[4] is None:
                return None
            m[4] = T["nodes"][m[1]][1] - 1
        else:
            other = [k for k in range(nm) if T["mutations"][k][0] != m[0]]
            if not other:
                return None
            m[3] = rng.choice(other)
    else:
        if not ni:
            return None
        j = rng.randrange(ni)
        r = T["individuals"][j]
        if row == "parent-oob":
            r[2] = r[2] + [ni + rng.randrange(0, 3)]
        elif row == "parent-neg":
            r[2] = [-2 - rng.randrange(0, 3)] + r[2]
        else:
            r[2] = r[2] + [j]
    return T


def undump_raw(T, scale):
    """Like undump, but ids below NULL survive: rows are added with such ids clipped to NULL and
    the id columns are then overwritten as arrays (add_row refuses ids < -1 in Python)."""
    import numpy as np
    clip = lambda x: x if x >= NULL else NULL
    C = dict(T)
    C["nodes"] = [[fl, t, clip(p), clip(i), m] for fl, t, p, i, m in T["nodes"]]
    C["edges"] = [[l, r, clip(p), clip(c), m] for l, r, p, c, m in T["edges"]]
    C["mutations"] = [[clip(s_), clip(u), d, clip(par), t, m] for s_, u, d, par, t, m in T["mutations"]]
    C["individuals"] = [[fl, loc, [clip(p) for p in par], m] for fl, loc, par, m in T["individuals"]]
    tc = undump(C, scale)
    i32 = lambda xs: np.array(xs, dtype=np.int32)
    if T["nodes"]:
        tc.nodes.population = i32([r[2] for r in T["nodes"]])
        tc.nodes.individual = i32([r[3] for r in T["nodes"]])
    if T["edges"]:
        tc.edges.parent = i32([r[2] for r in T["edges"]])
        tc.edges.child = i32([r[3] for r in T["edges"]])
    if T["mutations"]:
        tc.mutations.site = i32([r[0] for r in T["mutations"]])
        tc.mutations.node = i32([r[1] for r in T["mutations"]])
        tc.mutations.parent = i32([r[3] for r in T["mutations"]])
    if T["individuals"]:
        flat = [p for r in T["individuals"] for p in r[2]]
        tc.individuals.parents = i32(flat)
    return tc


class Integrity(Family):
    name = "integrity"
    prelude = PRELUDE
    workers = 6

    def generate(self, rng, tier):
        for _ in range(260 if tier == "quick" else 2600):
            d = gen_desc(rng, max_nodes=6)
            yield {"desc": d, "kinds": [rng.choice(CORRUPTIONS) for _ in range(rng.choice([1, 1, 1, 2]))],
                   "seed": rng.randrange(1 << 30), "where": rng.choice(["subset", "union-self", "union-other"]),
                   "ru": rng.random() < 0.5, "rp": rng.random() < 0.5}

    def observe(self, case):
        d = case["desc"]
        scale = d.get("scale", 1)
        good = desc_tables(d)
        rng = random.Random(case["seed"])
        bad, applied = good, []
        for k in case["kinds"]:
            b2 = corrupt(bad, k, rng)
            if b2 is not None:
                bad, applied = b2, applied + [k]
        obs = {"good": good, "bad": bad, "applied": applied}
        tb, tg = undump_raw(bad, scale), undump(good, scale)
        n = len(good["nodes"])
        try:
            if case["where"] == "subset":
                tb._ll_tables.subset(_i32(list(range(n))), reorder_populations=case["rp"],
                                     remove_unreferenced=case["ru"])
                obs["result"] = dump(tb, scale)
            else:
                s, o = (tb, tg) if case["where"] == "union-self" else (tg, tb)
                s.union(o, list(range(n)), check_shared_equality=False, record_provenance=False)
                obs["result"] = dump(s, scale)
        except Exception as e:
            obs["result"] = exc(e)
        return obs

    def oracle(self, case, obs):
        # property text: only valid collections are operated on — a collection with a dangling
        # reference, an empty interval or a parent not older than its child must be refused
        if obs["applied"] and "error" not in obs["result"]:
            return [("invalid-collection-accepted-" + "+".join(obs["applied"]), "%s accepted" % case["where"])]
        if not obs["applied"] and "error" in obs["result"]:
            return [("valid-collection-refused", repr(obs["result"]))]
        return []

    def coq_check(self, case, obs):
        n = len(obs["good"]["nodes"])
        if case["where"] == "subset":
            call = "subset_checked %s %s %s %s" % (coq_tables(obs["bad"]), czl(range(n)),
                                                   "true" if not case["ru"] else "false",
                                                   "true" if not case["rp"] else "false")
        else:
            s, o = (obs["bad"], obs["good"]) if case["where"] == "union-self" else (obs["good"], obs["bad"])
            call = "union_checked %s %s %s false true" % (coq_tables(s), coq_tables(o), czl(range(n)))
        if "error" in obs["result"]:
            return coq_expect_error(call, obs["result"])
        return "res_tables_eqb (%s) %s" % (call, coq_tables(obs["result"]))

    def nontrivial(self, case, obs):
        return bool(obs["applied"])

    def describe(self, case, obs):
        return {"where": case["where"], "applied": "+".join(obs["applied"]) or "none",
                "result": obs["result"].get("code", "ok") if "error" in obs["result"] else "ok"}


# ---------------------------------------------------------------------------------------
# Family: union_attrs  (collection-level attributes in the shared-portion check; no shared nodes)
# ---------------------------------------------------------------------------------------

ATTR_COMPARED = ("time_units", "L-bigger", "schema-nodes", "schema-edges", "schema-sites",
                 "schema-mutations", "schema-individuals", "schema-populations", "schema-migrations")
ATTR_IGNORED = ("schema-top", "metadata-top", "refseq")
TABLE_NAMES = ("nodes", "edges", "sites", "mutations", "individuals", "populations", "migrations")


def set_attr(tc, kind):
    """`other` differing from self in one collection-level attribute."""
    import tskit
    js = tskit.MetadataSchema({"codec": "json"})
    if kind == "none":
        return tc
    if kind == "time_units":
        tc.time_units = "years"
    elif kind == "L-bigger":
        d = tc.asdict()
        d["sequence_length"] = tc.sequence_length * 3
        tc = tskit.TableCollection.fromdict(d)
    elif kind.startswith("schema-") and kind != "schema-top":
        getattr(tc, kind[7:]).metadata_schema = js
    elif kind == "schema-top":
        tc.metadata_schema = js
    elif kind == "metadata-top":
        tc.metadata_schema = js
        tc.metadata = {"a": 1}
    elif kind == "refseq":
        tc.reference_sequence.data = "ACGT"
    return tc


def attrs_of(tc, scale):
    return [[_coord(tc.sequence_length, scale)], list(tc.time_units.encode())] + [
        list(repr(getattr(tc, n).metadata_schema).encode()) for n in TABLE_NAMES]


def cattrs(a):
    return "[" + ";".join(czl(x) for x in a) + "]"


class UnionAttrs(Family):
    name = "union_attrs"
    prelude = PRELUDE
    workers = 6
    shard = 150

    def generate(self, rng, tier):
        kinds = ("none",) + ATTR_COMPARED + ATTR_IGNORED
        for _ in range(260 if tier == "quick" else 2600):
            d = gen_desc(rng, max_nodes=rng.choice([3, 5, 7]))
            times = sorted({nd[1] for nd in d["nodes"]}) or [0]
            yield {"desc": d, "shared": rng.choice(["none", "none", "cover"]), "kind": rng.choice(kinds),
                   "cut": rng.choice(times[1:] or times), "seed": rng.randrange(1 << 30),
                   "check": rng.random() < 0.75, "add_pops": rng.random() < 0.5, "form": rng.choice(FORMS)}

    def observe(self, case):
        d = case["desc"]
        scale = d.get("scale", 1)
        T = desc_tables(d)
        rng = random.Random(case["seed"])
        n = len(T["nodes"])
        if case["shared"] == "cover":
            A, B = cover_of(T, rng, case["cut"])
            mapping = mapping_of(A, B)
        else:                                   # a disjoint union: nothing shared
            A = list(range(n))
            B = rng.sample(range(n), rng.randrange(0, n + 1)) if n else []
            mapping = [NULL] * len(B)
        S, O = ref_subset(T, A), ref_subset(T, B)
        s, o = undump(S, scale), undump(O, scale)
        s.sort()
        o.sort()
        obs = {"S": dump(s, scale), "O": dump(o, scale), "mapping": mapping, "a_self": attrs_of(s, scale)}
        o2 = set_attr(o.copy(), case["kind"])
        obs["a_other"] = attrs_of(o2, scale)
        marg = lambda: as_form(mapping, case.get("form", "list"), int(s.nodes.num_rows))
        for api, other in (("plain", o), ("tc", o2), ("ts", o2)):
            try:
                if api == "ts":
                    t = s.tree_sequence().union(other.tree_sequence(), marg(), check_shared_equality=case["check"],
                                                add_populations=case["add_pops"]).dump_tables()
                else:
                    t = s.copy()
                    before = t.copy()
                    try:
                        t.union(other, marg(), check_shared_equality=case["check"],
                                add_populations=case["add_pops"], record_provenance=False)
                    finally:
                        obs[api + "_self_unchanged"] = bool(t.equals(before))
                obs[api] = dump(t, scale)
            except Exception as e:
                obs[api] = exc(e)
        return obs

    def oracle(self, case, obs):
        fails = []
        kind = case["kind"]
        if case["check"] and kind in ATTR_COMPARED:
            # "refuses when the shared parts differ": the two collections are not descriptions of one
            # shared history when they disagree on the genome length, the time unit or a table schema
            for api in ("tc", "ts"):
                if obs[api].get("code") != "TSK_ERR_UNION_DIFF_HISTORIES":
                    fails.append(("differing-%s-not-refused-%s" % (kind.split("-")[0], api),
                                  "%s: %r" % (kind, obs[api] if "error" in obs[api] else "accepted")))
            if not obs.get("tc_self_unchanged", True):
                fails.append(("refused-union-modified-self", kind))
        elif kind in ATTR_IGNORED or kind == "none":
            for api in ("tc", "ts"):
                if obs[api] != obs["plain"]:
                    fails.append(("attribute-%s-changes-union-%s" % (kind, api), "differs from the union with the unmodified other"))
        if "error" in obs["plain"] and obs["plain"].get("code") == "TSK_ERR_UNION_DIFF_HISTORIES":
            fails.append(("valid-union-refused", repr(obs["plain"])))
        return fails

    def coq_check(self, case, obs):
        call = "union_with_attrs %s %s %s %s %s %s %s" % (
            cattrs(obs["a_self"]), cattrs(obs["a_other"]), coq_tables(obs["S"]), coq_tables(obs["O"]),
            czl(obs["mapping"]), "true" if case["check"] else "false", "true" if case["add_pops"] else "false")
        got = obs["tc"]
        if "error" in got:
            return coq_expect_error(call, got)
        return "res_tables_eqb (%s) %s" % (call, coq_tables(got))

    def nontrivial(self, case, obs):
        return case["kind"] != "none"

    def describe(self, case, obs):
        return {"kind": case["kind"], "shared": case["shared"], "check": case["check"], "form": case.get("form"),
                "result": obs["tc"].get("code", "error") if "error" in obs["tc"] else "ok"}


FAMILIES = [Subset, Union, Inverse, Malformed, Integrity, UnionAttrs]

NOT_COVERED = [
    "migrations (subset/union refuse any table collection with migrations)",
    "provenance record contents",
    "table-level metadata / schemas / reference sequence in the shared-equality comparison",
]
