"""C09 — no API input causes out-of-bounds memory access or aborts the interpreter.

MONITOR (run under the ASan+UBSan build, registry "asan": true): every case is a short
*sequence* of public-API calls with boundary arguments on one base object (a valid tree
sequence from harness/gen_ts.py, or an arbitrary invalid / unsorted / unindexed table
collection), followed by a tail of normal use of the same objects ("leaves an object in a
bad state").  The sequence runs in a grand-child process that reports every step before and
after executing it, so a sanitizer report / abort / signal / hang is attributed to the call
site and the argument class:  key = "crash:<op>:<argclass>" / "hang:<op>:<argclass>".

ORACLE (independent of the model, from the property text): every step either returns or
raises a Python exception; an identifier argument outside the valid range of its kind
(negative, == row count, huge) must raise ("accepted:<op>:<argclass>" otherwise).

CORRESPONDENCE: for the entry points modelled in coq/theories/C09/Guards.v the model
predicts the verdict  VOk | VRaise | VOOB  of each step from the guard of the code; the
implementation's (returned | exception | sanitizer report) must be exactly that.
"""
import json
import math
import os
import select
import signal
import time

from harness.runner import Family
from harness.common import cz, clist, cbool
from harness import gen_ts

I32MAX = 2 ** 31 - 1
# a step is a hang when the child has burnt this much CPU time (not wall time: the machine is
# shared and may be heavily loaded) since its last progress message, or has been silent for
# STEP_WALL_CAP seconds of wall time (blocked rather than spinning)
STEP_TIMEOUT = float(os.environ.get("VERIF_C09_STEP_TIMEOUT", "4"))
STEP_WALL_CAP = float(os.environ.get("VERIF_C09_STEP_WALL_CAP", "90"))
_TICK = os.sysconf("SC_CLK_TCK")


def cpu_seconds(pid):
    try:
        with open("/proc/%d/stat" % pid) as f:
            parts = f.read().rsplit(")", 1)[1].split()
        return (int(parts[11]) + int(parts[12])) / _TICK
    except Exception:
        return None

# ----------------------------------------------------------------------------------
# symbolic boundary values
# ----------------------------------------------------------------------------------
ID_SYMS = ["-2", "-1", "0", "n-1", "n", "n+1", "max"]           # the quantifier's alphabet
ID_SYMS_X = ["min", "2^31", "2^32", "2^32+1", "-2^32+1", "2^63", "2^64", "1.0", "0.5", "nanf", "none", "str", "true"]
POS_SYMS = ["-1", "0", "-0.0", "L-eps", "L", "L+1", "nan", "inf", "-inf", "mid"]
POS_SYMS_X = ["none", "str", "2^1100"]


def res_id(sym, n):
    """Resolve an identifier symbol against the row count n of its table."""
    if sym == "n-1":
        return n - 1
    if sym == "n":
        return n
    if sym == "n+1":
        return n + 1
    if sym == "n/2":
        return n // 2
    if sym == "-n":
        return -n
    if sym == "-n-1":
        return -n - 1
    if sym == "max":
        return I32MAX
    if sym == "min":
        return -2 ** 31
    if sym == "2^31":
        return 2 ** 31
    if sym == "2^32":
        return 2 ** 32
    if sym == "2^32+1":
        return 2 ** 32 + 1
    if sym == "-2^32+1":
        return -2 ** 32 + 1
    if sym == "2^63":
        return 2 ** 63
    if sym == "2^64":
        return 2 ** 64
    if sym == "1.0":
        return 1.0
    if sym == "0.5":
        return 0.5
    if sym == "nanf":
        return float("nan")
    if sym == "none":
        return None
    if sym == "str":
        return "1"
    if sym == "true":
        return True
    return int(sym)


def res_pos(sym, L):
    if sym == "L-eps":
        return math.nextafter(L, 0)
    if sym == "L":
        return L
    if sym == "L+1":
        return L + 1
    if sym == "mid":
        return L / 2
    if sym == "nan":
        return float("nan")
    if sym == "inf":
        return float("inf")
    if sym == "-inf":
        return float("-inf")
    if sym == "-0.0":
        return -0.0
    if sym == "none":
        return None
    if sym == "str":
        return "x"
    if sym == "2^1100":
        return 2 ** 1100
    if sym == "eps":
        return 5e-324
    return float(sym)


def id_valid(sym, n, policy):
    """Is the resolved identifier inside the valid range of its kind?  policy:
    strict 0<=v<n ; virtual 0<=v<=n (Tree arrays have the virtual root) ;
    null -1<=v<n ; pyindex -n<=v<n (Python sequence indexing) ; count 0<=v<=n."""
    v = res_id(sym, n)
    if isinstance(v, bool) or not isinstance(v, int):
        return None             # type-adversarial: no range demand (monitor only)
    if policy == "none":
        return None
    if policy == "strict":
        return 0 <= v < n
    if policy in ("virtual", "count"):
        return 0 <= v <= n
    if policy == "null":
        return -1 <= v < n
    if policy == "vnull":
        return -1 <= v <= n
    if policy == "pyindex":
        return -n <= v < n
    raise ValueError(policy)


# ----------------------------------------------------------------------------------
# operations.  OPS[name] = Op(fn, params, target)
#   params: list of (pname, kind) ; kind -> see KINDS
#   fn(c, **resolved) runs the call on the context c
# ----------------------------------------------------------------------------------
class Op:
    def __init__(self, name, fn, params, needs, model=None, note=None):
        self.name, self.fn, self.params, self.needs, self.model, self.note = name, fn, params, needs, model, note


OPS = {}


def op(name, params=(), needs="ts", model=None):
    def deco(fn):
        OPS[name] = Op(name, fn, list(params), needs, model)
        return fn
    return deco


# kind -> (table whose row count is n, range policy, alphabet, default symbol)
def K(table, policy, syms=None, default="0"):
    return {"table": table, "policy": policy, "syms": syms or ID_SYMS, "default": default, "list": False}


def KL(table, policy, lists=None, default=("0",)):
    d = K(table, policy, None, list(default))
    d["list"] = True
    d["lists"] = lists or ID_LISTS
    return d


ID_LISTS = [[], ["0"], ["0", "0"], ["0", "n"], ["n"], ["n", "0"], ["-1"], ["0", "-1"], ["n+1"], ["max"], ["-2"],
            ["0", "n-1"], ["n-1", "0"], ["n-1", "n-1"], ["0", "max"], ["min"]]

KINDS = {
    "node": K("nodes", "strict"),
    "vnode": K("nodes", "virtual"),                # Tree accessors: virtual root allowed
    "vnode_null": K("nodes", "vnull"),             # traversals: -1 (tskit.NULL) = all roots
    "nodes": KL("nodes", "strict"),
    "samples": KL("nodes", "strict"),
    "site": K("sites", "strict"),
    "sites": KL("sites", "strict"),
    "mutation": K("mutations", "strict"),
    "edge": K("edges", "strict"),
    "individual": K("individuals", "strict"),
    "population": K("populations", "strict"),
    "migration": K("migrations", "strict"),
    "provenance": K("provenances", "strict"),
    "node_py": K("nodes", "pyindex"), "edge_py": K("edges", "pyindex"), "site_py": K("sites", "pyindex"),
    "mutation_py": K("mutations", "pyindex"), "individual_py": K("individuals", "pyindex"),
    "population_py": K("populations", "pyindex"), "migration_py": K("migrations", "pyindex"),
    "provenance_py": K("provenances", "pyindex"),
    "population_null": K("populations", "null"),
    "population_any": K("populations", "none"),
    "tree": K("trees", "strict"),
    "tree_py": K("trees", "pyindex"),
    "sample_index": K("samples", "strict"),
    "sample_indexes": KL("samples", "strict"),
}


class Ctx:
    """Objects a sequence of steps works on."""

    def __init__(self):
        self.ts = self.tree = self.tc = None
        self.tmp = None

    def count(self, table, needs="ts"):
        if needs == "tc" or self.ts is None:
            return len(getattr(self.tc, table))
        if table == "trees":
            return self.ts.num_trees
        if table == "samples":
            return self.ts.num_samples
        return len(getattr(self.ts.tables, table))

    @property
    def L(self):
        return self.ts.sequence_length if self.ts is not None else self.tc.sequence_length

    def Lof(self, needs):
        return self.tc.sequence_length if needs == "tc" or self.ts is None else self.ts.sequence_length


def summarise(r):
    """A small JSON-able digest of a return value (forces lazy iterators)."""
    import numpy as np
    import types
    if r is None or isinstance(r, (bool, int, str)):
        return r
    if isinstance(r, float):
        return repr(r)
    if isinstance(r, (np.integer,)):
        return int(r)
    if isinstance(r, (np.floating,)):
        return repr(float(r))
    if isinstance(r, np.ndarray):
        return ["nd", list(r.shape)]
    if isinstance(r, (types.GeneratorType, map, filter, range)) or hasattr(r, "__next__"):
        k = 0
        for _x in r:
            k += 1
            if k > 100000:
                break
        return ["iter", k]
    if isinstance(r, (list, tuple)):
        return ["seq", len(r)]
    if isinstance(r, dict):
        return ["dict", len(r)]
    return type(r).__name__


# ----------------------------------------------------------------------------------
# running a case in a grand-child, step by step
# ----------------------------------------------------------------------------------
def build_base(base):
    import tskit
    c = Ctx()
    kind = base["kind"]
    if kind == "valid":
        c.tc = gen_ts.build_tables(base["desc"])
        c.ts = c.tc.tree_sequence()
        o = base.get("tree", {})
        kw = {}
        if o.get("sample_lists"):
            kw["sample_lists"] = True
        if o.get("tracked") is not None:
            kw["tracked_samples"] = [res_id(s, c.ts.num_nodes) for s in o["tracked"]]
        if o.get("root_threshold"):
            kw["root_threshold"] = o["root_threshold"]
        c.tree = tskit.Tree(c.ts, **kw)
        idx = o.get("index", 0)
        if idx is not None and c.ts.num_trees > 0:
            c.tree.seek_index(min(idx, c.ts.num_trees - 1))
        c.tc = c.ts.dump_tables()
    elif kind == "raw":
        c.tc = build_raw(base)
    elif kind == "shape":
        c.tc = build_shape(base)
        c.ts = c.tc.tree_sequence()
        c.tree = tskit.Tree(c.ts)
        c.tree.first()
    else:
        raise ValueError(kind)
    return c


def build_shape(base):
    """Valid tree sequences whose per-parent child counts / segment counts / table sizes sit
    at chosen sizes (powers of two and +-1): the grow-by-doubling buffers of the C library.
      star        n samples under one root
      caterpillar n samples, n-1 internal nodes (comb)
      intervals   k samples under one root, every edge cut into m abutting pieces
                  (k*m child segments for the root)
      two_level   a root over g internal nodes, each over n//g samples"""
    import tskit
    shape, n = base["shape"], base["n"]
    m = base.get("m", 1)
    L = float(base.get("L", max(m, 1)))
    tc = tskit.TableCollection(L)
    tc.populations.add_row()
    for _ in range(n):
        tc.nodes.add_row(flags=1, time=0, population=0)
    if shape == "star":
        root = tc.nodes.add_row(time=1)
        for u in range(n):
            tc.edges.add_row(0, L, root, u)
    elif shape == "caterpillar":
        prev = 0
        for u in range(1, n):
            p = tc.nodes.add_row(time=u)
            tc.edges.add_row(0, L, p, prev)
            tc.edges.add_row(0, L, p, u)
            prev = p
    elif shape == "intervals":
        root = tc.nodes.add_row(time=1)
        for u in range(n):
            for j in range(m):
                tc.edges.add_row(j * L / m, (j + 1) * L / m, root, u)
    elif shape == "two_level":
        g = base.get("g", 2)
        root = tc.nodes.add_row(time=2)
        mids = [tc.nodes.add_row(time=1) for _ in range(g)]
        for u in range(n):
            tc.edges.add_row(0, L, mids[u % g], u)
        for v in mids:
            tc.edges.add_row(0, L, root, v)
    else:
        raise ValueError(shape)
    ns = base.get("sites", 2)
    for j in range(ns):
        sid = tc.sites.add_row((j + 0.5) * L / (ns + 1), "A")
        for u in range(0, n, 2 if j % 2 else 1):
            tc.mutations.add_row(sid, u, "T" if u % 3 else "G")
    tc.sort()
    tc.build_index()
    tc.compute_mutation_parents()
    return tc


def build_raw(base):
    """An arbitrary table collection: rows as given (no validation), optional sort / index /
    user-supplied index arrays."""
    import numpy as np
    import tskit
    tc = gen_ts.build_tables(base["desc"], sort=False, index=False)
    if base.get("sort"):
        try:
            tc.sort()
        except Exception:
            pass
    if base.get("index") == "build":
        try:
            tc.build_index()
        except Exception:
            pass
    elif isinstance(base.get("index"), dict):
        ix = base["index"]
        tc.indexes = tskit.TableCollectionIndexes(
            edge_insertion_order=np.array(ix["ins"], dtype=np.int32),
            edge_removal_order=np.array(ix["rem"], dtype=np.int32))
    return tc


def resolve_args(c, o, args):
    out = {}
    for pname, kind in o.params:
        sym = args.get(pname, None)
        if pname not in args:
            continue
        out[pname] = resolve_one(c, kind, sym, o.needs)
    return out


def resolve_one(c, kind, sym, needs="ts"):
    if kind in KINDS:
        k = KINDS[kind]
        n = c.count(k["table"], needs)
        if k["list"]:
            return [res_id(s, n) for s in sym]
        return res_id(sym, n)
    if kind in ("pos", "pos_seq"):
        return res_pos(sym, c.Lof(needs))
    if kind == "raw":
        return sym
    raise ValueError(kind)


def snapshot(c, o=None, st=None):
    """State at the start of a step: what the oracle and the model need to classify the
    symbolic arguments (row counts, node flags, breakpoints, the tree's parent array)."""
    env = {"tc": None, "ts": None}
    if c.tc is not None:
        env["tc"] = {t: len(getattr(c.tc, t)) for t in TABLES}
        env["L"] = repr(float(c.tc.sequence_length))
        env["tc_edge_md"] = bool(len(c.tc.edges.metadata))
        if c.tc.has_index() and len(c.tc.edges) <= 64:
            ix = c.tc.indexes
            env["index"] = {"ins": [int(x) for x in ix.edge_insertion_order],
                            "rem": [int(x) for x in ix.edge_removal_order]}
    if c.ts is not None:
        ts = c.ts
        env["ts"] = {"nodes": ts.num_nodes, "samples": ts.num_samples, "trees": ts.num_trees,
                     "sites": ts.num_sites, "mutations": ts.num_mutations, "edges": ts.num_edges,
                     "individuals": ts.num_individuals, "populations": ts.num_populations,
                     "migrations": ts.num_migrations, "provenances": ts.num_provenances}
        env["L"] = repr(float(ts.sequence_length))
        env["ts_edge_md"] = bool(len(ts.tables.edges.metadata))
        if ts.num_nodes <= 64:
            env["flags"] = [int(x) for x in ts.tables.nodes.flags]
            env["bps"] = [repr(float(x)) for x in ts.breakpoints(as_array=True)]
        if c.tree is not None:
            import _tskit
            env["tree_index"] = c.tree.index
            env["sample_lists"] = bool(c.tree._ll_tree.get_options() & _tskit.SAMPLE_LISTS)
            if ts.num_nodes <= 64:
                env["parent"] = [int(x) for x in c.tree.parent_array]
    if o is not None and o.name == "tc.call" and st.get("args", {}).get("m") == "deduplicate_sites" and c.tc is not None \
            and len(c.tc.mutations) <= 64:
        pos = [float(x) for x in c.tc.sites.position]
        srt = all(not (x > y) for x, y in zip(pos, pos[1:])) and all(math.isfinite(x) and 0 <= x < c.tc.sequence_length for x in pos)
        if srt:                          # only then does the tool reach its remap loop
            env["dedup"] = {"msite": [int(x) for x in c.tc.mutations.site], "ns": len(pos),
                            "dups": len(set(pos)) < len(pos)}
    if o is not None and o.name == "table.columns_min_len" and c.tc is not None:
        a = st.get("args", {})
        full = getattr(c.tc, a["table"]).asdict()
        env["collens"] = {k: int(v.shape[0]) for k, v in full.items() if hasattr(v, "shape")}
    if o is not None and o.name in ("table.set_columns_len", "table.append_columns_len") and c.tc is not None:
        a = st.get("args", {})
        if a.get("table") in ("sites", "mutations"):
            t = getattr(c.tc, a["table"])
            so = t.ancestral_state_offset if a["table"] == "sites" else t.derived_state_offset
            sd = t.ancestral_state if a["table"] == "sites" else t.derived_state
            env["cols"] = {"n": int(t.num_rows), "so": [int(x) for x in so], "mo": [int(x) for x in t.metadata_offset],
                           "sl": int(len(sd)), "ml": int(len(t.metadata))}
    return env


def exc_name(e):
    return type(e).__name__


def run_sequence(case, wfd):
    """Executed in the grand-child.  Protocol on wfd: 'S k' before step k, 'D k json' after;
    the same step marker goes to stderr so that sanitizer reports are attributed to steps."""
    def emit(s):
        os.write(wfd, (s + "\n").encode())

    def mark(k):
        os.write(2, ("@@S %d\n" % k).encode())
        emit("S %d" % k)
    mark(-1)
    try:
        c = build_base(case["base"])
        emit("D -1 " + json.dumps(["ok", None]))
    except Exception as e:
        emit("D -1 " + json.dumps(["exc", exc_name(e), str(e)[:200]]))
        return
    steps = list(case["steps"])
    for k, st in enumerate(steps):
        mark(k)
        o = OPS[st["op"]]
        env = None
        try:
            if o.needs == "ts" and c.ts is None:
                r = ["skip", "no ts"]
            else:
                env = snapshot(c, o, st)
                emit("E %d %s" % (k, json.dumps(env)))
                kw = resolve_args(c, o, st.get("args", {}))
                val = o.fn(c, **kw)
                r = ["ok", summarise(val)]
        except RecursionError as e:
            r = ["exc", exc_name(e), ""]
        except Exception as e:
            r = ["exc", exc_name(e), str(e)[:160]]
        r = r[:3] + [None] * (3 - len(r)) + [env]
        emit("D %d %s" % (k, json.dumps(r, default=str)))


_RELEVANT = ("runtime error:", "SUMMARY:", "ERROR: AddressSanitizer", "Bug detected in", "Assertion", "Fatal Python error")


def fork_run(case):
    """Run one case in a forked child; returns the observation.  The child reports each
    step before and after executing it; its stderr is scanned for sanitizer reports."""
    import re
    r, w = os.pipe()
    er, ew = os.pipe()
    pid = os.fork()
    if pid == 0:
        try:
            os.close(r)
            os.close(er)
            os.dup2(ew, 2)
            signal.signal(signal.SIGINT, signal.SIG_DFL)
            run_sequence(case, w)
        except BaseException as e:      # adapter bug in the child: make it visible
            try:
                os.write(w, ("X %s: %s\n" % (type(e).__name__, str(e)[:300])).encode())
            except Exception:
                pass
            os._exit(3)
        os._exit(0)
    os.close(w)
    os.close(ew)
    buf, ebuf = b"", b""
    started, done, envs = None, {}, {}
    t_last = time.time()
    cpu_last = cpu_seconds(pid) or 0.0
    hang = False
    open_fds = {r, er}
    adapter = None
    estep = -1
    reports = []           # (step, line)
    frames = []            # first tskit frame after an ASan error
    want_frame = False
    while open_fds:
        rl, _, _ = select.select(list(open_fds), [], [], 0.25)
        now = time.time()
        for fd in rl:
            data = os.read(fd, 1 << 16)
            if not data:
                open_fds.discard(fd)
                continue
            if fd == er:
                ebuf += data
                while b"\n" in ebuf:
                    line, ebuf = ebuf.split(b"\n", 1)
                    line = line.decode(errors="replace")
                    if line.startswith("@@S "):
                        estep = int(line[4:])
                        continue
                    if any(x in line for x in _RELEVANT) and len(reports) < 40:
                        reports.append((estep, re.sub(r"0x[0-9a-f]+", "0x..", re.sub(r"==\d+==", "", line)).strip()[:260]))
                        want_frame = "ERROR: AddressSanitizer" in line
                    elif want_frame:
                        m = re.search(r"#\d+ 0x[0-9a-f]+ in (\w+) (?:\S*/)?(lib/tskit/\S+|_tskitmodule\.c:\d+)", line)
                        if m:
                            frames.append("at %s %s" % (m.group(1), m.group(2)))
                            want_frame = False
                if len(ebuf) > 1 << 20:
                    ebuf = b""
                continue
            buf += data
            t_last = now
            cpu_last = cpu_seconds(pid) or cpu_last
            while b"\n" in buf:
                line, buf = buf.split(b"\n", 1)
                line = line.decode()
                if line.startswith("S "):
                    started = int(line[2:])
                elif line.startswith("D "):
                    _d, k, js = line.split(" ", 2)
                    done[int(k)] = json.loads(js)
                elif line.startswith("E "):
                    _d, k, js = line.split(" ", 2)
                    envs[int(k)] = json.loads(js)
                elif line.startswith("X "):
                    adapter = line[2:]
        if not rl and now - t_last > STEP_TIMEOUT:
            cpu = cpu_seconds(pid)
            if (cpu is not None and cpu - cpu_last > STEP_TIMEOUT) or now - t_last > STEP_WALL_CAP:
                hang = True
                os.kill(pid, signal.SIGKILL)
                break
    _, status = os.waitpid(pid, 0)
    for fd in (r, er):
        try:
            os.close(fd)
        except OSError:
            pass
    if adapter:
        raise RuntimeError("child adapter error: " + adapter)
    nsteps = len(case["steps"])
    obs = {"base": done.get(-1), "steps": [done.get(k) for k in range(nsteps)], "died": None, "ubsan": []}
    if started is not None and started >= 0 and done.get(started) is None and started in envs:
        obs["env_at_death"] = envs[started]
    seen = set()
    for k, line in reports:
        if "runtime error:" in line:
            m = re.match(r"(?:\S*/)?((?:lib/tskit/|lib/subprojects/)?[\w./-]+):(\d+):\d+: runtime error: (.*)", line)
            item = [k, m.group(1) + ":" + m.group(2), m.group(3)[:120]] if m else [k, "?", line[:160]]
            if (item[0], item[1]) not in seen:
                seen.add((item[0], item[1]))
                obs["ubsan"].append(item)
    fatal = [l for _k, l in reports if "runtime error:" not in l][:3] + frames[:1]
    if hang:
        obs["died"] = {"at": started, "kind": "hang"}
    elif os.WIFSIGNALED(status) or (os.WIFEXITED(status) and os.WEXITSTATUS(status) != 0):
        code = os.WEXITSTATUS(status) if os.WIFEXITED(status) else None
        sig = os.WTERMSIG(status) if os.WIFSIGNALED(status) else None
        kind = {86: "asan", 87: "ubsan"}.get(code, "signal" if sig else "exit")
        if kind == "ubsan":
            fatal = [l for _k, l in reports][-2:]
        obs["died"] = {"at": started, "kind": kind, "exit": code, "signal": sig, "report": fatal}
    return obs


# ---- the sequence runner lives in a helper process started with UBSan in non-halting mode
# (UBSAN_OPTIONS is read at process start; the check's environment has halt_on_error=1, under
# which the pervasive benign `memcpy(dst, NULL, 0)` reports would end every case early).
_SERVER = None


def _server():
    global _SERVER
    import subprocess
    import sys
    if _SERVER is None or _SERVER.poll() is not None:
        env = dict(os.environ)
        if "UBSAN_OPTIONS" in env:
            # since the fix of C09-N7 (07a5612) UBSan runs in the check's halting mode again
            # (exit 87 = a `crash:` failure); VERIF_C09_UBSAN_CONTINUE=1 collects all reports instead
            if os.environ.get("VERIF_C09_UBSAN_CONTINUE") == "1":
                env["UBSAN_OPTIONS"] = "halt_on_error=0:print_stacktrace=0"
            env["PYTHONMALLOC"] = "malloc"      # CPython object memory visible to ASan as well
        _SERVER = subprocess.Popen([sys.executable, "-u", "-m", "harness.props.c09", "--serve"],
                                   stdin=subprocess.PIPE, stdout=subprocess.PIPE, env=env,
                                   cwd=os.path.dirname(os.path.dirname(os.path.dirname(os.path.abspath(__file__)))))
    return _SERVER


def served_run(case):
    global _SERVER
    s = _server()
    try:
        s.stdin.write((json.dumps(case) + "\n").encode())
        s.stdin.flush()
        line = s.stdout.readline()
    except (BrokenPipeError, OSError):
        line = b""
    if not line:
        _SERVER = None
        raise RuntimeError("C09 sequence server died (rc=%s)" % s.poll())
    out = json.loads(line)
    if "__error__" in out:
        raise RuntimeError(out["__error__"])
    return out


def serve():
    import sys
    import tskit  # noqa: F401   (children are forked warm)
    import numpy  # noqa: F401
    out = sys.stdout
    for line in sys.stdin:
        line = line.strip()
        if not line:
            continue
        try:
            obs = fork_run(json.loads(line))
        except Exception as e:
            obs = {"__error__": "%s: %s" % (type(e).__name__, e)}
        out.write(json.dumps(obs, default=str) + "\n")
        out.flush()


# ----------------------------------------------------------------------------------
# argument classes (the key of a failure names the call site and this class)
# ----------------------------------------------------------------------------------
def argclass(st):
    a = st.get("args", {})
    if "cls" in st:
        return st["cls"]
    parts = []
    for k in sorted(a):
        if k == "opts" and len(a) > 1:
            continue                      # options are in the replay, not in the class
        v = a[k]
        if isinstance(v, list):
            parts.append("%s=[%s]" % (k, ",".join(str(x) for x in v)))
        else:
            parts.append("%s==%s" % (k, v))
    return ";".join(parts) or "-"


def step_key(kind, st):
    return "%s:%s:%s" % (kind, st["op"], argclass(st))


# ----------------------------------------------------------------------------------
# Tree operations (valid tree sequence; c.tree positioned or null)
# ----------------------------------------------------------------------------------
def _tree1(meth, kind="vnode"):
    def fn(c, u):
        return getattr(c.tree, meth)(u)
    op("tree." + meth, [("u", kind)])(fn)


for _m in ("parent", "left_child", "right_child", "left_sib", "right_sib", "children", "siblings",
           "num_children", "edge", "time", "branch_length", "depth", "population", "is_sample",
           "is_leaf", "is_internal", "is_isolated", "is_root", "num_samples", "num_tracked_samples",
           "ancestors", "get_num_leaves", "get_num_tracked_leaves", "left_sample", "right_sample"):
    _tree1(_m)
for _m in ("leaves", "samples", "get_leaves", "preorder", "postorder", "timeasc", "timedesc"):
    _tree1(_m, "vnode_null")
_tree1("next_sample", "sample_index")


def _tree2(meth):
    def fn(c, u, v):
        return getattr(c.tree, meth)(u, v)
    op("tree." + meth, [("u", "vnode"), ("v", "vnode")])(fn)


for _m in ("mrca", "tmrca", "is_descendant", "path_length", "distance_between", "get_mrca", "get_tmrca"):
    _tree2(_m)


@op("tree.mrca3", [("u", "vnode"), ("v", "vnode"), ("w", "vnode")])
def _(c, u, v, w):
    return c.tree.mrca(u, v, w)


@op("tree.nodes", [("root", "vnode_null"), ("order", "raw")])
def _(c, root, order="preorder"):
    return c.tree.nodes(root, order=order)


@op("tree.as_newick", [("root", "vnode")])
def _(c, root):
    return len(c.tree.as_newick(root=root))


@op("tree.newick", [("root", "vnode")])
def _(c, root):
    return len(c.tree.newick(root=root))


@op("tree.newick_labels", [("root", "vnode"), ("labels", "raw")])
def _(c, root, labels):
    n = c.ts.num_nodes
    return len(c.tree.as_newick(root=root, node_labels={res_id(s, n): "x" * 5 for s in labels}))


@op("tree.seek", [("x", "pos_seq")])
def _(c, x):
    c.tree.seek(x)
    return c.tree.index


@op("tree.seek_index", [("i", "tree_py")])
def _(c, i):
    c.tree.seek_index(i)
    return c.tree.index


@op("tree.next")
def _(c):
    return c.tree.next()


@op("tree.prev")
def _(c):
    return c.tree.prev()


@op("tree.first")
def _(c):
    c.tree.first()


@op("tree.last")
def _(c):
    c.tree.last()


@op("tree.clear")
def _(c):
    c.tree.clear()


@op("tree.copy")
def _(c):
    c.tree = c.tree.copy()


@op("tree.num_lineages", [("t", "pos")])
def _(c, t):
    return c.tree.num_lineages(t)


@op("tree.map_mutations", [("g", "raw"), ("alleles", "raw"), ("anc", "raw")])
def _(c, g, alleles, anc=None):
    import numpy as np
    ns = c.ts.num_samples
    geno = _mk_genotypes(g, ns)
    kw = {}
    if anc is not None:
        kw["ancestral_state"] = anc
    a, muts = c.tree.map_mutations(geno, alleles, **kw)
    return [a, len(muts)]


def _mk_genotypes(g, ns):
    """g: {"len": sym, "fill": v, "dtype": str, "set": {idx: v}} -> numpy array."""
    import numpy as np
    n = {"ns": ns, "ns-1": ns - 1, "ns+1": ns + 1, "0": 0, "2ns": 2 * ns}[g.get("len", "ns")]
    a = np.full(max(n, 0), g.get("fill", 0), dtype=g.get("dtype", "int8"))
    for i, v in (g.get("set") or {}).items():
        if 0 <= int(i) < len(a):
            a[int(i)] = v
    if g.get("shape2"):
        a = a.reshape((len(a), 1))
    if g.get("aslist"):
        return a.tolist()
    return a


@op("tree.ll_map_mutations", [("g", "raw"), ("anc", "raw")])
def _(c, g, anc=None):
    """The C-module entry point under Tree.map_mutations (no Python-side allele handling)."""
    geno = _mk_genotypes(g, c.ts.num_samples)
    a, tr = c.tree._ll_tree.map_mutations(geno, anc)
    return [a, len(tr)]


@op("tree.kc_distance_self", [("lam", "pos")])
def _(c, lam):
    return c.tree.kc_distance(c.tree, lam)


@op("tree.rf_distance_self")
def _(c):
    return c.tree.rf_distance(c.tree)


@op("tree.count_topologies", [("sets", "raw")])
def _(c, sets):
    n = c.ts.num_nodes
    ss = None if sets is None else [[res_id(s, n) for s in x] for x in sets]
    tcn = c.tree.count_topologies(ss)
    return len(tcn.topologies) if hasattr(tcn, "topologies") else 0


@op("tree.split_polytomies")
def _(c):
    return c.tree.split_polytomies(random_seed=1).num_nodes


@op("tree.indexes")
def _(c):
    t = c.tree
    out = []
    for m in ("colless_index", "sackin_index", "b1_index", "b2_index"):
        try:
            out.append(repr(getattr(t, m)()))
        except (ValueError, ZeroDivisionError) as e:
            out.append(exc_name(e))
    return len(out)


@op("tree.new", [("tracked", "nodes"), ("opts", "raw")])
def _(c, tracked=None, opts=None):
    import tskit
    kw = dict(opts or {})
    if tracked is not None:
        kw["tracked_samples"] = tracked
    c.tree = tskit.Tree(c.ts, **kw)
    c.tree.first()
    return c.tree.num_tracked_samples()


@op("tree.unrank", [("n", "raw"), ("rank", "raw")])
def _(c, n, rank):
    import tskit
    return tskit.Tree.unrank(n, tuple(rank)).tree_sequence.num_nodes


@op("probe.tree")
def _(c):
    """Normal use of the tree after boundary calls: read every array for every node
    (incl. virtual root), walk the whole sequence in both directions."""
    t = c.tree
    n = c.ts.num_nodes
    acc = 0
    for u in range(n + 1):
        acc += t.parent(u) + t.left_child(u) + t.right_sib(u) + t.num_children(u) + t.num_samples(u)
        acc += len(t.children(u))
    acc += sum(1 for _ in t.nodes()) if t.index != -1 else 0
    k = 0
    while t.next():
        k += 1
        acc += t.num_edges
    while t.prev():
        k += 1
    t.first()
    acc += len(t.parent_array) + int(t.total_branch_length >= 0)
    return [k, acc >= -10 ** 9]


# ----------------------------------------------------------------------------------
# TreeSequence operations
# ----------------------------------------------------------------------------------
def _ts_row(meth, kind):
    def fn(c, i):
        return getattr(c.ts, meth)(i)
    op("ts." + meth, [("i", kind)])(fn)


# documented: "As with python lists, negative IDs can be used to index backwards"
for _m, _k in (("node", "node_py"), ("edge", "edge_py"), ("site", "site_py"), ("mutation", "mutation_py"),
               ("individual", "individual_py"), ("population", "population_py"),
               ("migration", "migration_py"), ("provenance", "provenance_py")):
    _ts_row(_m, _k)


@op("ts.site_at", [("x", "pos")])
def _(c, x):
    return c.ts.site(position=x).id


@op("ts.at", [("x", "pos_seq")])
def _(c, x):
    t = c.ts.at(x)
    return [t.index, t.num_edges]


@op("ts.at_index", [("i", "tree_py")])
def _(c, i):
    t = c.ts.at_index(i)
    return [t.index, t.num_edges]


@op("ts.samples_pop", [("p", "population_any")])
def _(c, p):
    return c.ts.samples(population=p)


@op("ts.get_population", [("u", "node")])
def _(c, u):
    return c.ts.get_population(u)


@op("ts.get_time", [("u", "node")])
def _(c, u):
    return c.ts.get_time(u)


@op("ts.simplify", [("samples", "samples"), ("opts", "raw")])
def _(c, samples=None, opts=None):
    out = c.ts.simplify(samples, **(opts or {}))
    if isinstance(out, tuple):
        out = out[0]
    return [out.num_nodes, out.num_edges]


@op("ts.subset", [("nodes", "nodes"), ("opts", "raw")])
def _(c, nodes, opts=None):
    out = c.ts.subset(nodes, **(opts or {}))
    return [out.num_nodes, out.num_edges]


@op("ts.union_self", [("mapping", "raw"), ("opts", "raw")])
def _(c, mapping, opts=None):
    """union(other=self, node_mapping): mapping symbols resolved against num_nodes;
    mapping["len"] controls the array length."""
    import numpy as np
    n = c.ts.num_nodes
    m = _mk_mapping(mapping, n)
    out = c.ts.union(c.ts, m, **(opts or {"check_shared_equality": False}))
    return [out.num_nodes, out.num_edges]


def _mk_mapping(mapping, n):
    import numpy as np
    ln = {"n": n, "n-1": n - 1, "n+1": n + 1, "0": 0}[mapping.get("len", "n")]
    fill = mapping.get("fill", "id")
    if fill == "id":
        a = list(range(ln))
    else:
        a = [res_id(fill, n)] * max(ln, 0)
    for i, s in (mapping.get("set") or {}).items():
        if 0 <= int(i) < len(a):
            a[int(i)] = res_id(s, n)
    if mapping.get("aslist"):
        return a
    return np.array(a, dtype=mapping.get("dtype", "int32"))


@op("ts.ibd_within", [("within", "samples"), ("opts", "raw")])
def _(c, within, opts=None):
    r = c.ts.ibd_segments(within=within, **(opts or {}))
    return [r.num_segments, repr(r.total_span)]


@op("ts.ibd_between", [("a", "samples"), ("b", "samples"), ("opts", "raw")])
def _(c, a, b, opts=None):
    r = c.ts.ibd_segments(between=[a, b], **(opts or {}))
    return [r.num_segments, repr(r.total_span)]


@op("ts.ibd_result_get", [("a", "node"), ("b", "node")])
def _(c, a, b):
    r = c.ts.ibd_segments(store_pairs=True, store_segments=True)
    return len(r[(a, b)])


@op("ts.link_ancestors", [("samples", "samples"), ("ancestors", "nodes")])
def _(c, samples, ancestors):
    return len(c.ts.dump_tables().link_ancestors(samples, ancestors))


@op("ts.variants", [("samples", "samples"), ("opts", "raw")])
def _(c, samples=None, opts=None):
    k = 0
    opts = dict(opts or {})
    if "alleles" in opts:
        opts["alleles"] = tuple(opts["alleles"])
    for v in c.ts.variants(samples=samples, **opts):
        k += int(v.genotypes.sum() > -10 ** 9)
    return k


@op("ts.genotype_matrix", [("samples", "samples"), ("opts", "raw")])
def _(c, samples=None, opts=None):
    return c.ts.genotype_matrix(samples=samples, **(opts or {}))


@op("ts.haplotypes", [("samples", "samples"), ("opts", "raw")])
def _(c, samples=None, opts=None):
    return c.ts.haplotypes(samples=samples, **(opts or {}))


@op("ts.alignments", [("samples", "samples"), ("opts", "raw")])
def _(c, samples=None, opts=None):
    return c.ts.alignments(samples=samples, **(opts or {}))


@op("ts.haplotypes_lr", [("left", "pos"), ("right", "pos")])
def _(c, left, right):
    return c.ts.haplotypes(left=left, right=right)


@op("ts.variants_lr", [("left", "pos"), ("right", "pos")])
def _(c, left, right):
    return c.ts.variants(left=left, right=right)


@op("variant.decode", [("site", "site"), ("samples", "samples"), ("opts", "raw")])
def _(c, site, samples=None, opts=None):
    import tskit
    v = tskit.Variant(c.ts, samples=samples, **(opts or {}))
    v.decode(site)
    r = [len(v.genotypes), len(v.alleles)]
    v.decode(0)                       # normal use afterwards
    return r + [len(v.genotypes)]


@op("variant.decode_seq", [("sites", "sites")])
def _(c, sites):
    import tskit
    v = tskit.Variant(c.ts)
    out = []
    for s in sites:
        try:
            v.decode(s)
            out.append(int(v.site.id))
        except Exception as e:
            out.append(exc_name(e))
    cp = v.copy()
    out.append(len(cp.genotypes) if out and isinstance(out[-1], int) else -1)
    return out


@op("ts.trees_tracked", [("tracked", "samples"), ("opts", "raw")])
def _(c, tracked, opts=None):
    k = 0
    for t in c.ts.trees(tracked_samples=tracked, **(opts or {})):
        k += t.num_tracked_samples()
    return k


@op("ts.delete_sites", [("sites", "sites")])
def _(c, sites):
    return c.ts.delete_sites(sites).num_sites


@op("ts.keep_intervals", [("iv", "raw"), ("opts", "raw")])
def _(c, iv, opts=None):
    L = c.L
    out = c.ts.keep_intervals(_mk_intervals(iv, L), **(opts or {}))
    return [out.num_edges, out.num_sites]


@op("ts.delete_intervals", [("iv", "raw"), ("opts", "raw")])
def _(c, iv, opts=None):
    L = c.L
    out = c.ts.delete_intervals(_mk_intervals(iv, L), **(opts or {}))
    return [out.num_edges, out.num_sites]


def _mk_intervals(iv, L):
    import numpy as np
    if isinstance(iv, dict):
        a = np.array([[res_pos(x, L) for x in row] for row in iv["rows"]], dtype=float)
        if iv.get("shape"):
            a = a.reshape(iv["shape"])
        return a
    return [[res_pos(x, L) for x in row] for row in iv]


@op("ts.decapitate", [("t", "pos")])
def _(c, t):
    return c.ts.decapitate(t).num_nodes


@op("ts.split_edges", [("t", "pos")])
def _(c, t):
    return c.ts.split_edges(t).num_nodes


@op("ts.split_edges_pop", [("p", "population_null")])
def _(c, p):
    return c.ts.split_edges(0.5, population=p).num_nodes


@op("ts.trim")
def _(c):
    return [c.ts.trim().num_edges, c.ts.ltrim().num_edges, c.ts.rtrim().num_edges]


@op("ts.extend_haplotypes")
def _(c):
    return c.ts.extend_haplotypes().num_edges


@op("ts.newick_trees")
def _(c):
    return sum(len(s) for s in [t.as_newick() if t.num_roots == 1 else "" for t in c.ts.trees()])


@op("ts.write", [("what", "raw")])
def _(c, what):
    import io
    out = io.StringIO()
    if what == "vcf":
        c.ts.write_vcf(out, allow_position_zero=True)
    elif what == "fasta":
        c.ts.write_fasta(out)
    elif what == "nexus":
        c.ts.write_nexus(out, include_alignments=False)
    elif what == "text":
        c.ts.dump_text(nodes=out, edges=io.StringIO(), sites=io.StringIO(), mutations=io.StringIO())
    elif what == "macs":
        out.write(c.ts.to_macs())
    return len(out.getvalue())


@op("ts.vcf_individuals", [("inds", "raw")])
def _(c, inds):
    import io
    out = io.StringIO()
    n = c.ts.num_individuals
    c.ts.write_vcf(out, individuals=[res_id(s, n) for s in inds], allow_position_zero=True)
    return len(out.getvalue())


@op("ts.vcf_masks", [("site_mask", "raw"), ("sample_mask", "raw")])
def _(c, site_mask=None, sample_mask=None):
    import io
    import numpy as np
    out = io.StringIO()
    kw = {}
    if site_mask is not None:
        kw["site_mask"] = np.zeros({"n": c.ts.num_sites, "n+1": c.ts.num_sites + 1, "n-1": max(c.ts.num_sites - 1, 0), "0": 0}[site_mask], dtype=bool)
    if sample_mask is not None:
        kw["sample_mask"] = np.zeros({"n": c.ts.num_samples, "n+1": c.ts.num_samples + 1, "n-1": max(c.ts.num_samples - 1, 0), "0": 0}[sample_mask], dtype=bool)
    c.ts.write_vcf(out, allow_position_zero=True, **kw)
    return len(out.getvalue())


# ---- statistics: sample sets / indexes / windows --------------------------------
def _mk_sets(sets, n):
    return [[res_id(s, n) for s in x] for x in sets]


def _mk_windows(w, L):
    if w is None or isinstance(w, str):
        return w
    import numpy as np
    return np.array([res_pos(x, L) for x in w], dtype=float)


ONE_WAY = ("diversity", "segregating_sites", "Tajimas_D", "Y1", "allele_frequency_spectrum")
MULTI_WAY = {"divergence": 2, "Fst": 2, "f2": 2, "Y2": 2, "genetic_relatedness": 2, "Y3": 3, "f3": 3, "f4": 4}


@op("ts.stat1", [("stat", "raw"), ("sets", "raw"), ("windows", "raw"), ("mode", "raw")])
def _(c, stat, sets, windows=None, mode="site"):
    n = c.ts.num_nodes
    return getattr(c.ts, stat)(_mk_sets(sets, n), windows=_mk_windows(windows, c.L), mode=mode)


@op("ts.statk", [("stat", "raw"), ("sets", "raw"), ("indexes", "raw"), ("windows", "raw"), ("mode", "raw")])
def _(c, stat, sets, indexes=None, windows=None, mode="site"):
    n = c.ts.num_nodes
    ns = len(sets)
    idx = None if indexes is None else [tuple(res_id(s, ns) for s in t) for t in indexes]
    return getattr(c.ts, stat)(_mk_sets(sets, n), indexes=idx, windows=_mk_windows(windows, c.L), mode=mode)


@op("ts.gnn", [("focal", "nodes"), ("sets", "raw")])
def _(c, focal, sets):
    return c.ts.genealogical_nearest_neighbours(focal, _mk_sets(sets, c.ts.num_nodes))


@op("ts.mean_descendants", [("sets", "raw")])
def _(c, sets):
    return c.ts.mean_descendants(_mk_sets(sets, c.ts.num_nodes))


@op("ts.divergence_matrix", [("sets", "raw"), ("windows", "raw"), ("mode", "raw")])
def _(c, sets=None, windows=None, mode="branch"):
    ss = None if sets is None else _mk_sets(sets, c.ts.num_nodes)
    return c.ts.divergence_matrix(ss, windows=_mk_windows(windows, c.L), mode=mode)


@op("ts.relatedness_matrix", [("sets", "raw"), ("windows", "raw"), ("mode", "raw")])
def _(c, sets=None, windows=None, mode="branch"):
    ss = None if sets is None else _mk_sets(sets, c.ts.num_nodes)
    return c.ts.genetic_relatedness_matrix(ss, windows=_mk_windows(windows, c.L), mode=mode)


@op("ts.relatedness_vector", [("wrows", "raw"), ("nodes", "nodes"), ("windows", "raw"), ("mode", "raw")])
def _(c, wrows="ns", nodes=None, windows=None, mode="branch"):
    import numpy as np
    ns = c.ts.num_samples
    r = {"ns": ns, "ns-1": max(ns - 1, 0), "ns+1": ns + 1, "0": 0}[wrows]
    W = np.ones((r, 2))
    return c.ts.genetic_relatedness_vector(W, windows=_mk_windows(windows, c.L), mode=mode, nodes=nodes)


@op("ts.general_stat", [("wrows", "raw"), ("outdim", "raw"), ("retdim", "raw"), ("windows", "raw"), ("mode", "raw")])
def _(c, wrows="ns", outdim=1, retdim=1, windows=None, mode="site"):
    import numpy as np
    ns = c.ts.num_samples
    r = {"ns": ns, "ns-1": max(ns - 1, 0), "ns+1": ns + 1, "0": 0}[wrows]
    W = np.ones((r, 2))
    return c.ts.general_stat(W, lambda x: np.ones(retdim) * x.sum(), outdim, windows=_mk_windows(windows, c.L),
                             mode=mode, strict=False)


@op("ts.trait", [("stat", "raw"), ("wrows", "raw"), ("windows", "raw"), ("mode", "raw")])
def _(c, stat, wrows="ns", windows=None, mode="site"):
    import numpy as np
    ns = c.ts.num_samples
    r = {"ns": ns, "ns-1": max(ns - 1, 0), "ns+1": ns + 1, "0": 0}[wrows]
    W = np.arange(r * 2, dtype=float).reshape((r, 2))
    if stat == "trait_linear_model":
        return c.ts.trait_linear_model(W, Z=np.ones((r, 1)), windows=_mk_windows(windows, c.L), mode=mode)
    return getattr(c.ts, stat)(W, windows=_mk_windows(windows, c.L), mode=mode)


@op("ts.ld_matrix", [("sites", "raw"), ("positions", "raw"), ("sets", "raw"), ("mode", "raw"), ("stat", "raw")])
def _(c, sites=None, positions=None, sets=None, mode="site", stat="r2"):
    n = c.ts.num_sites
    kw = {}
    if sites is not None:
        kw["sites"] = [[res_id(s, n) for s in x] for x in sites]
    if positions is not None:
        kw["positions"] = [[res_pos(s, c.L) for s in x] for x in positions]
    if sets is not None:
        kw["sample_sets"] = _mk_sets(sets, c.ts.num_nodes)
    return c.ts.ld_matrix(mode=mode, stat=stat, **kw)


@op("ts.ld_calc", [("a", "site"), ("b", "site")])
def _(c, a, b):
    import tskit
    ld = tskit.LdCalculator(c.ts)
    return repr(ld.r2(a, b))


@op("ts.ld_calc_array", [("a", "site"), ("direction", "raw"), ("max_sites", "raw"), ("max_distance", "pos")])
def _(c, a, direction=1, max_sites=None, max_distance=None):
    import tskit
    ld = tskit.LdCalculator(c.ts)
    return ld.r2_array(a, direction=direction, max_sites=max_sites, max_distance=max_distance)


@op("ts.pair_coalescence_counts", [("sets", "raw"), ("indexes", "raw"), ("windows", "raw"), ("time_windows", "raw")])
def _(c, sets=None, indexes=None, windows=None, time_windows="nodes"):
    import numpy as np
    n = c.ts.num_nodes
    ss = None if sets is None else _mk_sets(sets, n)
    ns = len(sets) if sets else 1
    idx = None if indexes is None else [tuple(res_id(s, ns) for s in t) for t in indexes]
    tw = time_windows if isinstance(time_windows, str) else np.array([res_pos(x, 1.0) for x in time_windows])
    return c.ts.pair_coalescence_counts(ss, indexes=idx, windows=_mk_windows(windows, c.L), time_windows=tw)


@op("ts.pair_coalescence_quantiles", [("q", "raw"), ("sets", "raw")])
def _(c, q, sets=None):
    import numpy as np
    ss = None if sets is None else _mk_sets(sets, c.ts.num_nodes)
    return c.ts.pair_coalescence_quantiles(np.array([res_pos(x, 1.0) for x in q]), ss)


@op("ts.pair_coalescence_rates", [("tw", "raw"), ("sets", "raw")])
def _(c, tw, sets=None):
    import numpy as np
    ss = None if sets is None else _mk_sets(sets, c.ts.num_nodes)
    return c.ts.pair_coalescence_rates(np.array([res_pos(x, 1.0) for x in tw]), ss)


@op("ts.count_topologies", [("sets", "raw")])
def _(c, sets=None):
    ss = None if sets is None else _mk_sets(sets, c.ts.num_nodes)
    k = 0
    for tcn in c.ts.count_topologies(ss):
        k += 1
    return k


@op("ts.impute_unknown_mutations_time")
def _(c):
    return c.ts.impute_unknown_mutations_time()


@op("ts.pickle")
def _(c):
    import pickle
    ts2 = pickle.loads(pickle.dumps(c.ts))
    return ts2.equals(c.ts)


@op("probe.ts")
def _(c):
    """Normal use of the tree sequence after boundary calls."""
    ts = c.ts
    k = 0
    for t in ts.trees(sample_lists=True):
        k += t.num_edges + t.num_roots
        for u in t.samples():
            k += 1
    for v in ts.variants():
        k += len(v.alleles)
    s = ts.simplify()
    return [k, s.num_nodes, ts.tables.equals(ts.dump_tables())]


# ----------------------------------------------------------------------------------
# Table / TableCollection operations (work on c.tc, valid or arbitrary)
# ----------------------------------------------------------------------------------
TABLES = ("nodes", "edges", "sites", "mutations", "individuals", "populations", "migrations", "provenances")


def _len_sym(sym, n):
    return {"n": n, "n-1": max(n - 1, 0), "n+1": n + 1, "0": 0, "2n": 2 * n, "1": 1}[sym]


@op("table.getitem", [("table", "raw"), ("i", "raw")], needs="tc")
def _(c, table, i):
    t = getattr(c.tc, table)
    return type(t[res_id(i, len(t))]).__name__


@op("table.getitem_ids", [("table", "raw"), ("ids", "raw"), ("dtype", "raw")], needs="tc")
def _(c, table, ids, dtype=None):
    import numpy as np
    t = getattr(c.tc, table)
    idx = [res_id(s, len(t)) for s in ids]
    if dtype:
        idx = np.array(idx, dtype=dtype)
    return len(t[idx])


@op("table.getitem_mask", [("table", "raw"), ("len", "raw")], needs="tc")
def _(c, table, len):
    import numpy as np
    t = getattr(c.tc, table)
    return t[np.ones(_len_sym(len, t.num_rows), dtype=bool)].num_rows


@op("table.getitem_slice", [("table", "raw"), ("sl", "raw")], needs="tc")
def _(c, table, sl):
    t = getattr(c.tc, table)
    n = t.num_rows
    s = slice(*[None if x is None else res_id(x, n) for x in sl])
    return t[s].num_rows


@op("table.setitem", [("table", "raw"), ("i", "raw"), ("src", "raw")], needs="tc")
def _(c, table, i, src="0"):
    t = getattr(c.tc, table)
    row = t[res_id(src, len(t))]
    t[res_id(i, len(t))] = row
    return t.num_rows


@op("table.ll_get_row", [("table", "raw"), ("i", "raw")], needs="tc")
def _(c, table, i):
    t = getattr(c.tc, table)
    return len(t.ll_table.get_row(res_id(i, len(t))))


@op("table.ll_extend", [("table", "raw"), ("ids", "raw"), ("dtype", "raw")], needs="tc")
def _(c, table, ids, dtype="int32"):
    import numpy as np
    t = getattr(c.tc, table)
    new = t.copy()
    new.clear()
    idx = np.array([res_id(s, len(t)) for s in ids], dtype=dtype)
    new.ll_table.extend(t.ll_table, row_indexes=idx)
    return new.num_rows


@op("table.keep_rows", [("table", "raw"), ("len", "raw"), ("dtype", "raw"), ("fill", "raw")], needs="tc")
def _(c, table, len, dtype="bool", fill=1):
    import numpy as np
    t = getattr(c.tc, table)
    keep = np.full(_len_sym(len, t.num_rows), fill, dtype=dtype)
    r = t.keep_rows(keep)
    return [t.num_rows, summarise(r)]


@op("table.ll_keep_rows", [("table", "raw"), ("len", "raw")], needs="tc")
def _(c, table, len):
    """the C-module entry point under keep_rows (the Python wrapper checks the length too)"""
    import numpy as np
    t = getattr(c.tc, table)
    r = t.ll_table.keep_rows(np.ones(_len_sym(len, t.num_rows), dtype=bool))
    return [t.num_rows, summarise(r)]


@op("table.keep_rows_pattern", [("table", "raw"), ("pattern", "raw")], needs="tc")
def _(c, table, pattern):
    import numpy as np
    t = getattr(c.tc, table)
    n = t.num_rows
    keep = np.array([(pattern[i % len(pattern)] == "1") for i in range(n)], dtype=bool)
    r = t.keep_rows(keep)
    return [t.num_rows, summarise(r)]


@op("table.truncate", [("table", "raw"), ("k", "raw")], needs="tc")
def _(c, table, k):
    t = getattr(c.tc, table)
    t.truncate(res_id(k, t.num_rows))
    return t.num_rows


@op("table.add_row_ids", [("table", "raw"), ("v", "raw")], needs="tc")
def _(c, table, v):
    """add_row with every id field set to a boundary value (no validation at add time)."""
    tc = c.tc
    x = res_id(v, len(tc.nodes))
    if table == "nodes":
        return tc.nodes.add_row(flags=1, time=0, population=x, individual=x)
    if table == "edges":
        return tc.edges.add_row(0, tc.sequence_length, x, x)
    if table == "sites":
        return tc.sites.add_row(0.5, "A")
    if table == "mutations":
        return tc.mutations.add_row(site=x, node=x, derived_state="T", parent=x)
    if table == "individuals":
        return tc.individuals.add_row(parents=[x, x])
    if table == "migrations":
        return tc.migrations.add_row(0, tc.sequence_length, x, x, x, 1.0)
    if table == "populations":
        return tc.populations.add_row()
    return tc.provenances.add_row("{}")


@op("table.set_columns_len", [("table", "raw"), ("col", "raw"), ("len", "raw")], needs="tc")
def _(c, table, col, len):
    """set_columns with one column of the wrong length."""
    import numpy as np
    t = getattr(c.tc, table)
    d = t.asdict()
    d.pop("metadata_schema", None)
    a = d[col]
    n = _len_sym(len, a.shape[0])
    d[col] = np.resize(a, n) if a.shape[0] else np.zeros(n, dtype=a.dtype)
    t.set_columns(**d)
    return t.num_rows


@op("table.append_columns_len", [("table", "raw"), ("col", "raw"), ("len", "raw")], needs="tc")
def _(c, table, col, len):
    import numpy as np
    t = getattr(c.tc, table)
    d = t.asdict()
    d.pop("metadata_schema", None)
    a = d[col]
    n = _len_sym(len, a.shape[0])
    d[col] = np.resize(a, n) if a.shape[0] else np.zeros(n, dtype=a.dtype)
    t.append_columns(**d)
    return t.num_rows


@op("table.set_columns_offset", [("table", "raw"), ("col", "raw"), ("how", "raw")], needs="tc")
def _(c, table, col, how):
    """set_columns with a malformed offset column (ragged columns index memory by it)."""
    import numpy as np
    t = getattr(c.tc, table)
    d = t.asdict()
    d.pop("metadata_schema", None)
    off = np.array(d[col + "_offset"], dtype=np.uint64)
    if how == "first1" and len(off):
        off[0] = 1
    elif how == "last+1" and len(off):
        off[-1] += 1
    elif how == "last+big" and len(off):
        off[-1] += 2 ** 40
    elif how == "decreasing" and len(off) > 2:
        off[1] = off[-1] + 5
    elif how == "short":
        off = off[:-1]
    elif how == "long":
        off = np.append(off, off[-1] if len(off) else 0)
    elif how == "huge" and len(off):
        off[:] = 2 ** 63
    elif how == "empty":
        off = off[:0]
    elif how == "int8":
        off = off.astype(np.int8)
    elif how == "float":
        off = off.astype(np.float64) + 0.5
    d[col + "_offset"] = off
    t.set_columns(**d)
    return [t.num_rows, summarise(sum(len(bytes(str(r), "utf8")) for r in t))]


@op("table.set_columns_dtype", [("table", "raw"), ("col", "raw"), ("dtype", "raw")], needs="tc")
def _(c, table, col, dtype):
    import numpy as np
    t = getattr(c.tc, table)
    d = t.asdict()
    d.pop("metadata_schema", None)
    d[col] = np.array(d[col]).astype(dtype)
    t.set_columns(**d)
    return t.num_rows


@op("table.set_columns_2d", [("table", "raw"), ("col", "raw")], needs="tc")
def _(c, table, col):
    import numpy as np
    t = getattr(c.tc, table)
    d = t.asdict()
    d.pop("metadata_schema", None)
    d[col] = np.array(d[col]).reshape((-1, 1))
    t.set_columns(**d)
    return t.num_rows


@op("table.packset_metadata", [("table", "raw"), ("len", "raw")], needs="tc")
def _(c, table, len):
    t = getattr(c.tc, table)
    t.packset_metadata([b"ab"] * _len_sym(len, t.num_rows))
    return t.num_rows


@op("table.iterate", [("table", "raw")], needs="tc")
def _(c, table):
    t = getattr(c.tc, table)
    return sum(1 for _ in t) + len(str(t)[:10])


@op("tc.delete_sites", [("sites", "sites")], needs="tc")
def _(c, sites):
    c.tc.delete_sites(sites)
    return c.tc.sites.num_rows


@op("tc.simplify", [("samples", "samples"), ("opts", "raw")], needs="tc")
def _(c, samples=None, opts=None):
    r = c.tc.simplify(samples, **(opts or {}))
    return [c.tc.nodes.num_rows, c.tc.edges.num_rows, summarise(r)]


@op("tc.subset", [("nodes", "nodes"), ("opts", "raw")], needs="tc")
def _(c, nodes, opts=None):
    c.tc.subset(nodes, **(opts or {}))
    return [c.tc.nodes.num_rows, c.tc.edges.num_rows]


@op("tc.union_self", [("mapping", "raw"), ("opts", "raw")], needs="tc")
def _(c, mapping, opts=None):
    other = c.tc.copy()
    m = _mk_mapping(mapping, len(other.nodes))
    c.tc.union(other, m, **(opts or {"check_shared_equality": False}))
    return [c.tc.nodes.num_rows, c.tc.edges.num_rows]


@op("tc.union_other", [("mapping", "raw"), ("opts", "raw")], needs="tc")
def _(c, mapping, opts=None):
    """union with a *smaller* other (its first half of the nodes): mapping values index self."""
    import numpy as np
    other = c.tc.copy()
    n_other = max(len(other.nodes) // 2, 0)
    try:
        other.subset(np.arange(n_other, dtype=np.int32))
    except Exception:
        pass
    m = _mk_mapping(dict(mapping, len=mapping.get("len", "n")), len(other.nodes))
    n_self = len(c.tc.nodes)
    for i, s in (mapping.get("set_self") or {}).items():
        if 0 <= int(i) < len(m):
            m[int(i)] = res_id(s, n_self)
    c.tc.union(other, m, **(opts or {"check_shared_equality": False}))
    return [c.tc.nodes.num_rows, c.tc.edges.num_rows]


@op("tc.ibd_within", [("within", "samples"), ("opts", "raw")], needs="tc")
def _(c, within, opts=None):
    r = c.tc.ibd_segments(within=within, **(opts or {}))
    return [r.num_segments]


@op("tc.ibd_between", [("a", "samples"), ("b", "samples"), ("opts", "raw")], needs="tc")
def _(c, a, b, opts=None):
    r = c.tc.ibd_segments(between=[a, b], **(opts or {}))
    return [r.num_segments]


@op("tc.ibd_all", [("opts", "raw")], needs="tc")
def _(c, opts=None):
    r = c.tc.ibd_segments(**(opts or {}))
    return [r.num_segments]


@op("tc.link_ancestors", [("samples", "samples"), ("ancestors", "nodes")], needs="tc")
def _(c, samples, ancestors):
    return len(c.tc.link_ancestors(samples, ancestors))


@op("tc.sort", [("edge_start", "raw"), ("site_start", "raw"), ("mutation_start", "raw")], needs="tc")
def _(c, edge_start="0", site_start="0", mutation_start="0"):
    tc = c.tc
    tc.sort(res_id(edge_start, len(tc.edges)), site_start=res_id(site_start, len(tc.sites)),
            mutation_start=res_id(mutation_start, len(tc.mutations)))
    return len(tc.edges)


@op("tc.keep_intervals", [("iv", "raw"), ("opts", "raw")], needs="tc")
def _(c, iv, opts=None):
    c.tc.keep_intervals(_mk_intervals(iv, c.tc.sequence_length), **(opts or {}))
    return [len(c.tc.edges), len(c.tc.sites)]


@op("tc.delete_intervals", [("iv", "raw"), ("opts", "raw")], needs="tc")
def _(c, iv, opts=None):
    c.tc.delete_intervals(_mk_intervals(iv, c.tc.sequence_length), **(opts or {}))
    return [len(c.tc.edges), len(c.tc.sites)]


@op("tc.delete_older", [("t", "pos")], needs="tc")
def _(c, t):
    c.tc.delete_older(t)
    return len(c.tc.edges)


@op("tc.call", [("m", "raw")], needs="tc")
def _(c, m):
    """argument-free table collection methods (on arbitrary tables these index memory by
    *stored* ids, so the integrity checks at their entry are what is monitored)."""
    tc = c.tc
    if m == "tree_sequence":
        c.ts = tc.tree_sequence()
        import tskit
        c.tree = tskit.Tree(c.ts)
        c.tree.first()
        return c.ts.num_trees
    if m == "copy":
        c.tc = tc.copy()
        return c.tc.equals(tc)
    if m == "asdict_fromdict":
        import tskit
        c.tc = tskit.TableCollection.fromdict(tc.asdict())
        return c.tc.equals(tc)
    if m == "dump_load":
        import tskit
        d = os.path.join(os.environ.get("VERIF_SCRATCH", "/var/tmp/tskit-verif"), "c09-tmp")
        os.makedirs(d, exist_ok=True)
        p = os.path.join(d, "%d.trees" % os.getpid())
        try:
            tc.dump(p)
            c.tc = tskit.TableCollection.load(p)
        finally:
            if os.path.exists(p):
                os.unlink(p)
        return c.tc.equals(tc)
    if m == "pickle":
        import pickle
        c.tc = pickle.loads(pickle.dumps(tc))
        return c.tc.equals(tc)
    if m == "str":
        return len(str(tc))
    if m == "nbytes":
        return tc.nbytes
    r = getattr(tc, m)()
    return summarise(r)


TC_CALLS = ("sort", "build_index", "drop_index", "compute_mutation_parents", "compute_mutation_times",
            "deduplicate_sites", "canonicalise", "sort_individuals", "trim", "ltrim", "rtrim",
            "simplify", "tree_sequence", "copy", "asdict_fromdict", "dump_load", "pickle", "str",
            "has_index", "clear", "nbytes")


@op("tc.set_indexes", [("ins", "raw"), ("rem", "raw"), ("dtype", "raw")], needs="tc")
def _(c, ins, rem, dtype="int32"):
    import numpy as np
    import tskit
    n = len(c.tc.edges)

    def mk(spec):
        if spec == "id":
            return list(range(n))
        if spec == "rev":
            return list(range(n))[::-1]
        return [res_id(s, n) for s in spec]
    c.tc.indexes = tskit.TableCollectionIndexes(edge_insertion_order=np.array(mk(ins), dtype=dtype),
                                                edge_removal_order=np.array(mk(rem), dtype=dtype))
    return c.tc.has_index()


@op("tc.fromdict_mangled", [("table", "raw"), ("col", "raw"), ("how", "raw")], needs="tc")
def _(c, table, col, how):
    """TableCollection.fromdict on a dictionary with one malformed column."""
    import numpy as np
    import tskit
    d = c.tc.asdict()
    t = dict(d[table])
    a = np.array(t[col])
    if how == "short":
        a = a[:-1]
    elif how == "long":
        a = np.append(a, a[-1:] if len(a) else np.zeros(1, dtype=a.dtype))
    elif how == "empty":
        a = a[:0]
    elif how == "float":
        a = a.astype(np.float64)
    elif how == "int64big":
        a = a.astype(np.int64) + 2 ** 40
    elif how == "2d":
        a = a.reshape((-1, 1))
    elif how == "none":
        a = None
    elif how == "str":
        a = "abc"
    elif how == "off_first1" and len(a):
        a = a.copy()
        a[0] = 1
    elif how == "off_last+1" and len(a):
        a = a.copy()
        a[-1] += 1
    elif how == "off_dec" and len(a) > 2:
        a = a.copy()
        a[1] = a[-1] + 7
    elif how == "off_huge" and len(a):
        a = a.astype(np.uint64)
        a[-1] = 2 ** 62
    t[col] = a
    d[table] = t
    tc2 = tskit.TableCollection.fromdict(d)
    return [len(getattr(tc2, table)), len(str(getattr(tc2, table))[:10])]


@op("probe.tc")
def _(c):
    return _probe_tc(c)


OPS["probe.tc"].needs = "tc"


def _probe_tc(c):
    """Normal use of the table collection after boundary calls."""
    tc = c.tc
    out = []
    cp = tc.copy()
    out.append(cp.equals(tc))
    for t in TABLES:
        tab = getattr(tc, t)
        out.append(sum(1 for _ in tab))
    for m in ("sort", "build_index", "compute_mutation_parents", "tree_sequence", "simplify"):
        try:
            r = getattr(cp, m)()
            out.append("ok")
        except Exception as e:
            out.append(exc_name(e))
    try:
        ts = tc.tree_sequence()
        k = 0
        for t in ts.trees():
            k += t.num_edges
        for v in ts.variants():
            k += 1
        out.append(k)
    except Exception as e:
        out.append(exc_name(e))
    return out


# ----------------------------------------------------------------------------------
# extension round: array shapes / dtypes / strides, accessors, setters, mismatched objects
# ----------------------------------------------------------------------------------
def _weird_array(kind, base):
    """Variants of a 1-D array `base` (numpy): wrong dtype / shape / strides / containers."""
    import numpy as np
    b = np.asarray(base)
    if kind == "strided":
        return np.repeat(b, 2)[::2]                       # non-contiguous view, same values
    if kind == "reversed_view":
        return b[::-1][::-1] if len(b) else b
    if kind == "fortran2d":
        return np.asfortranarray(b.reshape((-1, 1)))
    if kind == "2d":
        return b.reshape((1, -1))
    if kind == "0d":
        return np.array(b[0]) if len(b) else np.array(0)
    if kind == "float":
        return b.astype(np.float64) + 0.5
    if kind == "int8":
        return b.astype(np.int8)
    if kind == "uint64big":
        return b.astype(np.uint64) + np.uint64(2 ** 63)
    if kind == "object":
        return np.array([None] * len(b), dtype=object)
    if kind == "str":
        return np.array(["x"] * len(b))
    if kind == "bytes":
        return b.tobytes()
    if kind == "list":
        return b.tolist()
    if kind == "readonly":
        c = b.copy()
        c.setflags(write=False)
        return c
    if kind == "bigendian":
        return b.astype(b.dtype.newbyteorder(">")) if b.dtype.itemsize > 1 else b
    if kind == "memoryview":
        return memoryview(np.ascontiguousarray(b))
    if kind == "longer":
        return np.concatenate([b, b[:1]]) if len(b) else np.zeros(1, dtype=b.dtype)
    if kind == "empty":
        return b[:0]
    raise ValueError(kind)


WEIRD = ["strided", "reversed_view", "fortran2d", "2d", "0d", "float", "int8", "uint64big", "object", "str",
         "bytes", "list", "readonly", "bigendian", "memoryview", "longer", "empty"]


@op("table.columns_weird", [("table", "raw"), ("col", "raw"), ("kind", "raw"), ("how", "raw")], needs="tc")
def _(c, table, col, kind, how="set"):
    """set_columns / append_columns / fromdict with ONE column replaced by a weird array."""
    import tskit
    t = getattr(c.tc, table)
    d = t.asdict()
    d.pop("metadata_schema", None)
    d[col] = _weird_array(kind, d[col])
    if how == "set":
        t.set_columns(**d)
    elif how == "append":
        t.append_columns(**d)
    else:
        full = c.tc.asdict()
        td = dict(full[table])
        td[col] = d[col]
        full[table] = td
        c.tc = tskit.TableCollection.fromdict(full)
        t = getattr(c.tc, table)
    return [t.num_rows, sum(1 for _ in t)]


@op("tc.indexes_weird", [("kind", "raw"), ("which", "raw")], needs="tc")
def _(c, kind, which="both"):
    import numpy as np
    import tskit
    n = len(c.tc.edges)
    base = np.arange(n, dtype=np.int32)
    w = _weird_array(kind, base)
    kw = {"edge_insertion_order": w if which in ("ins", "both") else base,
          "edge_removal_order": w if which in ("rem", "both") else base}
    c.tc.indexes = tskit.TableCollectionIndexes(**kw)
    return c.tc.has_index()


@op("tc.metadata_schema_raw", [("target", "raw"), ("value", "raw")], needs="tc")
def _(c, target, value):
    """assign arbitrary strings / bytes as metadata schema through the low-level setter (the
    Python layer parses the schema; the C layer stores any bytes) and then read rows back."""
    v = {"empty": "", "garbage": "{not json", "nul": "a\x00b", "long": "x" * 70000, "bytes": b"\xff\xfe",
         "struct": '{"codec":"struct","type":"object","properties":{"a":{"type":"integer","binaryFormat":"i"}}}',
         "json": '{"codec":"json"}', "none": None, "int": 7}[value]
    obj = c.tc if target == "tc" else getattr(c.tc, target)
    ll = c.tc._ll_tables if target == "tc" else obj.ll_table
    ll.metadata_schema = v
    out = [len(str(obj.metadata_schema))]
    if target != "tc":
        out.append(sum(1 for _ in obj))
    else:
        out.append(len(repr(c.tc.metadata)))
    return out


@op("tc.metadata_raw", [("value", "raw")], needs="tc")
def _(c, value):
    v = {"empty": b"", "bytes": b"\xff\x00\xfe", "long": b"x" * 100000, "str": "abc", "none": None, "dict": {"a": 1}}[value]
    c.tc.metadata = v
    return len(c.tc.metadata_bytes)


@op("tc.reference_sequence", [("field", "raw"), ("value", "raw")], needs="tc")
def _(c, field, value):
    v = {"empty": "", "acgt": "ACGT" * 3, "long": "A" * 100000, "nul": "A\x00C", "unicode": "é中", "bytes": b"AC",
         "none": None, "int": 5, "garbage": "{not json", "json": '{"codec":"json"}'}[value]
    rs = c.tc.reference_sequence
    if field == "clear":
        rs.clear()
    elif field == "metadata_schema_ll":
        c.tc._ll_tables.reference_sequence.metadata_schema = v
    elif field == "metadata":
        rs.metadata = {"a": 1} if value == "json" else v
    else:
        setattr(rs, field, v)
    cp = c.tc.copy()
    return [rs.is_null(), len(rs.data), len(rs.url), cp.reference_sequence.equals(rs), len(repr(rs)[:50])]


@op("ts.alignments_args", [("kw", "raw")])
def _(c, kw):
    L = c.L
    k = {}
    for key, val in kw.items():
        if key in ("left", "right"):
            k[key] = res_pos(val, L)
        elif key == "reference_sequence":
            k[key] = {"L": "A" * int(L), "L-1": "A" * max(int(L) - 1, 0), "L+1": "A" * (int(L) + 1), "empty": "",
                      "unicode": "é" * int(L), "none": None, "bytes": b"A" * int(L)}[val]
        else:
            k[key] = val
    return sum(len(a) for a in c.ts.alignments(**k))


@op("ts.haplotypes_args", [("kw", "raw")])
def _(c, kw):
    L = c.L
    k = {key: (res_pos(val, L) if key in ("left", "right") else val) for key, val in kw.items()}
    return sum(len(h) for h in c.ts.haplotypes(**k))


@op("ts.ibd_accessors", [("opts", "raw"), ("keys", "raw")])
def _(c, opts, keys):
    """IdentitySegments accessors with stored / unstored pairs and boundary keys."""
    n = c.ts.num_nodes
    r = c.ts.ibd_segments(**opts)
    out = [r.num_segments, repr(r.total_span)]
    for name in ("num_pairs", "pairs"):
        try:
            out.append(summarise(getattr(r, name)))
        except Exception as e:
            out.append(exc_name(e))
    for key in keys:
        k = tuple(res_id(x, n) for x in key)
        try:
            seglist = r[k]
            out.append([len(seglist), repr(seglist.total_span), summarise(seglist.left), len(list(seglist))])
        except Exception as e:
            out.append(exc_name(e))
    for f in (len, lambda x: sum(1 for _ in x), str, repr):
        try:
            out.append(summarise(f(r)) if not isinstance(f(r), str) else len(f(r)))
        except Exception as e:
            out.append(exc_name(e))
    return out


@op("tree.distance_other", [("which", "raw"), ("how", "raw")])
def _(c, which, how):
    """kc_distance / rf_distance against a tree of a DIFFERENT tree sequence."""
    import tskit
    if how == "fewer_samples":
        other = c.ts.simplify(c.ts.samples()[:-1], filter_nodes=True) if not len(c.ts.tables.edges.metadata) \
            else tskit.Tree.generate_star(max(c.ts.num_samples - 1, 2)).tree_sequence
    elif how == "more_nodes":
        other = tskit.Tree.generate_balanced(c.ts.num_samples + 3).tree_sequence
    elif how == "empty":
        tcx = tskit.TableCollection(1)
        other = tcx.tree_sequence()
    elif how == "null_tree":
        t2 = tskit.Tree(c.ts)
        return getattr(c.tree, which)(t2) if which == "rf_distance" else c.tree.kc_distance(t2)
    else:
        other = tskit.Tree.generate_comb(max(c.ts.num_samples, 2)).tree_sequence
    t2 = other.first() if other.num_trees else tskit.Tree(other)
    if which == "rf_distance":
        return c.tree.rf_distance(t2)
    if which == "ts_kc":
        return c.ts.kc_distance(other)
    return c.tree.kc_distance(t2)


@op("tc.pickle_mangled", [("table", "raw"), ("col", "raw"), ("how", "raw")], needs="tc")
def _(c, table, col, how):
    """unpickle a table collection whose pickled state (a dict of arrays) was damaged"""
    import pickle
    import numpy as np
    st = c.tc.__getstate__() if hasattr(c.tc, "__getstate__") else c.tc.asdict()
    st = dict(st)
    td = dict(st[table])
    a = np.array(td[col])
    if how == "short":
        a = a[:-1]
    elif how == "long":
        a = np.append(a, a[-1:] if len(a) else np.zeros(1, dtype=a.dtype))
    elif how == "float":
        a = a.astype(np.float64)
    elif how == "ids_big":
        a = (a.astype(np.int64) + 2 ** 20).astype(a.dtype) if a.dtype.kind in "iu" else a
    td[col] = a
    st[table] = td
    import tskit
    new = tskit.TableCollection.__new__(tskit.TableCollection)
    new.__setstate__(st)
    c.tc = pickle.loads(pickle.dumps(new))
    return [len(getattr(c.tc, table)), c.tc.has_index()]


@op("ts.stat_arrays", [("stat", "raw"), ("what", "raw"), ("kind", "raw"), ("mode", "raw")])
def _(c, stat, what, kind, mode="site"):
    """statistics called with sample_sets / indexes / windows given as weird arrays"""
    import numpy as np
    samples = np.array(c.ts.samples()[:2], dtype=np.int32)
    sets = [samples[:1], samples[1:2]] if stat in MULTI_WAY else [samples]
    kw = {"mode": mode}
    if what == "sets":
        sets = [_weird_array(kind, s) for s in sets]
    elif what == "sets_flat":
        sets = _weird_array(kind, samples)
    elif what == "windows":
        kw["windows"] = _weird_array(kind, np.array([0, c.L / 2, c.L]))
    elif what == "indexes" and stat in MULTI_WAY:
        k = MULTI_WAY[stat]
        sets = [samples[:1], samples[1:2], samples, samples[::-1]]
        kw["indexes"] = _weird_array(kind, np.arange(k, dtype=np.int32))
    return getattr(c.ts, stat)(sets, **kw)


@op("ts.time_windows", [("fn", "raw"), ("tw", "raw"), ("kind", "raw")])
def _(c, fn, tw, kind=None):
    import numpy as np
    a = np.array([res_pos(x, 1.0) for x in tw], dtype=float)
    if kind:
        a = _weird_array(kind, a)
    if fn == "counts":
        return c.ts.pair_coalescence_counts(time_windows=a)
    if fn == "rates":
        return c.ts.pair_coalescence_rates(a)
    if fn == "pca":
        return summarise(c.ts.pca(1, time_windows=a, random_seed=1)[0]) if hasattr(c.ts, "pca") else None
    return c.ts.pair_coalescence_quantiles(a)


@op("ts.ld_positions", [("positions", "raw"), ("stat", "raw")])
def _(c, positions, stat="r2"):
    return c.ts.ld_matrix(mode="branch", stat=stat, positions=[[res_pos(x, c.L) for x in row] for row in positions])


def _pick(samples, which):
    import numpy as np
    s = np.asarray(samples)
    return {"all": s, "even": s[::2], "odd": s[1::2], "rev": s[::-1], "first_half": s[:len(s) // 2],
            "all_but_one": s[:-1], "one": s[:1], "two": s[:2]}[which]


@op("big.simplify", [("which", "raw"), ("opts", "raw"), ("on", "raw")])
def _(c, which, opts=None, on="ts"):
    smp = _pick(c.ts.samples(), which)
    if on == "ts":
        out = c.ts.simplify(smp, **(opts or {}))
        return [out.num_nodes, out.num_edges, out.num_mutations]
    t = c.ts.dump_tables()
    t.simplify(smp, **(opts or {}))
    return [len(t.nodes), len(t.edges), len(t.mutations)]


@op("big.ibd", [("which", "raw"), ("opts", "raw")])
def _(c, which, opts=None):
    smp = _pick(c.ts.samples(), "all" if which == "between" else which)
    if which == "between":
        r = c.ts.ibd_segments(between=[smp[::2], smp[1::2]], **(opts or {}))
    else:
        r = c.ts.ibd_segments(within=smp, **(opts or {}))
    return [r.num_segments, repr(r.total_span)]


@op("big.link_ancestors", [("which", "raw"), ("anc", "raw")])
def _(c, which, anc="internal"):
    import numpy as np
    t = c.ts.dump_tables()
    smp = _pick(c.ts.samples(), which)
    internal = np.array([u for u in range(c.ts.num_nodes) if not c.ts.node(u).is_sample()], dtype=np.int32)
    ancs = internal if anc == "internal" else internal[-1:]
    return len(t.link_ancestors(smp, ancs))


@op("big.subset", [("which", "raw"), ("opts", "raw")])
def _(c, which, opts=None):
    import numpy as np
    nodes = np.arange(c.ts.num_nodes, dtype=np.int32)
    nodes = {"all": nodes, "rev": nodes[::-1], "even": nodes[::2], "samples": c.ts.samples(),
             "dup": np.concatenate([nodes, nodes])}[which]
    out = c.ts.subset(nodes, **(opts or {}))
    return [out.num_nodes, out.num_edges]


@op("big.misc", [("what", "raw")])
def _(c, what):
    import numpy as np
    ts = c.ts
    if what == "sort_shuffled":
        t = ts.dump_tables()
        e = t.edges.copy()
        t.edges.clear()
        for i in reversed(range(len(e))):
            t.edges.append(e[i])
        t.sort()
        return t.tree_sequence().num_edges
    if what == "keep_intervals":
        return ts.keep_intervals([[0, ts.sequence_length / 2]]).num_edges
    if what == "delete_intervals":
        return ts.delete_intervals([[0, ts.sequence_length / 3]]).num_edges
    if what == "variants":
        return sum(int(v.genotypes.sum()) for v in ts.variants())
    if what == "genotype_matrix":
        return ts.genotype_matrix()
    if what == "map_mutations":
        g = np.arange(ts.num_samples, dtype=np.int8) % 4
        a, m = ts.first().map_mutations(g, ["A", "C", "G", "T"])
        return [a, len(m)]
    if what == "map_mutations_64":
        g = (np.arange(ts.num_samples) % 64).astype(np.int8)
        a, m = ts.first().map_mutations(g, [str(i) for i in range(64)])
        return [a, len(m)]
    if what == "stats":
        return [repr(ts.diversity(mode="branch")), repr(ts.segregating_sites(mode="site")),
                summarise(ts.allele_frequency_spectrum(mode="branch", polarised=True))]
    if what == "divmat":
        return ts.divergence_matrix(mode="branch") if ts.num_samples <= 260 else None
    if what == "newick":
        return sum(len(t.as_newick()) for t in ts.trees() if t.num_roots == 1)
    if what == "trees":
        return sum(t.num_edges + len(list(t.nodes())) for t in ts.trees(sample_lists=True))
    if what == "dump_load":
        c.tc = ts.dump_tables()
        return OPS["tc.call"].fn(c, "dump_load")
    if what == "union":
        t = ts.dump_tables()
        other = ts.dump_tables()
        t.union(other, np.arange(ts.num_nodes, dtype=np.int32), check_shared_equality=True)
        return len(t.nodes)
    if what == "extend":
        t = ts.dump_tables()
        return [len(t.nodes[np.arange(len(t.nodes))[::-1]]), len(t.edges[:]), len(t.mutations[::2])]
    if what == "decapitate":
        return ts.decapitate(0.5).num_nodes
    if what == "split_edges":
        return ts.split_edges(0.5).num_nodes
    if what == "extend_haplotypes":
        return ts.extend_haplotypes().num_edges
    if what == "count_topologies":
        smp = ts.samples()
        return sum(1 for _ in ts.count_topologies([smp[:2], smp[2:4]])) if ts.num_samples >= 4 else 0
    if what == "gnn":
        smp = ts.samples()
        return ts.genealogical_nearest_neighbours(smp[:3], [smp[::2], smp[1::2]])
    if what == "trim_rows":
        t = ts.dump_tables()
        for tab in (t.mutations, t.sites, t.edges):
            tab.truncate(len(tab) // 2)
            tab.keep_rows(np.arange(len(tab)) % 2 == 0)
        return [len(t.edges), len(t.mutations)]
    raise ValueError(what)


BIG_MISC = ["sort_shuffled", "keep_intervals", "delete_intervals", "variants", "genotype_matrix", "map_mutations",
            "map_mutations_64", "stats", "divmat", "newick", "trees", "dump_load", "union", "extend", "decapitate",
            "split_edges", "extend_haplotypes", "count_topologies", "gnn", "trim_rows"]


@op("tc.set_index_one", [("which", "raw"), ("pos", "raw"), ("v", "raw")], needs="tc")
def _(c, which, pos, v):
    """user-supplied indexes: ONE element of ONE of the two arrays replaced by a boundary id,
    the other array left valid"""
    import numpy as np
    import tskit
    t = c.tc
    if not t.has_index():
        t.build_index()
    ins = np.array(t.indexes.edge_insertion_order, dtype=np.int32)
    rem = np.array(t.indexes.edge_removal_order, dtype=np.int32)
    n = len(t.edges)
    arr = ins if which == "ins" else rem
    if n:
        arr[{"first": 0, "last": n - 1, "mid": n // 2}[pos]] = res_id(v, n)
    t.indexes = tskit.TableCollectionIndexes(edge_insertion_order=ins, edge_removal_order=rem)
    return t.has_index()


REQUIRED = {"nodes": ["flags", "time"], "edges": ["left", "right", "parent", "child"],
            "sites": ["position", "ancestral_state", "ancestral_state_offset"],
            "mutations": ["site", "node", "derived_state", "derived_state_offset"], "individuals": ["flags"],
            "populations": ["metadata", "metadata_offset"],
            "migrations": ["left", "right", "node", "source", "dest", "time"],
            "provenances": ["timestamp", "timestamp_offset", "record", "record_offset"]}


def _resized(a, n):
    import numpy as np
    a = np.asarray(a)
    return np.resize(a, n) if a.shape[0] else np.zeros(n, dtype=a.dtype)


@op("table.columns_min_len", [("table", "raw"), ("col", "raw"), ("len", "raw"), ("how", "raw"), ("keep", "raw")], needs="tc")
def _(c, table, col, len, how="set", keep="required"):
    """set_columns / append_columns / fromdict with ONE column longer or shorter than the others
    and the OPTIONAL columns absent (keep == "required": only the required columns and the one
    under test are passed; keep == "all": every column)."""
    import tskit
    t = getattr(c.tc, table)
    full = t.asdict()
    full.pop("metadata_schema", None)
    names = list(full) if keep == "all" else list(REQUIRED[table])
    if col not in names:
        names.append(col)
        if col + "_offset" in full and col + "_offset" not in names:
            names.append(col + "_offset")
        if col.endswith("_offset") and col[:-7] not in names:
            names.append(col[:-7])
    d = {k: full[k] for k in names}
    base = d[col].shape[0]
    d[col] = _resized(d[col], _len_sym(len, base))
    if how == "set":
        t.set_columns(**d)
    elif how == "append":
        t.append_columns(**d)
    else:
        whole = c.tc.asdict()
        td = {k: v for k, v in d.items()}
        td["metadata_schema"] = whole[table].get("metadata_schema", "")
        whole[table] = td
        c.tc = tskit.TableCollection.fromdict(whole)
        t = getattr(c.tc, table)
    return [t.num_rows, sum(1 for _ in t)]


@op("ts.relatedness_weighted", [("cols", "raw"), ("idx", "raw"), ("opts", "raw"), ("mode", "raw")])
def _(c, cols, idx, opts=None, mode="branch"):
    import numpy as np
    W = np.arange(c.ts.num_samples * cols, dtype=float).reshape((c.ts.num_samples, cols)) + 1
    tuples = [tuple(res_id(x, cols) for x in t) for t in idx]
    return c.ts.genetic_relatedness_weighted(W, indexes=tuples, mode=mode, **(opts or {}))


@op("individuals.keep_rows_parents", [("parents", "raw"), ("keep", "raw")], needs="tc")
def _(c, parents, keep):
    """IndividualTable.keep_rows on a table whose rows have the given parents lists (symbols
    resolved against the number of rows); keep = '1'/'0' per row."""
    import numpy as np
    t = c.tc.individuals
    n = len(parents)
    t.clear()
    for ps in parents:
        t.add_row(parents=[res_id(x, n) for x in ps])
    r = t.keep_rows(np.array([k == "1" for k in keep], dtype=bool))
    return [t.num_rows, summarise(r), sum(len(row.parents) for row in t)]


@op("mutations.keep_rows_parents", [("parent", "raw"), ("keep", "raw")], needs="tc")
def _(c, parent, keep):
    """MutationTable.keep_rows with the given parent column (one site, node 0)"""
    import numpy as np
    tc = c.tc
    n = len(parent)
    tc.mutations.clear()
    if not len(tc.sites):
        tc.sites.add_row(0.5, "A")
    for p in parent:
        tc.mutations.add_row(site=0, node=0, derived_state="T", parent=-1)
    tc.mutations.parent = np.array([res_id(p, n) for p in parent], dtype=np.int32)    # add_row refuses ids < -1
    r = tc.mutations.keep_rows(np.array([k == "1" for k in keep], dtype=bool))
    return [tc.mutations.num_rows, summarise(r), int(sum(tc.mutations.parent))]


@op("tc.stale_index", [("how", "raw")], needs="tc")
def _(c, how):
    """index built, THEN the edge table grown / shrunk / replaced without a re-index: the stored
    index arrays keep their old length (the library's only protection is the num_edges comparison
    of tsk_table_collection_has_index).  Returns "indexed_edges,edges_now,has_index"."""
    import numpy as np
    t = c.tc
    if how.startswith("empty+"):
        t.edges.clear()
    t.build_index()
    old = len(t.edges)
    root = len(t.nodes) - 1
    L = t.sequence_length
    if how.startswith(("grow", "empty+")):
        k = int(how.split("+")[1]) if "+" in how else int(how[4:])
        for j in range(k):
            t.edges.add_row(0, L, root, j % max(root, 1))
    elif how == "append_self":
        d = t.edges.asdict()
        d.pop("metadata_schema", None)
        t.edges.append_columns(**d)
    elif how == "truncate":
        t.edges.truncate(max(old - 1, 0))
    elif how == "keep_rows":
        t.edges.keep_rows(np.arange(old) % 2 == 0)
    elif how == "clear":
        t.edges.clear()
    elif how == "set_columns_more":
        d = t.edges.asdict()
        d.pop("metadata_schema", None)
        for k_ in ("left", "right", "parent", "child"):
            d[k_] = np.concatenate([d[k_], d[k_][:2]])
        d["metadata_offset"] = np.concatenate([d["metadata_offset"], d["metadata_offset"][-1:].repeat(min(2, old))])
        t.edges.set_columns(**d)
    elif how == "same_count":
        if old:
            row = t.edges[old - 1]
            t.edges.truncate(old - 1)
            t.edges.append(row)
    else:
        raise ValueError(how)
    return "%d,%d,%d" % (old, len(t.edges), int(t.has_index()))      # a string survives summarise()


@op("tc.load_tables", [("build_indexes", "raw")], needs="tc")
def _(c, build_indexes):
    import tskit
    ts = tskit.TreeSequence.load_tables(c.tc, build_indexes=build_indexes)
    return [ts.num_edges, ts.num_trees]


STALE_HOWS = ["grow1", "grow3", "grow64", "empty+1", "empty+65", "append_self", "truncate", "keep_rows", "clear",
              "set_columns_more", "same_count"]
COPY_USERS = [
    [{"op": "tc.subset", "args": {"nodes": ["0", "1"], "opts": {}}}],
    [{"op": "tc.subset", "args": {"nodes": ["0", "n-1"], "opts": {"reorder_populations": False, "remove_unreferenced": False}}}],
    [{"op": "tc.simplify", "args": {"samples": ["0", "1"], "opts": {}}}],
    [{"op": "tc.simplify", "args": {"samples": None, "opts": {"keep_unary": True}}}],
    [{"op": "tc.union_self", "args": {"mapping": {}, "opts": {"check_shared_equality": True}}}],
    [{"op": "tc.union_other", "args": {"mapping": {"fill": "-1"}, "opts": {"check_shared_equality": False}}}],
    [{"op": "tc.call", "args": {"m": "canonicalise"}}],
    [{"op": "tc.load_tables", "args": {"build_indexes": False}}],
    [{"op": "tc.load_tables", "args": {"build_indexes": True}}],
    [{"op": "tc.delete_older", "args": {"t": "mid"}}],
    [{"op": "tc.ibd_all", "args": {"opts": {}}}],
    [{"op": "tc.link_ancestors", "args": {"samples": ["0", "1"], "ancestors": ["n-1"]}}],
    [{"op": "tc.call", "args": {"m": "compute_mutation_parents"}}],
    [{"op": "tc.call", "args": {"m": "compute_mutation_times"}}],
    [{"op": "tc.call", "args": {"m": "trim"}}],
    [{"op": "tc.keep_intervals", "args": {"iv": [["0", "mid"]], "opts": {}}}],
    [{"op": "tc.call", "args": {"m": "copy"}}, {"op": "tc.call", "args": {"m": "has_index"}}],
    [{"op": "tc.call", "args": {"m": "dump_load"}}],
    [{"op": "tc.call", "args": {"m": "asdict_fromdict"}}],
    [{"op": "tc.call", "args": {"m": "pickle"}}],
    [{"op": "tc.call", "args": {"m": "tree_sequence"}}, {"op": "probe.tree", "args": {}}],
    [{"op": "tc.call", "args": {"m": "sort"}}, {"op": "tc.call", "args": {"m": "tree_sequence"}}],
    [{"op": "tc.call", "args": {"m": "deduplicate_sites"}}, {"op": "tc.call", "args": {"m": "sort_individuals"}}],
    [{"op": "tc.call", "args": {"m": "drop_index"}}, {"op": "tc.call", "args": {"m": "build_index"}}],
]


# ----------------------------------------------------------------------------------
# bases
# ----------------------------------------------------------------------------------
def valid_bases(rng, k, **kw):
    out = []
    tries = 0
    while len(out) < k and tries < 50 * k:
        tries += 1
        d = gen_ts.random_desc(rng, **kw)
        if len(d["nodes"]) < 3 or not d["edges"]:
            continue
        if not (d["nodes"][0][0] & 1 and d["nodes"][1][0] & 1):
            continue            # nodes 0 and 1 are samples in every valid base (default arguments)
        out.append(d)
    return out


def base_valid(rng, desc, tree=None):
    if tree is None:
        tree = {"index": rng.choice([None, 0, 0, 1, 5]), "sample_lists": rng.random() < 0.5}
        if rng.random() < 0.3:
            tree["tracked"] = ["0"]
    return {"kind": "valid", "desc": desc, "tree": tree}


MANGLE_IDS = ["-2", "-1", "n", "n+1", "max", "min", "-3", "-1000"]


MANGLE_KINDS = ["edge_id", "mut_id", "node_ref", "ind_parent", "mig_id", "edge_coord", "site_pos",
                "time", "shuffle", "dup_edge", "self_edge", "mut_parent_cycle", "seqlen"]
# an out-of-range cross-table reference TOGETHER WITH the structural precondition that makes a repair
# tool do work (duplicate site positions, unsorted rows)
MANGLE_COMBOS = [["site_pos:dup", "mut_id:site"], ["site_pos:dup", "mut_id:parent"], ["site_pos:unsorted", "mut_id:site"],
                 ["shuffle", "mut_id:node"], ["shuffle", "edge_id:parent"], ["shuffle", "edge_id:child"],
                 ["site_pos:dup", "mut_id:node"], ["dup_edge", "edge_id:child"], ["site_pos:dup", "node_ref"],
                 ["shuffle", "mut_id:parent"], ["site_pos:unsorted", "mut_id:parent"], ["site_pos:dup", "ind_parent"]]
REF_KINDS = ("edge_id", "mut_id", "node_ref", "ind_parent", "mig_id")
CHECKING_CALLS = ("sort", "deduplicate_sites", "compute_mutation_parents", "compute_mutation_times", "canonicalise",
                  "simplify", "tree_sequence")


def mangle_desc(rng, desc, kinds=None):
    """Turn a valid description into an arbitrary (usually invalid) one.  Returns
    (desc', tags).  Rows keep the layout of harness/gen_ts.py; coordinates may become the
    strings 'nan' / 'inf' (converted by float() in build_raw)."""
    import copy
    d = copy.deepcopy(desc)
    d["scale"] = 1
    tags = []
    nn = len(d["nodes"])
    if kinds is None:
        kinds = rng.sample(MANGLE_KINDS, rng.choice([1, 1, 2, 3]))
    for kind in kinds:
        kind, _, param = kind.partition(":")          # e.g. "mut_id:site", "site_pos:dup"
        if kind == "edge_id" and d["edges"]:
            e = rng.choice(d["edges"])
            f = {"parent": 2, "child": 3}.get(param) or rng.choice([2, 3])
            s = rng.choice(MANGLE_IDS)
            e[f] = res_id(s, nn)
            tags.append("edges.%s=%s" % ("parent" if f == 2 else "child", s))
        elif kind == "mut_id" and d["mutations"]:
            m = rng.choice(d["mutations"])
            f = {"site": 0, "node": 1, "parent": 3}.get(param, None)
            f = rng.choice([0, 1, 3]) if f is None else f
            n = [len(d["sites"]), nn, None, len(d["mutations"])][f]
            s = rng.choice(MANGLE_IDS)
            m[f] = res_id(s, n)
            tags.append("mutations.%s=%s" % (["site", "node", "", "parent"][f], s))
        elif kind == "node_ref" and d["nodes"]:
            nd = rng.choice(d["nodes"])
            f = rng.choice([2, 3])
            n = len(d["populations"]) if f == 2 else len(d["individuals"])
            s = rng.choice(MANGLE_IDS)
            nd[f] = res_id(s, n)
            tags.append("nodes.%s=%s" % ("population" if f == 2 else "individual", s))
        elif kind == "ind_parent":
            if not d["individuals"]:
                d["individuals"].append([0, [], [], ""])
            ind = rng.choice(d["individuals"])
            s = rng.choice(MANGLE_IDS)
            ind[2] = [res_id(s, len(d["individuals"]))]
            tags.append("individuals.parents=%s" % s)
        elif kind == "mig_id":
            s = rng.choice(MANGLE_IDS)
            f = rng.choice([2, 3, 4])
            row = [0, d["L"], 0, 0, 0, 1, ""]
            row[f] = res_id(s, nn if f == 2 else len(d["populations"]))
            d["migrations"].append(row)
            tags.append("migrations.%s=%s" % (["", "", "node", "source", "dest"][f], s))
        elif kind == "edge_coord" and d["edges"]:
            e = rng.choice(d["edges"])
            f = rng.choice([0, 1])
            v = rng.choice(["nan", "inf", "-inf", -1, d["L"] + 1, e[1 - f]])
            e[f] = v
            tags.append("edges.%s=%s" % ("left" if f == 0 else "right", v if isinstance(v, str) else "bad"))
        elif kind == "site_pos":
            v = param or rng.choice(["nan", "inf", -1, d["L"], d["L"] + 1, "dup", "unsorted"])
            if v == "dup" and not d["sites"]:
                d["sites"].append([0, "A", ""])
            if v == "dup" and d["sites"]:
                d["sites"].append(list(d["sites"][0]))
            elif v == "unsorted" and len(d["sites"]) > 1:
                d["sites"].reverse()
            else:
                d["sites"].append([v if v not in ("dup", "unsorted") else 0, "A", ""])
            tags.append("sites.position=%s" % (v if isinstance(v, str) else "bad"))
        elif kind == "time" and d["nodes"]:
            v = rng.choice(["nan", "inf", "-inf", "swap"])
            ok_edges = [e for e in d["edges"] if 0 <= e[2] < nn and 0 <= e[3] < nn]
            if v == "swap" and ok_edges:
                e = rng.choice(ok_edges)
                d["nodes"][e[2]][1], d["nodes"][e[3]][1] = d["nodes"][e[3]][1], d["nodes"][e[2]][1]
            else:
                rng.choice(d["nodes"])[1] = v if v != "swap" else "nan"
            tags.append("nodes.time=%s" % v)
        elif kind == "shuffle":
            rng.shuffle(d["edges"])
            d["edges"].sort(key=lambda e: -e[2] if isinstance(e[2], int) else 0)
            tags.append("edges.unsorted")
        elif kind == "dup_edge" and d["edges"]:
            d["edges"].append(list(rng.choice(d["edges"])))
            tags.append("edges.duplicate")
        elif kind == "self_edge" and d["edges"]:
            e = rng.choice(d["edges"])
            e[2] = e[3]
            tags.append("edges.parent=child")
        elif kind == "mut_parent_cycle" and d["mutations"]:
            k = rng.randrange(len(d["mutations"]))
            d["mutations"][k][3] = rng.choice([k, len(d["mutations"]) - 1])
            tags.append("mutations.parent=self_or_later")
        elif kind == "seqlen":
            d["L"] = rng.choice([1, 1, max(1, d["L"] - 1)])
            tags.append("sequence_length=small")
    return d, sorted(set(tags))


def _f(v):
    return float(v) if isinstance(v, str) else v


def desc_to_floats(d):
    """'nan'/'inf' strings of a mangled description -> floats (in place on a copy)."""
    import copy
    d = copy.deepcopy(d)
    for e in d["edges"]:
        e[0], e[1] = _f(e[0]), _f(e[1])
    for s in d["sites"]:
        s[0] = _f(s[0])
    for n in d["nodes"]:
        n[1] = _f(n[1])
    for m in d["mutations"]:
        m[4] = _f(m[4]) if m[4] is not None else None
    return d


_build_raw_inner = build_raw


ID_FIELDS = {"edges": {2: "parent", 3: "child"}, "mutations": {0: "site", 1: "node", 3: "parent"},
             "nodes": {2: "population", 3: "individual"}, "migrations": {2: "node", 3: "source", 4: "dest"}}


def build_raw(base):      # noqa: F811  (wraps the table construction with float conversion)
    """add_row refuses ids below -1, so such values (and only they) are written afterwards by
    column assignment — the way they arrive in practice (set_columns, fromdict, files)."""
    import copy
    import numpy as np
    b = dict(base)
    d = desc_to_floats(base["desc"])
    d = copy.deepcopy(d)
    fixes = []
    for table, fields in ID_FIELDS.items():
        for ri, row in enumerate(d[table]):
            for fi, col in fields.items():
                if isinstance(row[fi], int) and row[fi] < -1:
                    fixes.append((table, col, ri, row[fi]))
                    row[fi] = -1
    ind_fixes = []
    for ri, row in enumerate(d["individuals"]):
        for k, v in enumerate(row[2]):
            if v < -1:
                ind_fixes.append((ri, k, v))
                row[2][k] = -1
    post_sort, post_index = b.get("sort"), b.get("index")
    if fixes or ind_fixes:
        b["sort"], b["index"] = False, None
    b["desc"] = d
    tc = _build_raw_inner(b)
    if fixes or ind_fixes:
        for table, col, ri, v in fixes:
            t = getattr(tc, table)
            a = np.array(getattr(t, col))
            a[ri] = v
            setattr(t, col, a)
        if ind_fixes:
            t = tc.individuals
            a = np.array(t.parents)
            off = t.parents_offset
            for ri, k, v in ind_fixes:
                a[int(off[ri]) + k] = v
            t.parents = a
        b2 = dict(base, desc={k: ([] if isinstance(v, list) else v) for k, v in d.items()})
        if post_sort:
            try:
                tc.sort()
            except Exception:
                pass
        if post_index == "build":
            try:
                tc.build_index()
            except Exception:
                pass
        elif isinstance(post_index, dict):
            import tskit
            tc.indexes = tskit.TableCollectionIndexes(
                edge_insertion_order=np.array(post_index["ins"], dtype=np.int32),
                edge_removal_order=np.array(post_index["rem"], dtype=np.int32))
    return tc


NULL_OK = ("mutations.parent", "nodes.population", "nodes.individual", "individuals.parents")


def invalid_ref_tags(tags):
    """Does the damage include a cross-table reference that check_integrity must refuse?"""
    for tg in tags:
        if "=" not in tg or "." not in tg:
            continue
        col, val = tg.split("=", 1)
        if col.split(".")[0] not in ("edges", "mutations", "nodes", "individuals", "migrations"):
            continue
        if col.split(".")[1] not in ("parent", "child", "site", "node", "population", "individual", "parents",
                                     "source", "dest"):
            continue
        if val in MANGLE_IDS and not (val == "-1" and col in NULL_OK):
            return True
    return False


def base_raw(rng, desc, kinds=None):
    d, tags = mangle_desc(rng, desc, kinds)
    b = {"kind": "raw", "desc": d, "tags": tags, "sort": rng.random() < 0.5,
         "index": rng.choice([None, "build", "build"])}
    if rng.random() < 0.2:
        ne = len(d["edges"])
        pool = list(range(ne)) + [res_id(s, ne) for s in ("-1", "n", "n+1", "max", "-2")]
        b["index"] = {"ins": [rng.choice(pool) for _ in range(ne)], "rem": [rng.choice(pool) for _ in range(ne)]}
        b["tags"] = tags + ["indexes=arbitrary"]
    return b


# ----------------------------------------------------------------------------------
# oracle pieces
# ----------------------------------------------------------------------------------
def env_count(env, table, needs):
    if env is None:
        return None
    src = env.get("tc") if (needs == "tc" or env.get("ts") is None) else env.get("ts")
    if src is None:
        return None
    return src.get(table)


def expected_verdict(st, env):
    """From the property text: an identifier outside the valid range of its kind must be
    rejected.  Returns 'raise' or None (no demand)."""
    if st.get("expect"):
        return st["expect"] if st["expect"] != "any" else None
    o = OPS[st["op"]]
    a = st.get("args", {})
    # wrong-length arrays must be rejected (property text)
    if st["op"] in ("table.keep_rows", "table.ll_keep_rows", "table.getitem_mask") and a.get("len") != "n":
        n = env_count(env, a.get("table"), "tc")
        if n is not None and _len_sym(a["len"], n) != n:
            return "raise"
    if st["op"] == "table.columns_min_len" and env and env.get("collens") and a.get("len") in ("n-1", "n+1", "2n"):
        base = env["collens"].get(a.get("col"))
        ragged_data = a.get("col") in RAGGED_ALL          # data of a ragged column: any length is legal
        t = a["table"]
        present = list(env["collens"]) if a.get("keep") == "all" else list(REQUIRED[t]) + [a["col"]]
        others = [k for k in present if k != a["col"] and (k in FIXEDCOLS[t] or k.endswith("_offset"))]
        if base is not None and not ragged_data and others and _len_sym(a["len"], base) != base \
                and env_count(env, t, "tc"):
            return "raise"            # a row-count-bearing column that disagrees with another one
    if st["op"] in ("tree.map_mutations", "tree.ll_map_mutations") and env and env.get("ts"):
        g = a.get("g") or {}
        ns = env["ts"]["samples"]
        n = {"ns": ns, "ns-1": ns - 1, "ns+1": ns + 1, "0": 0, "2ns": 2 * ns}[g.get("len", "ns")]
        if n != ns or g.get("shape2"):
            return "raise"
    if st["op"] in ("table.set_columns_len", "table.append_columns_len") and a.get("len") in ("n-1", "n+1", "2n") \
            and not a.get("col", "").endswith("_offset") and a.get("col") not in RAGGED_ALL:
        n = env_count(env, a.get("table"), "tc")
        if n:                                   # a fixed-width column whose length differs from the others
            return "raise"
    for pname, kind in o.params:
        if kind == "pos_seq" and pname in st.get("args", {}):
            if st["args"][pname] in ("-1", "L", "L+1", "nan", "inf", "-inf"):
                return "raise"           # a genome position outside [0, L) (incl. non-finite)
            continue
        if kind not in KINDS or pname not in st.get("args", {}):
            continue
        k = KINDS[kind]
        n = env_count(env, k["table"], o.needs)
        if n is None:
            continue
        syms = st["args"][pname]
        if syms is None:
            continue
        for s in (syms if k["list"] else [syms]):
            if id_valid(s, n, k["policy"]) is False:
                return "raise"
    return None


def case_failures(case, obs):
    fails = []
    steps = case["steps"]
    suffix = ""
    if case["base"].get("tags"):
        suffix = "@" + "+".join(case["base"]["tags"])
    died = obs.get("died")
    if died:
        k = died["at"]
        st = steps[k] if k is not None and 0 <= k < len(steps) else {"op": "base.build", "args": {}}
        kind = "hang" if died["kind"] == "hang" else "crash"
        where = ""
        # markers that make the class of a crash precise independently of the symbols used:
        #   !eqn  some identifier argument is numerically equal to the row count of its table
        #   @after-table-edits  the tables were edited by earlier steps of the sequence
        env = obs.get("env_at_death")
        if env is not None and st["op"] in OPS:
            o = OPS[st["op"]]
            eqn = False
            for pname, pk in o.params:
                if pk in KINDS and pname in st.get("args", {}) and st["args"][pname] is not None:
                    n = env_count(env, KINDS[pk]["table"], o.needs)
                    syms = st["args"][pname]
                    for sy in (syms if KINDS[pk]["list"] else [syms]):
                        try:
                            eqn = eqn or (n is not None and res_id(sy, n) == n)
                        except Exception:
                            pass
            if eqn:
                suffix = "!eqn" + suffix
        if not case["base"].get("tags") and k is not None and k > 0 and any(
                x["op"].startswith(("table.", "tc.")) for x in steps[:k]):
            suffix = suffix + "@after-table-edits"
        for line in died.get("report") or []:
            if line.startswith("at "):
                where = "#" + line.split()[1]          # first tskit frame of the ASan report
            elif "Bug detected in" in line:
                where = "#tsk_bug_assert"
        fails.append((step_key(kind, st) + suffix + where,
                      "%s at step %s: %s" % (died["kind"], k, "; ".join(died.get("report") or []))))
    for k, loc, msg in obs.get("ubsan") or []:
        if "null pointer passed as argument" in msg and loc.split(":")[0] == "core.c":
            # memcpy/memmove/memcmp/memset(.., NULL, 0) inside the tsk_mem* wrappers: keyed by the
            # wrapper, not by the (many) callers
            fails.append(("ubsan:nonnull:%s" % loc, "UBSan: %s (%s)" % (msg, loc)))
        else:
            st = steps[k] if 0 <= k < len(steps) else {"op": "base.build", "args": {}}
            fails.append(("ubsan:%s:%s:%s" % (st["op"], argclass(st), loc) + suffix, "UBSan: %s" % msg))
    if obs.get("base") and obs["base"][0] == "exc" and case["base"]["kind"] in ("valid", "shape"):
        fails.append(("base-build-failed", "valid base did not build: %r" % (obs["base"],)))
    for st, r in zip(steps, obs["steps"]):
        if r is None or r[0] == "skip":
            continue
        if r[0] == "exc" and r[1] in ("SystemError",):
            fails.append((step_key("systemerror", st) + suffix, "%s: %s" % (r[1], r[2])))
        exp = expected_verdict(st, r[3] if len(r) > 3 else None)
        if exp == "raise" and r[0] == "ok":
            fails.append((step_key("accepted", st) + suffix,
                          "out-of-range argument accepted, returned %r" % (r[1],)))
        if exp == "ok" and r[0] == "exc":
            fails.append((step_key("rejected", st) + suffix, "valid call raised %s: %s" % (r[1], r[2])))
    return fails


class Monitor(Family):
    """Common machinery: observe = run the sequence in a grand-child under the sanitizers."""
    timeout = 120.0             # runner's wall cap per case; the per-step CPU-time watchdog of fork_run fires first
    coq_timeout = 300           # a case file that does not evaluate within 5 min is a broken correspondence, not a stall
    shard = 300
    workers = max(1, min(8, int(os.environ.get("VERIF_WORKERS", "6") or 6)))
    prelude = ("From Coq Require Import String.\nFrom TskVerif Require Import Base.Common Gen.Generated C09.Guards "
               "C09.Guards2 C09.Guards3 C09.Guards4.\nOpen Scope Z_scope.")
    tail = ()

    def observe(self, case):
        return served_run(case)

    def oracle(self, case, obs):
        return case_failures(case, obs)

    def nontrivial(self, case, obs):
        return any(r is not None and r[0] in ("ok", "exc") for r in obs["steps"])

    def describe(self, case, obs):
        d = {"base": case["base"]["kind"]}
        st = case["steps"][0]
        d["op"] = st["op"]
        r = obs["steps"][0]
        d["first_step"] = "died" if r is None else (r[0] if r[0] != "exc" else "exc:" + str(r[1]))
        return d

    def shrink(self, case):
        # no minimisation: focused cases are minimal by construction, and in a sequence the
        # failing step is named by the failure key; every re-observation would start a new
        # sanitizer helper process (seconds each)
        return []

    def coq_check(self, case, obs):
        terms = []
        for k, (st, r) in enumerate(zip(case["steps"], obs["steps"])):
            t = model_term(k, st, r, obs, case)
            if t:
                terms.append(t)
        if not terms:
            return None
        return " && ".join("(%s)" % t for t in terms)


def _alloc(n, v=0):
    return "(alloc %s %s)" % (cz(n), cz(v))


def _observed(k, r, obs):
    if r is not None:
        return {"ok": "VOk", "exc": "VRaise"}.get(r[0])
    d = obs.get("died")
    if d and d.get("at") == k:
        return {"asan": "VOOB", "hang": "VFuel"}.get(d["kind"])
    return None


def _ints(vals):
    return all(isinstance(v, int) and not isinstance(v, bool) for v in vals)


def _fl_terms(env, x):
    """Order-preserving integer encoding of the breakpoints and the position x."""
    bps = [float(b) for b in env["bps"]]
    vals = sorted(set(bps + ([x] if isinstance(x, (int, float)) and math.isfinite(x) else [])))
    zero = vals.index(0.0)                  # the guards compare with the literal 0: keep 0 -> 0
    rank = {v: i - zero for i, v in enumerate(vals)}
    if isinstance(x, float) and math.isnan(x):
        fx = "NaN"
    elif x == float("inf"):
        fx = "PInf"
    elif x == float("-inf"):
        fx = "NInf"
    else:
        fx = "(Fin %s)" % cz(rank[float(x)])
    return clist([rank[b] for b in bps]), fx


TREE_ARR = {"tree.parent", "tree.left_child", "tree.right_child", "tree.left_sib", "tree.right_sib",
            "tree.num_children", "tree.edge"}
TABLE_FIRST_ONLY = ("tc.", "table.")


def _resize(a, n):
    return [a[i % len(a)] for i in range(n)] if a else [0] * n


def model_term(k, st, r, obs, case):
    """Coq term `model verdict = implementation verdict` for the modelled entry points."""
    v = _observed(k, r, obs)
    env = (r[3] if r is not None and len(r) > 3 else None) or (obs.get("env_at_death") if r is None else None)
    if v is None or env is None:
        return None
    opn, a = st["op"], st.get("args", {})
    if opn == "tc.call" and a.get("m") in ("tree_sequence", "compute_mutation_parents", "compute_mutation_times") \
            and env.get("index") and env.get("tc"):
        # uses the arrays actually stored at this step, so it is valid anywhere in a sequence;
        # one-directional: the call can fail for other reasons
        ne = env["tc"]["edges"]
        ix = env["index"]
        if len(ix["ins"]) == ne and len(ix["rem"]) == ne:
            return "verdict_implies (verdict_of (check_index_entry true true %s %s %s %s)) %s" % (
                cz(ne), clist(ix["ins"]), clist(ix["rem"]), _alloc(ne), v)
    if k >= 1 and case["steps"][k - 1]["op"] == "tc.stale_index" and opn in (
            "tc.subset", "tc.simplify", "tc.union_self", "tc.union_other", "tc.load_tables") or (
            k >= 1 and case["steps"][k - 1]["op"] == "tc.stale_index" and opn == "tc.call"
            and a.get("m") == "canonicalise"):
        prev = obs["steps"][k - 1]
        if prev and prev[0] == "ok" and isinstance(prev[1], str) and prev[1].count(",") == 2:
            indexed, now = [int(x) for x in prev[1].split(",")[:2]]
            # tsk_table_collection_copy: what the guard lets through is memcpy'd; an overrun predicted
            # by the model (guard without the num_edges comparison) must be the sanitizer report
            return "verdict_implies (match copy_indexes C09_copy_checks_has_index %s %s with OOB => VOOB | _ => VOk end) %s" % (
                cz(indexed), cz(now), v)
    if opn == "tc.call" and a.get("m") == "deduplicate_sites" and env.get("dedup"):
        dd = env["dedup"]               # uses the columns actually stored at this step: valid on arbitrary tables
        return "verdict_implies (verdict_of (deduplicate_sites_entry C09_dedup_full_integrity %s %s %s)) %s" % (
            cbool(dd["dups"]), cz(dd["ns"]), clist(dd["msite"]), v)
    if opn.startswith(TABLE_FIRST_ONLY) and (k != 0 or case["base"]["kind"] != "valid"):
        return None                      # tables drift along a sequence; arbitrary tables are monitored only
    ts = env.get("ts")
    m = None
    if opn.startswith(("tree.", "ts.", "variant.")):
        if ts is None or "flags" not in env:
            return None
        N, S, T = ts["nodes"], ts["samples"], ts["trees"]
        fuel = "%d%%nat" % (N + 4)
        if opn in TREE_ARR or opn in ("tree.num_samples", "tree.num_tracked_samples", "tree.time", "tree.depth"):
            x = res_id(a["u"], N)
            if not _ints([x]):
                return None
            if opn in TREE_ARR:
                m = "Tree_array_get %s %s %s" % (_alloc(N + 1), cz(N), cz(x))
            elif opn == "tree.time":
                m = "Tree_get_time %s %s %s" % (_alloc(N), cz(N), cz(x))
            elif opn == "tree.depth":
                m = "Tree_depth %s %s %s %s" % (fuel, clist(env["parent"]), cz(N), cz(x))
            else:
                m = "Tree_get_num_samples %s %s %s" % (_alloc(N + 1), cz(N), cz(x))
            m = "with_id_parse C09_tree_id_parse_checked [%s] (%s)" % (cz(x), m)
        elif opn == "tree.next_sample":
            x = res_id(a["u"], S)
            if not _ints([x]):
                return None
            m = "with_id_parse C09_tree_id_parse_checked [%s] (Tree_get_next_sample %s %s %s %s)" % (
                cz(x), _alloc(S), cz(S), "true" if env.get("sample_lists") else "false", cz(x))
        elif opn == "tree.is_descendant":
            x, y = res_id(a["u"], N), res_id(a["v"], N)
            if not _ints([x, y]):
                return None
            m = "with_id_parse C09_tree_id_parse_checked [%s; %s] (Tree_is_descendant %s %s %s %s %s)" % (
                cz(x), cz(y), fuel, clist(env["parent"]), cz(N), cz(x), cz(y))
        elif opn in ("tree.seek", "ts.at"):
            x = res_pos(a["x"], float(env["L"]))
            if isinstance(x, bool) or not isinstance(x, (int, float)):
                return None
            bps, fx = _fl_terms(env, float(x) if not isinstance(x, int) or abs(x) < 2 ** 1000 else float("inf"))
            if isinstance(x, int) and abs(x) >= 2 ** 1000:
                return None
            i = -1 if opn == "ts.at" else env.get("tree_index", -1)
            m = "tree_seek C09_seek_rejects_nan %d%%nat %s %s %s %s" % (T + 4, bps, cz(T), cz(i), fx)
        elif opn in ("tree.seek_index", "ts.at_index"):
            x = res_id(a["i"], T)
            if not _ints([x]):
                return None
            m = "tree_seek_index %s %s %s" % (_alloc(T + 1), cz(T), cz(x))
        elif opn == "ts.simplify" and a.get("samples") is not None:
            ids = [res_id(s, N) for s in a["samples"]]
            m = "simplify_entry %s %s %s" % (cbool(env["ts_edge_md"] or ts["migrations"] > 0), cz(N), clist(ids))
        elif opn == "ts.subset":
            ids = [res_id(s, N) for s in a["nodes"]]
            m = "subset_entry %s %s %s %s" % (cbool(ts["migrations"] > 0), cz(N), _alloc(N), clist(ids))
        elif opn == "ts.ibd_within":
            m = "ibd_within_init C09_ibd_within_ge %s %s" % (cz(N), clist([res_id(s, N) for s in a["within"]]))
        elif opn == "ts.ibd_between":
            m = "ibd_between_init C09_ibd_between_ge %s [%s; %s]" % (cz(N), clist([res_id(s, N) for s in a["a"]]),
                                                         clist([res_id(s, N) for s in a["b"]]))
        elif opn == "ts.link_ancestors":
            m = "link_ancestors_entry C09_ancestor_mapper_samples_ge C09_ancestor_mapper_ancestors_ge %s %s %s %s" % (cbool(env["ts_edge_md"]), cz(N),
                                                             clist([res_id(s, N) for s in a["samples"]]),
                                                             clist([res_id(s, N) for s in a["ancestors"]]))
        elif opn in ("ts.variants", "ts.genotype_matrix") and a.get("samples") is not None:
            imp = (a.get("opts") or {}).get("isolated_as_missing") is False
            m = "variant_init_samples %s %s %s %s" % ("true" if imp else "false", cz(N), clist(env["flags"]),
                                                     clist([res_id(s, N) for s in a["samples"]]))
        elif opn in ("tree.new", "ts.trees_tracked") and a.get("tracked") is not None:
            m = "Tree_init_tracked %s %s %s %s %s" % (fuel, cz(N), clist(env["flags"]), _alloc(N + 1, -1),
                                                     clist([res_id(s, N) for s in a["tracked"]]))
        elif opn == "ts.union_self":
            mp, opts = a["mapping"], a.get("opts") or {}
            if opts.get("check_shared_equality", True) or mp.get("aslist") or mp.get("dtype"):
                return None
            mapping = [int(x) for x in _mk_mapping_list(mp, N)]
            # the union can fail later for reasons outside the guard (inconsistent topology):
            # one-directional claim -- what the guard rejects, the implementation rejects
            return "verdict_implies (verdict_of (table_collection_union true %s %s %s %s)) %s" % (
                cz(N), cz(N), _alloc(N), clist(mapping), v)
        elif opn in ("ts.stat1", "ts.statk") and isinstance(a.get("windows"), list) and a.get("mode", "site") in ("site", "branch", "node"):
            L = float(env["L"])
            ws = [res_pos(x, L) for x in a["windows"]]
            fin = sorted(set([0.0, L] + [float(w) for w in ws if math.isfinite(w)]))
            zero = fin.index(0.0)
            rk = {x: i - zero for i, x in enumerate(fin)}

            def flt(w):
                if math.isnan(w):
                    return "NaN"
                if w == float("inf"):
                    return "PInf"
                if w == float("-inf"):
                    return "NInf"
                return "(Fin %s)" % cz(rk[float(w)])
            return ("verdict_implies (if check_windows C09_windows_reject_nan %s [%s] then VOk else VRaise) %s"
                    % (cz(rk[L]), "; ".join(flt(w) for w in ws), v))
        elif opn == "ts.ld_matrix" and a.get("mode", "site") == "site" and a.get("sites") is not None:
            ns = ts["sites"]
            rows = [res_id(x, ns) for x in a["sites"][0]] if len(a["sites"]) >= 1 else []
            cols = [res_id(x, ns) for x in a["sites"][1]] if len(a["sites"]) >= 2 else rows
            if len(a["sites"]) > 2 or not _ints(rows + cols):
                return None
            # one-directional: what check_sites rejects (or lets overrun) the implementation does
            return "verdict_implies (verdict_of (two_locus_sites_entry true %s %s %s %s)) %s" % (
                cz(ns), _alloc(ns), clist(rows), clist(cols), v)
        elif opn == "ts.mean_descendants" and a.get("sets") is not None:
            sets = [[res_id(x, N) for x in row] for row in a["sets"]]
            return "verdict_implies (verdict_of (mean_descendants_init %s [%s])) %s" % (
                cz(N), "; ".join(clist(x) for x in sets), v)
        elif opn == "ts.gnn" and a.get("sets") is not None and a.get("focal") is not None:
            sets = [[res_id(x, N) for x in row] for row in a["sets"]]
            return "verdict_implies (verdict_of (gnn_init %s %s [%s] %s)) %s" % (
                cz(N), _alloc(N), "; ".join(clist(x) for x in sets), clist([res_id(x, N) for x in a["focal"]]), v)
        elif opn == "ts.relatedness_weighted":
            cols = a["cols"]
            flat = [res_id(x, cols) for t in a["idx"] for x in t]
            if any(len(t) != 2 for t in a["idx"]) or not _ints(flat) or any(abs(x) >= 2 ** 31 for x in flat):
                return None
            return "verdict_implies_raise (verdict_of (relatedness_weighted_entry C09_relatedness_weighted_checks_indexes %s %s)) %s" % (
                cz(cols), clist(flat), v)
        elif opn == "ts.statk" and a.get("indexes") is not None and a.get("stat") in MULTI_WAY:
            k = MULTI_WAY[a["stat"]]
            nsets = len(a["sets"])
            flat = [res_id(x, nsets) for t in a["indexes"] for x in t]
            if any(len(t) != k for t in a["indexes"]) or not a["indexes"] or not _ints(flat) or any(abs(x) >= 2 ** 31 for x in flat):
                return None
            return "verdict_implies (verdict_of (set_indexes_entry %s %s)) %s" % (cz(nsets), clist(flat), v)
        elif opn == "tree.ll_map_mutations":
            g = a["g"]
            if g.get("dtype", "int8") not in ("int8", "int32") or g.get("shape2"):
                return None
            geno = _mk_genotypes_list(g, S)
            anc = a.get("anc")
            if anc is not None and not (_ints([anc]) and abs(anc) < 2 ** 31):
                return None
            return ("(C09_hartigan_max_alleles =? HARTIGAN_MAX_ALLELES) && verdict_eqb (verdict_of "
                    "(map_mutations_entry true %s %s %s)) %s" % (
                        cz(S), clist(geno), "None" if anc is None else "(Some %s)" % cz(anc), v))
    else:
        tcn = env.get("tc")
        if tcn is None:
            return None
        if opn in ("table.getitem", "table.ll_get_row"):
            n = tcn[a["table"]]
            x = res_id(a["i"], n)
            if not _ints([x]) or (opn == "table.ll_get_row" and abs(x) >= 2 ** 31):
                return None                # the low-level converter is not public API
            f = "py_table_getitem" if opn == "table.getitem" else "table_get_row"
            m = "%s %s %s %s %s" % (f, _alloc(n), _alloc(n + 1), cz(n), cz(x))
        elif opn == "table.ll_extend" and a.get("dtype", "int32") == "int32":
            n = tcn[a["table"]]
            m = "table_extend %s %s %s %s" % (_alloc(n), _alloc(n + 1), cz(n), clist([res_id(s, n) for s in a["ids"]]))
        elif opn == "table.getitem_ids" and a.get("dtype") in (None, "int32", "int64") and a["ids"]:
            n = tcn[a["table"]]
            m = "table_extend %s %s %s %s" % (_alloc(n), _alloc(n + 1), cz(n), clist([res_id(s, n) for s in a["ids"]]))
        elif opn == "table.ll_keep_rows" or (opn == "table.keep_rows" and a.get("dtype", "bool") == "bool"):
            n = tcn[a["table"]]
            m = "table_keep_rows true %s %s %s" % (_alloc(_len_sym(a["len"], n), 1), _alloc(n), cz(n))
        elif opn in ("table.set_columns_len", "table.append_columns_len") and a.get("col") == "metadata_offset" \
                and a.get("table") in ("sites", "mutations") and "cols" in env:
            cl = env["cols"]
            mo = _resize(cl["mo"], _len_sym(a["len"], len(cl["mo"])))
            cur = "site_table_set_columns " + ("C09_site_metadata_offset_checked" if a["table"] == "sites"
                                               else "C09_mutation_metadata_offset_checked")
            m = "%s %s %s %s %s %s" % (cur, _alloc(cl["n"]), clist(cl["so"]), clist(mo), cz(cl["sl"]), cz(cl["ml"]))
        elif opn == "table.columns_min_len" and "collens" in env:
            cl = dict(env["collens"])
            names = list(cl) if a.get("keep") == "all" else list(REQUIRED[a["table"]])
            col = a["col"]
            for extra in (col, col + "_offset", col[:-7] if col.endswith("_offset") else None):
                if extra and extra in cl and extra not in names:
                    names.append(extra)
            given = {k: cl[k] for k in names}
            given[col] = _len_sym(a["len"], cl[col])
            return ("verdict_implies (verdict_of (table_columns_entry C09_columns_%s [%s])) %s" % (
                a["table"], "; ".join('("%s"%%string, %s)' % (k, cz(x)) for k, x in given.items()), v))
        elif opn == "individuals.keep_rows_parents" and len(a["parents"]) == len(a["keep"]):
            n = len(a["parents"])
            idm, k = [], 0
            for ch in a["keep"]:
                idm.append(k if ch == "1" else -1)
                k += ch == "1"
            rows = "; ".join("(%s, %s)" % (cbool(ch == "1"), clist([res_id(x, n) for x in ps]))
                             for ch, ps in zip(a["keep"], a["parents"]))
            if any(abs(res_id(x, n)) >= 2 ** 31 for ps in a["parents"] for x in ps):
                return None
            return "verdict_implies (verdict_of (individual_keep_rows false %s [%s])) %s" % (clist(idm), rows, v)
        elif opn == "mutations.keep_rows_parents" and len(a["parent"]) == len(a["keep"]):
            n = len(a["parent"])
            idm, kk = [], 0
            for ch in a["keep"]:
                idm.append(kk if ch == "1" else -1)
                kk += ch == "1"
            vals = [res_id(x, n) for x in a["parent"]]
            if any(abs(x) > 2 ** 31 for x in vals):
                return None
            rows = "; ".join("(%s, %s)" % (cbool(ch == "1"), cz(x)) for ch, x in zip(a["keep"], vals))
            return "verdict_implies (verdict_of (mutation_keep_rows C09_mutation_keep_rows_strict %s [%s])) %s" % (
                clist(idm), rows, v)
        elif opn == "tc.call" and a.get("m") == "deduplicate_sites" and env.get("dedup"):
            dd = env["dedup"]
            return "verdict_implies (verdict_of (deduplicate_sites_entry C09_dedup_full_integrity %s %s %s)) %s" % (
                cbool(dd["dups"]), cz(dd["ns"]), clist(dd["msite"]), v)
        elif opn == "tc.subset":
            n = tcn["nodes"]
            m = "subset_entry %s %s %s %s" % (cbool(tcn["migrations"] > 0), cz(n), _alloc(n),
                                             clist([res_id(s, n) for s in a["nodes"]]))
        elif opn == "tc.simplify" and a.get("samples") is not None:
            n = tcn["nodes"]
            m = "simplify_entry %s %s %s" % (cbool(env["tc_edge_md"] or tcn["migrations"] > 0), cz(n),
                                             clist([res_id(s, n) for s in a["samples"]]))
        elif opn == "tc.ibd_within":
            n = tcn["nodes"]
            m = "ibd_within_init C09_ibd_within_ge %s %s" % (cz(n), clist([res_id(s, n) for s in a["within"]]))
        elif opn == "tc.ibd_between":
            n = tcn["nodes"]
            m = "ibd_between_init C09_ibd_between_ge %s [%s; %s]" % (cz(n), clist([res_id(s, n) for s in a["a"]]),
                                                         clist([res_id(s, n) for s in a["b"]]))
        elif opn == "tc.link_ancestors":
            n = tcn["nodes"]
            m = "link_ancestors_entry C09_ancestor_mapper_samples_ge C09_ancestor_mapper_ancestors_ge %s %s %s %s" % (cbool(env["tc_edge_md"]), cz(n),
                                                             clist([res_id(s, n) for s in a["samples"]]),
                                                             clist([res_id(s, n) for s in a["ancestors"]]))
    if m is None:
        return None
    return "verdict_eqb (verdict_of (%s)) %s" % (m, v)


def _mk_mapping_list(mapping, n):
    ln = {"n": n, "n-1": n - 1, "n+1": n + 1, "0": 0}[mapping.get("len", "n")]
    fill = mapping.get("fill", "id")
    a = list(range(ln)) if fill == "id" else [res_id(fill, n)] * max(ln, 0)
    for i, sy in (mapping.get("set") or {}).items():
        if 0 <= int(i) < len(a):
            a[int(i)] = res_id(sy, n)
    return a


def _mk_genotypes_list(g, ns):
    n = {"ns": ns, "ns-1": ns - 1, "ns+1": ns + 1, "0": 0, "2ns": 2 * ns}[g.get("len", "ns")]
    a = [g.get("fill", 0)] * max(n, 0)
    for i, v in (g.get("set") or {}).items():
        if 0 <= int(i) < len(a):
            a[int(i)] = v
    return a


def defaults(o, fixed=None):
    a = {}
    for pname, kind in o.params:
        if fixed and pname in fixed:
            a[pname] = fixed[pname]
        elif kind in KINDS:
            a[pname] = KINDS[kind]["default"]
        elif kind in ("pos", "pos_seq"):
            a[pname] = "0"
    return a


def focused(rng, bases, opname, fixed=None, tail=(), syms_extra=False, lists=None, pos_syms=None, all_bases=False):
    """One case per (parameter, boundary symbol): [boundary call, same call with valid
    defaults, tail of normal use]."""
    o = OPS[opname]
    base_args = defaults(o, fixed)
    for pname, kind in o.params:
        if fixed and pname in fixed:
            continue
        if kind in KINDS:
            k = KINDS[kind]
            alphabet = (lists or k["lists"]) if k["list"] else (k["syms"] + (ID_SYMS_X if syms_extra else []))
        elif kind in ("pos", "pos_seq"):
            alphabet = (pos_syms or POS_SYMS) + (POS_SYMS_X if syms_extra else [])
        else:
            continue
        for s in alphabet:
            args = dict(base_args)
            args[pname] = s
            steps = [{"op": opname, "args": args}, {"op": opname, "args": dict(base_args)}]
            steps += [{"op": t, "args": {}} for t in tail]
            if all_bases:
                for b in bases:
                    yield {"base": b, "steps": [dict(x) for x in steps]}
            else:
                yield {"base": rng.choice(bases), "steps": steps}


TREE1 = [n for n, o in OPS.items() if n.startswith("tree.") and [k for _p, k in o.params] in (["vnode"], ["vnode_null"], ["sample_index"])]
TREE2 = [n for n, o in OPS.items() if n.startswith("tree.") and [k for _p, k in o.params] == ["vnode", "vnode"]]


class TreeIds(Monitor):
    """Every id-taking Tree method x boundary ids, on positioned and null trees."""
    name = "tree_ids"

    def generate(self, rng, tier):
        descs = valid_bases(rng, 6 if tier == "quick" else 30)
        bases = [base_valid(rng, d) for d in descs for _ in range(2)]
        # the null tree and a tree with sample lists are always present
        bases.append(base_valid(rng, descs[0], {"index": None, "sample_lists": True}))
        bases.append(base_valid(rng, descs[1], {"index": 0, "sample_lists": True, "tracked": ["0", "1"]}))
        reps = 1 if tier == "quick" else 4
        for _ in range(reps):
            for name in TREE1 + TREE2 + ["tree.mrca3", "tree.as_newick", "tree.newick"]:
                yield from focused(rng, bases, name, tail=("probe.tree",), syms_extra=(tier != "quick"))
            for order in ("preorder", "inorder", "postorder", "levelorder", "breadthfirst", "timeasc", "timedesc",
                          "minlex_postorder", "bogus"):
                yield from focused(rng, bases, "tree.nodes", fixed={"order": order}, tail=("probe.tree",))
            yield from focused(rng, bases, "tree.seek_index", tail=("probe.tree",))
            for lab in (["0"], ["n"], ["n+1"], ["-1"], ["max"]):
                yield from focused(rng, bases, "tree.newick_labels", fixed={"labels": lab}, tail=("probe.tree",))
            yield from focused(rng, bases, "tree.new", fixed={"opts": {}}, tail=("probe.tree",))
            yield from focused(rng, bases, "tree.new", fixed={"opts": {"sample_lists": True, "root_threshold": 2}},
                               tail=("probe.tree",))
            for sets in ([["0"], ["1"]], [["0"], ["n"]], [["0", "0"]], [["-1"]], [[]], [["max"], ["0"]],
                         [["n-1"], ["0"]], [["0"], ["0"]]):
                yield {"base": rng.choice(bases), "steps": [
                    {"op": "tree.count_topologies", "args": {"sets": sets}}, {"op": "probe.tree", "args": {}}]}
        # types
        for name in ("tree.parent", "tree.mrca", "tree.num_samples", "tree.nodes", "tree.seek_index", "tree.time",
                     "tree.next_sample", "tree.children"):
            yield from focused(rng, bases, name, tail=("probe.tree",), syms_extra=True)



SETS_LISTS = [[["0"], ["1"]], [["0", "1"]], [["0"], ["n"]], [["n"]], [["0", "0"]], [["0"], ["0"]], [["-1"], ["0"]],
              [[], ["0"]], [], [["max"], ["0"]], [["0"], ["n+1"]], [["n-1"], ["0"]], [["0"], ["-2"]], [["min"]]]
WINDOWS = [None, ["0", "L"], ["0", "mid", "L"], ["0"], [], ["L", "0"], ["0", "mid", "mid", "L"], ["0", "L+1"],
           ["-1", "L"], ["0", "nan", "L"], ["nan", "L"], ["0", "nan"], ["0", "inf"], ["mid", "L"], ["0", "mid"],
           ["0", "L-eps", "L"], "trees", "sites", "bogus", ["-inf", "L"], ["0", "L", "L"]]
INTERVALS = [[["0", "L"]], [["0", "mid"]], [], [["mid", "0"]], [["0", "L+1"]], [["-1", "L"]], [["0", "nan"]],
             [["nan", "L"]], [["0", "inf"]], [["0", "mid"], ["0", "L"]], [["mid", "L"], ["0", "mid"]],
             [["0", "0"]], [["L", "L"]], [["0", "mid"], ["mid", "L"]], [["0"]], [["0", "mid", "L"]],
             [["-inf", "inf"]], [["L-eps", "L"]], [["0", "eps"]]]


def sets_expect(sets):
    """Demand from the property text for sample-set arguments (ids against num_nodes are
    resolved at run time, so only the symbolic classes that are out of range for every n)."""
    for x in sets:
        for s in x:
            if s in ("n", "n+1", "max", "-1", "-2", "min"):
                return "raise"
    return None


class TsIds(Monitor):
    """TreeSequence methods taking ids / id lists."""
    name = "ts_ids"

    def generate(self, rng, tier):
        descs = valid_bases(rng, 6 if tier == "quick" else 30, max_sites=4, max_muts=4, migrations=True)
        descs += [d for d in valid_bases(rng, 12, max_sites=6, max_L=8, max_muts=3) if len(d["sites"]) >= 4][:3]
        bases = [base_valid(rng, d) for d in descs]
        reps = 1 if tier == "quick" else 3
        T = ("probe.ts",)
        for _ in range(reps):
            for name in ("ts.node", "ts.edge", "ts.site", "ts.mutation", "ts.individual", "ts.population",
                         "ts.migration", "ts.provenance", "ts.at_index", "ts.samples_pop", "ts.get_population",
                         "ts.get_time", "ts.split_edges_pop", "ts.ld_calc"):
                yield from focused(rng, bases, name, tail=T, syms_extra=(tier != "quick"))
            for opts in ({}, {"keep_unary": True, "filter_nodes": False}, {"map_nodes": True, "keep_input_roots": True},
                         {"reduce_to_site_topology": True, "filter_sites": False}):
                yield from focused(rng, bases, "ts.simplify", fixed={"opts": opts}, tail=T)
            for opts in ({}, {"reorder_populations": False, "remove_unreferenced": False}):
                yield from focused(rng, bases, "ts.subset", fixed={"opts": opts}, tail=T)
            for opts in ({}, {"store_pairs": True}, {"store_segments": True, "min_span": 0.5}, {"max_time": 1.5}):
                yield from focused(rng, bases, "ts.ibd_within", fixed={"opts": opts}, tail=T)
                yield from focused(rng, bases, "ts.ibd_between", fixed={"opts": opts, "b": ["1"]}, tail=T)
                yield from focused(rng, bases, "ts.ibd_between", fixed={"opts": opts, "a": ["1"]}, tail=T)
            yield from focused(rng, bases, "ts.ibd_result_get", tail=T)
            yield from focused(rng, bases, "ts.link_ancestors", fixed={"ancestors": ["n-1"]}, tail=T)
            yield from focused(rng, bases, "ts.link_ancestors", fixed={"samples": ["0", "1"]}, tail=T)
            for opts in ({}, {"isolated_as_missing": False}, {"alleles": ["A", "C", "G", "T", "", "AC"]},
                         {"copy": False}):
                yield from focused(rng, bases, "ts.variants", fixed={"opts": opts}, tail=T)
            for opts in ({}, {"isolated_as_missing": False}):
                yield from focused(rng, bases, "ts.genotype_matrix", fixed={"opts": opts}, tail=T)
                yield from focused(rng, bases, "ts.haplotypes", fixed={"opts": opts}, tail=T)
                yield from focused(rng, bases, "variant.decode", fixed={"opts": opts, "samples": ["0", "1"]}, tail=T)
                yield from focused(rng, bases, "variant.decode", fixed={"opts": opts, "site": "0"}, tail=T)
            yield from focused(rng, bases, "ts.alignments", fixed={"opts": {}}, tail=T)
            for c in focused(rng, bases, "variant.decode_seq", tail=T):
                c["steps"][0]["expect"] = c["steps"][1]["expect"] = "any"   # per-site verdicts recorded by the op
                yield c
            for opts in ({}, {"sample_lists": True}, {"root_threshold": 2}):
                yield from focused(rng, bases, "ts.trees_tracked", fixed={"opts": opts}, tail=T)
            yield from focused(rng, bases, "ts.delete_sites", tail=T)
            yield from focused(rng, bases, "ts.gnn", fixed={"sets": [["0"], ["1"]]}, tail=T)
            yield from focused(rng, bases, "ts.relatedness_vector", fixed={"wrows": "ns"}, tail=T)
            for sets in SETS_LISTS:
                for opn, extra in (("ts.gnn", {"focal": ["0"]}), ("ts.mean_descendants", {}), ("ts.count_topologies", {}),
                                   ("ts.divergence_matrix", {}), ("ts.relatedness_matrix", {}),
                                   ("ts.pair_coalescence_counts", {}), ("ts.ld_matrix", {}),
                                   ("ts.pair_coalescence_quantiles", {"q": ["0", "0.5", "1"]}),
                                   ("ts.pair_coalescence_rates", {"tw": ["0", "1", "inf"]})):
                    st = {"op": opn, "args": dict(extra, sets=sets), "expect": sets_expect(sets) or "any"}
                    yield {"base": rng.choice(bases), "steps": [st, {"op": "probe.ts", "args": {}}]}
            # negative ids that alias a SAMPLE through Python indexing (C09-N8): -n is node 0
            for sets in ([["1"], ["-n"]], [["-n"], ["1"]], [["-n", "1"]], [["-n"]]):
                for opn in ("ts.count_topologies", "tree.count_topologies"):
                    yield {"base": rng.choice(bases), "steps": [
                        {"op": opn, "args": {"sets": sets}, "expect": "raise"}, {"op": "probe.ts", "args": {}}]}
            # union: node mapping values and length
            for mp in ({}, {"fill": "-1"}, {"fill": "n"}, {"fill": "-2"}, {"fill": "max"}, {"fill": "n+1"}, {"fill": "min"},
                       {"set": {"0": "n"}}, {"set": {"0": "-2"}}, {"set": {"1": "max"}}, {"fill": "-1", "set": {"0": "n"}},
                       {"len": "n-1"}, {"len": "n+1"}, {"len": "0"}, {"fill": "-1", "len": "n-1"},
                       {"fill": "-1", "len": "n+1"}, {"fill": "0"}, {"dtype": "int64"}, {"dtype": "float64"},
                       {"aslist": True}, {"fill": "-1", "set": {"0": "0"}}):
                bad = mp.get("fill") in ("n", "-2", "max", "n+1", "min") or any(
                    v in ("n", "-2", "max") for v in (mp.get("set") or {}).values()) or mp.get("len") in ("n-1", "n+1", "0")
                for opts in ({"check_shared_equality": False}, {"check_shared_equality": True},
                             {"check_shared_equality": False, "add_populations": False}):
                    st = {"op": "ts.union_self", "args": {"mapping": mp, "opts": opts}, "expect": "raise" if bad else "any"}
                    yield {"base": rng.choice(bases), "steps": [st, {"op": "probe.ts", "args": {}}]}
            for inds in ([], ["0"], ["n"], ["-1"], ["0", "0"], ["max"], ["n+1"], ["-2"]):
                st = {"op": "ts.vcf_individuals", "args": {"inds": inds},
                      "expect": "raise" if inds and inds[0] in ("n", "-1", "max", "n+1", "-2") else "any"}
                yield {"base": rng.choice(bases), "steps": [st, {"op": "probe.ts", "args": {}}]}
            for a in ("n", "n+1", "n-1", "0"):
                yield {"base": rng.choice(bases), "steps": [{"op": "ts.vcf_masks", "args": {"site_mask": a}}]}
                yield {"base": rng.choice(bases), "steps": [{"op": "ts.vcf_masks", "args": {"sample_mask": a}}]}
            for w in ("vcf", "fasta", "nexus", "text", "macs"):
                yield {"base": rng.choice(bases), "steps": [{"op": "ts.write", "args": {"what": w}}]}
            many = [b for b in bases if len(b["desc"]["sites"]) >= 4] or bases
            for sites in ([["0"], ["1"]], [["0"], ["n-1"]], [["0", "2"], ["1", "3"]], [["0"], ["1", "2", "3"]], [["1", "2", "3"], ["0"]],
                          [["0", "1"], ["2", "3"]], [["3"], ["0", "1", "2"]], [["0", "1", "2"], ["1", "2", "3"]], [["0", "3"], ["1", "2"]],
                          [["n-1"], ["0"]], [["0", "1", "2", "3"], ["0"]], [["1"], ["0", "1", "2", "3"]]):
                for stat in ("r2", "D", "pi2"):
                    st = {"op": "ts.ld_matrix", "args": {"sites": sites, "mode": "site", "stat": stat}, "expect": "any"}
                    yield {"base": rng.choice(many), "steps": [st, {"op": "probe.ts", "args": {}}]}
            for sites in ([["0"]], [["0"], ["0"]], [["n"]], [["-1"]], [["0", "0"]], [["max"]], [[]], [["n-1", "0"]],
                          [[], ["0"]], [["0"], []], [[], []], [["0", "n"]], [["0", "n-1", "n"]], [["0"], ["0", "n"]],
                          [["0", "n"], ["0"]], [["n+1"]], [["0", "max"]], [["-2"]], [["n", "n+1"]],
                          [["0"], ["n"]], [["0"], ["-1"]], [["0", "n-1"], ["n-1"]]):
                for mode in ("site", "branch"):
                    key = "positions" if mode == "branch" else "sites"
                    st = {"op": "ts.ld_matrix", "args": {key: sites, "mode": mode}}
                    if mode == "site" and any(x in ("n", "n+1", "max", "-1", "-2", "min") for row in sites for x in row):
                        st["expect"] = "raise"          # a site id outside [0, num_sites)
                    for stat in ("r2", "D") if mode == "site" else ("r2",):
                        st2 = json.loads(json.dumps(st))
                        st2["args"]["stat"] = stat
                        yield {"base": rng.choice(bases), "steps": [st2, {"op": "probe.ts", "args": {}}]}


class Positions(Monitor):
    """Genome positions / times: seek, at, site(position=), intervals, windows."""
    name = "positions"

    def generate(self, rng, tier):
        descs = valid_bases(rng, 6 if tier == "quick" else 30, max_sites=4, max_L=8)
        bases = [base_valid(rng, d, {"index": i, "sample_lists": False}) for d in descs for i in (None, 0, 5)]
        reps = 1 if tier == "quick" else 3
        for _ in range(reps):
            multi = [b for b in bases if len(gen_ts.breakpoints(b["desc"])) > 2][:6] or bases[:3]
            for name in ("tree.seek", "ts.at"):
                yield from focused(rng, multi, name, tail=("probe.tree", "probe.ts"), syms_extra=True, all_bases=True)
            for name in ("ts.site_at", "tree.num_lineages", "ts.decapitate", "ts.split_edges",
                         "tree.kc_distance_self", "tc.delete_older"):
                yield from focused(rng, bases, name, tail=("probe.tree", "probe.ts"), syms_extra=True)
            yield from focused(rng, bases, "ts.haplotypes_lr", tail=("probe.ts",))
            yield from focused(rng, bases, "ts.variants_lr", tail=("probe.ts",))
            yield from focused(rng, bases, "ts.ld_calc_array", fixed={"direction": 1, "max_sites": None}, tail=("probe.ts",))
            for iv in INTERVALS:
                for opts in ({}, {"simplify": False}):
                    for opn in ("ts.keep_intervals", "ts.delete_intervals", "tc.keep_intervals", "tc.delete_intervals"):
                        yield {"base": rng.choice(bases), "steps": [
                            {"op": opn, "args": {"iv": iv, "opts": opts}},
                            {"op": "probe.ts", "args": {}}, {"op": "probe.tc", "args": {}}]}
            for iv in ({"rows": [["0", "mid"], ["mid", "L"]], "shape": [4]}, {"rows": [["0", "mid", "L"]], "shape": [1, 3]},
                       {"rows": [["0", "L"]], "shape": [1, 1, 2]}):
                yield {"base": rng.choice(bases), "steps": [{"op": "ts.keep_intervals", "args": {"iv": iv}}]}
            for w in WINDOWS:
                for mode in ("site", "branch", "node"):
                    for stat in ONE_WAY if tier != "quick" else ONE_WAY[:2]:
                        yield {"base": rng.choice(bases), "steps": [
                            {"op": "ts.stat1", "args": {"stat": stat, "sets": [["0", "1"]], "windows": w, "mode": mode}},
                            {"op": "probe.ts", "args": {}}]}
                    yield {"base": rng.choice(bases), "steps": [
                        {"op": "ts.statk", "args": {"stat": "divergence", "sets": [["0"], ["1"]], "windows": w, "mode": mode}},
                        {"op": "ts.general_stat", "args": {"windows": w, "mode": mode}},
                        {"op": "ts.trait", "args": {"stat": "trait_covariance", "windows": w, "mode": mode}},
                        {"op": "probe.ts", "args": {}}]}
                for mode in ("site", "branch"):
                    yield {"base": rng.choice(bases), "steps": [
                        {"op": "ts.divergence_matrix", "args": {"windows": w, "mode": mode}},
                        {"op": "ts.relatedness_matrix", "args": {"windows": w, "mode": mode}},
                        {"op": "ts.relatedness_vector", "args": {"windows": w, "mode": mode}}]}
                yield {"base": rng.choice(bases), "steps": [
                    {"op": "ts.pair_coalescence_counts", "args": {"windows": w}},
                    {"op": "ts.pair_coalescence_counts", "args": {"time_windows": w if isinstance(w, list) else "nodes"}}]}


class Stats(Monitor):
    """Sample sets / index tuples / weight shapes of the statistics API."""
    name = "stats"

    def generate(self, rng, tier):
        descs = valid_bases(rng, 5 if tier == "quick" else 25, max_sites=4)
        bases = [base_valid(rng, d) for d in descs]
        modes = ("site", "branch", "node") if tier != "quick" else ("site", "branch")
        for sets in SETS_LISTS:
            exp = sets_expect(sets) or "any"
            for mode in modes:
                for stat in ONE_WAY:
                    yield {"base": rng.choice(bases), "steps": [
                        {"op": "ts.stat1", "args": {"stat": stat, "sets": sets, "mode": mode}, "expect": exp},
                        {"op": "probe.ts", "args": {}}]}
                for stat in MULTI_WAY:
                    if tier == "quick" and mode != "site" and stat not in ("divergence", "f4"):
                        continue
                    yield {"base": rng.choice(bases), "steps": [
                        {"op": "ts.statk", "args": {"stat": stat, "sets": sets, "mode": mode}, "expect": "any"}]}
        four = [["0"], ["1"], ["0", "1"], ["1", "0"]]
        for stat, k in MULTI_WAY.items():
            for idx in ([["0"] * k], [["n"] * k], [["0"] * (k - 1) + ["n"]], [["-1"] * k], [["max"] * k], [],
                        [["0"] * (k + 1)], [["0"] * (k - 1)] if k > 1 else [[]], [["n-1"] * k], [["-2"] + ["0"] * (k - 1)],
                        [["n+1"] * k], [["min"] * k]):
                bad = any(s in ("n", "-1", "max", "-2", "n+1", "min") for t in idx for s in t)
                for mode in modes:
                    yield {"base": rng.choice(bases), "steps": [
                        {"op": "ts.statk", "args": {"stat": stat, "sets": four, "indexes": idx, "mode": mode},
                         "expect": "raise" if bad else "any"},
                        {"op": "probe.ts", "args": {}}]}
        for cols in (1, 2, 3):
            for idx in ([["0", "0"]], [["0", "n-1"]], [["0", "n"]], [["n", "0"]], [["0", "n+1"]], [["0", "-1"]], [["-1", "0"]],
                        [["0", "-2"]], [["-3", "0"]], [["0", "max"]], [["min", "0"]], [["0", "7"]], [["n", "n"]], [],
                        [["0", "0"], ["0", "n"]], [["0"]], [["0", "0", "0"]]):
                # id == number of columns selects the appended column of ones: in bounds and pinned by
                # tests/test_lowlevel.py, so no demand; everything beyond / negative must raise
                bad = any(s in ("n+1", "-1", "-2", "-3", "max", "min", "7") for t in idx for s in t)
                for mode in modes:
                    for opts in ({}, {"centre": False}, {"polarised": True}):
                        if tier == "quick" and opts and rng.random() < 0.6:
                            continue
                        yield {"base": rng.choice(bases), "steps": [
                            {"op": "ts.relatedness_weighted", "args": {"cols": cols, "idx": idx, "opts": opts, "mode": mode},
                             "expect": "raise" if bad else "any"}, {"op": "probe.ts", "args": {}}]}
        for idx in ([["0", "0"]], [["0", "n"]], [["-1", "0"]], [["max", "0"]], [["n", "n"]], [["0", "n+1"]]):
            bad = any(s in ("n", "-1", "max", "n+1") for t in idx for s in t)
            yield {"base": rng.choice(bases), "steps": [
                {"op": "ts.pair_coalescence_counts", "args": {"sets": four, "indexes": idx},
                 "expect": "raise" if bad else "any"}]}
        for wr in ("ns", "ns-1", "ns+1", "0"):
            for mode in modes:
                yield {"base": rng.choice(bases), "steps": [
                    {"op": "ts.general_stat", "args": {"wrows": wr, "mode": mode}},
                    {"op": "ts.general_stat", "args": {"wrows": wr, "mode": mode, "outdim": 2, "retdim": 1}},
                    {"op": "ts.general_stat", "args": {"wrows": wr, "mode": mode, "outdim": 1, "retdim": 3}},
                    {"op": "ts.general_stat", "args": {"wrows": wr, "mode": mode, "outdim": 0, "retdim": 0}}]}
                for stat in ("trait_covariance", "trait_correlation", "trait_linear_model", "genetic_relatedness_weighted"):
                    yield {"base": rng.choice(bases), "steps": [
                        {"op": "ts.trait", "args": {"stat": stat, "wrows": wr, "mode": mode}}]}
            for mode in ("site", "branch"):
                yield from focused(rng, bases, "ts.relatedness_vector", fixed={"wrows": wr, "mode": mode})
        for q in (["0", "0.5", "1"], ["-1"], ["nan"], ["1", "0"], [], ["inf"], ["0.5", "0.5"]):
            yield {"base": rng.choice(bases), "steps": [{"op": "ts.pair_coalescence_quantiles", "args": {"q": q}}]}
        for tw in (["0", "1", "inf"], ["0", "inf"], ["0"], [], ["1", "0"], ["0", "nan"], ["-1", "inf"], ["0", "0", "inf"],
                   ["0", "1"]):
            yield {"base": rng.choice(bases), "steps": [{"op": "ts.pair_coalescence_rates", "args": {"tw": tw}},
                                                       {"op": "ts.pair_coalescence_counts", "args": {"time_windows": tw}}]}



RAGGED = {"nodes": ["metadata"], "edges": ["metadata"], "sites": ["ancestral_state", "metadata"],
          "mutations": ["derived_state", "metadata"], "individuals": ["location", "parents", "metadata"],
          "populations": ["metadata"], "migrations": ["metadata"], "provenances": ["timestamp", "record"]}
FIXEDCOLS = {"nodes": ["flags", "time", "population", "individual"], "edges": ["left", "right", "parent", "child"],
             "sites": ["position"], "mutations": ["site", "node", "time", "parent"], "individuals": ["flags"],
             "populations": [], "migrations": ["left", "right", "node", "source", "dest", "time"], "provenances": []}


RAGGED_ALL = {c for cols in RAGGED.values() for c in cols}


class Tables(Monitor):
    """Row access, masks, row-index arrays, column lengths / offsets of the table classes."""
    name = "tables"

    def generate(self, rng, tier):
        descs = valid_bases(rng, 5 if tier == "quick" else 20, max_sites=4, migrations=True)
        bases = [base_valid(rng, d) for d in descs]
        T = [{"op": "probe.tc", "args": {}}]
        idsyms = ID_SYMS + ["-n", "-n-1"] + (ID_SYMS_X if tier != "quick" else ["2^32", "0.5"])
        for t in TABLES:
            for sym in idsyms:
                for opn in ("table.getitem", "table.ll_get_row", "table.truncate", "table.setitem"):
                    if tier == "quick" and opn == "table.setitem" and sym not in ("-1", "0", "n-1", "n", "max"):
                        continue
                    yield {"base": rng.choice(bases), "steps": [{"op": opn, "args": {"table": t, "i": sym} if opn != "table.truncate" else {"table": t, "k": sym}},
                                                               {"op": "table.iterate", "args": {"table": t}}] + T}
            for ids in ID_LISTS if tier != "quick" else ID_LISTS[:10]:
                for dt in (None, "int32", "int64", "uint64", "float64") if tier != "quick" else (None, "float64"):
                    yield {"base": rng.choice(bases), "steps": [{"op": "table.getitem_ids", "args": {"table": t, "ids": ids, "dtype": dt}}] + T}
                for dt in ("int32", "int64", "uint32", "int8") if tier != "quick" else ("int32",):
                    yield {"base": rng.choice(bases), "steps": [{"op": "table.ll_extend", "args": {"table": t, "ids": ids, "dtype": dt}}] + T}
            for ln in ("n", "n-1", "n+1", "0", "2n", "1"):
                yield {"base": rng.choice(bases), "steps": [{"op": "table.getitem_mask", "args": {"table": t, "len": ln}}] + T}
                yield {"base": rng.choice(bases), "steps": [{"op": "table.ll_keep_rows", "args": {"table": t, "len": ln}},
                                                           {"op": "table.iterate", "args": {"table": t}}] + T}
                for dt, fill in (("bool", 1), ("bool", 0), ("int8", 1), ("uint8", 2), ("int32", 1), ("float64", 1)) if tier != "quick" else (("bool", 1), ("uint8", 2), ("float64", 1)):
                    yield {"base": rng.choice(bases), "steps": [
                        {"op": "table.keep_rows", "args": {"table": t, "len": ln, "dtype": dt, "fill": fill}},
                        {"op": "table.iterate", "args": {"table": t}}] + T}
                yield {"base": rng.choice(bases), "steps": [{"op": "table.packset_metadata", "args": {"table": t, "len": ln}},
                                                           {"op": "table.iterate", "args": {"table": t}}] + T
                       } if t != "provenances" else {"base": rng.choice(bases), "steps": T}
            for pat in ("10", "01", "110", "0", "1", "001"):
                yield {"base": rng.choice(bases), "steps": [{"op": "table.keep_rows_pattern", "args": {"table": t, "pattern": pat}},
                                                           {"op": "table.iterate", "args": {"table": t}}] + T}
            for sl in ([None, None, None], ["0", "n+1", None], ["-2", None, None], [None, None, "-1"], ["max", "0", "-1"],
                       ["n", "n+1", None], [None, None, "2"]):
                yield {"base": rng.choice(bases), "steps": [{"op": "table.getitem_slice", "args": {"table": t, "sl": sl}}] + T}
            for v in MANGLE_IDS + ["0"]:
                yield {"base": rng.choice(bases), "steps": [{"op": "table.add_row_ids", "args": {"table": t, "v": v}},
                                                           {"op": "table.iterate", "args": {"table": t}}] + T}
            for col in FIXEDCOLS[t] + RAGGED[t] + [c + "_offset" for c in RAGGED[t]]:
                for ln in ("n-1", "n+1", "0", "2n") if tier != "quick" else ("n-1", "n+1"):
                    for opn in ("table.set_columns_len", "table.append_columns_len"):
                        yield {"base": rng.choice(bases), "steps": [{"op": opn, "args": {"table": t, "col": col, "len": ln}},
                                                                   {"op": "table.iterate", "args": {"table": t}}] + T}
                for dt in ("float64", "int64", "uint8", "int8", "complex128", "object", "<U3") if tier != "quick" else ("float64", "object"):
                    yield {"base": rng.choice(bases), "steps": [{"op": "table.set_columns_dtype", "args": {"table": t, "col": col, "dtype": dt}},
                                                               {"op": "table.iterate", "args": {"table": t}}] + T}
                yield {"base": rng.choice(bases), "steps": [{"op": "table.set_columns_2d", "args": {"table": t, "col": col}}] + T}
                for how in ("short", "long", "empty", "float", "int64big", "2d", "none", "str") if tier != "quick" else ("short", "long", "int64big", "none"):
                    yield {"base": rng.choice(bases), "steps": [{"op": "tc.fromdict_mangled", "args": {"table": t, "col": col, "how": how}}] + T}
            for col in RAGGED[t]:
                for how in ("first1", "last+1", "last+big", "decreasing", "short", "long", "huge", "empty", "int8", "float"):
                    yield {"base": rng.choice(bases), "steps": [{"op": "table.set_columns_offset", "args": {"table": t, "col": col, "how": how}},
                                                               {"op": "table.iterate", "args": {"table": t}}] + T}
                for how in ("off_first1", "off_last+1", "off_dec", "off_huge"):
                    yield {"base": rng.choice(bases), "steps": [{"op": "tc.fromdict_mangled", "args": {"table": t, "col": col + "_offset", "how": how}}] + T}
        # every column of every table longer / shorter than the others, each alone, with the optional
        # columns absent (seeded change C09-5) and with all columns present
        for t in TABLES:
            cols = FIXEDCOLS[t] + [c + "_offset" for c in RAGGED[t]]
            for col in cols:
                for ln in ("n-1", "n+1", "2n", "n") if tier != "quick" else ("n-1", "n+1", "n"):
                    for how in ("set", "append", "fromdict"):
                        for keep in ("required", "all"):
                            if tier == "quick" and keep == "all" and (how != "set" or ln != "n+1"):
                                continue
                            yield {"base": rng.choice(bases), "steps": [
                                {"op": "table.columns_min_len", "args": {"table": t, "col": col, "len": ln, "how": how, "keep": keep}},
                                {"op": "table.iterate", "args": {"table": t}}] + T}
        # ragged / scalar id columns that keep_rows validates and then remaps through id_map
        # (seeded change C09-7): an out-of-range or deleted reference anywhere in a kept row
        bad_ids = ("n", "n+1", "max", "-2", "min", "-3", "-1000")
        plists = [[["-1"], ["0"], ["-1", "0"]], [["0", "-1"], ["-1", "-1"], ["1", "0"]]]
        for b in bad_ids:
            plists += [[["-1", b], ["-1"], []], [["0", "-1", b], ["-1"], []], [[b], ["-1"], []], [["-1", "-1", b, "0"], [], []],
                       [[], ["-1", "0", b], ["0"]], [["-1"], [], ["-1", b]]]
        plists += [[["-1", "1"], ["-1"], []], [["1", "-1"], ["-1"], []]]          # parent row 1 is deleted by keep 101
        for ps in plists:
            for keep in ("111", "101", "100", "011", "000"):
                kept_bad = any(k == "1" and any(x in bad_ids for x in row) for k, row in zip(keep, ps))
                deleted_ref = any(k == "1" and any(x not in bad_ids and x != "-1" and keep[int(x)] == "0" for x in row)
                                  for k, row in zip(keep, ps))
                yield {"base": rng.choice(bases), "steps": [
                    {"op": "individuals.keep_rows_parents", "args": {"parents": ps, "keep": keep},
                     "expect": "raise" if (kept_bad or deleted_ref) else "ok"},
                    {"op": "table.iterate", "args": {"table": "individuals"}}] + T}
        low = ("-2", "-3", "-1000", "min")
        pars = [["-1", "0", "1"], ["-1", "-1", "0"], ["-1", "-1", "1"], ["-1", "n", "0"], ["-1", "0", "max"], ["-1", "0", "n+1"]]
        pars += [["-1", b, "0"] for b in low] + [[b, "-1", "-1"] for b in low] + [["-1", "-1", b] for b in low]
        for par in pars:
            for keep in ("111", "101", "011", "110", "100"):
                bad = any(k == "1" and x != "-1" and (x in low or x in ("n", "n+1", "max") or keep[int(x)] == "0")
                          for k, x in zip(keep, par))
                yield {"base": rng.choice(bases), "steps": [
                    {"op": "mutations.keep_rows_parents", "args": {"parent": par, "keep": keep},
                     "expect": "raise" if bad else "ok"},
                    {"op": "table.iterate", "args": {"table": "mutations"}}] + T}
        for name in ("tc.delete_sites",):
            yield from focused(rng, bases, name, tail=("probe.tc",))
        for es in ID_SYMS:
            yield {"base": rng.choice(bases), "steps": [{"op": "tc.sort", "args": {"edge_start": es}}] + T}
            yield {"base": rng.choice(bases), "steps": [{"op": "tc.sort", "args": {"site_start": es}}] + T}
            yield {"base": rng.choice(bases), "steps": [{"op": "tc.sort", "args": {"mutation_start": es}}] + T}
            yield {"base": rng.choice(bases), "steps": [{"op": "tc.sort", "args": {"site_start": es, "mutation_start": es}}] + T}
        for ins, rem in (("id", "id"), ("rev", "id"), (["n"], ["0"]), (["-1"] * 2, ["0"] * 2), ("id", ["max"]), ([], []),
                         (["0"], "id"), ("id", ["0"]), (["n+1"], ["n+1"])):
            for dt in ("int32", "int64"):
                yield {"base": rng.choice(bases), "steps": [
                    {"op": "tc.set_indexes", "args": {"ins": ins, "rem": rem, "dtype": dt}},
                    {"op": "tc.call", "args": {"m": "tree_sequence"}}, {"op": "probe.tree", "args": {}}] + T}


class MapMutations(Monitor):
    """Tree.map_mutations: genotype array length / values / dtype, allele lists."""
    name = "map_mutations"

    def generate(self, rng, tier):
        descs = valid_bases(rng, 6 if tier == "quick" else 30)
        bases = [base_valid(rng, d, {"index": i}) for d in descs for i in (0, 5)]
        al4 = ["A", "C", "G", "T"]
        big = [str(i) for i in range(70)]
        for g in ({"len": "ns"}, {"len": "ns-1"}, {"len": "ns+1"}, {"len": "0"}, {"len": "2ns"},
                  {"fill": 1}, {"fill": 3}, {"fill": 4}, {"fill": 5}, {"fill": 63}, {"fill": 64}, {"fill": 65}, {"fill": 127},
                  {"fill": -1}, {"fill": -2}, {"fill": -128}, {"set": {"0": 1}}, {"set": {"0": -1}}, {"set": {"0": 64}},
                  {"set": {"0": 4}}, {"set": {"0": -2}}, {"set": {"1": 127}},
                  {"dtype": "int32", "fill": 300}, {"dtype": "int64", "fill": 2 ** 40}, {"dtype": "uint8", "fill": 255},
                  {"dtype": "float64", "fill": 0.5}, {"dtype": "int16", "fill": 128}, {"shape2": True}, {"aslist": True},
                  {"fill": 0, "set": {"0": 1, "1": 2, "2": 3}}):
            for alleles in (al4, ["A"], [], big[:64], big[:65], big, ["A", "A"], al4 + [None], [""], ["A" * 1000, "C"]):
                for anc in (None, "A", 0, 3, 4, -1, 64, 65, "Z", 2 ** 31, 1.5):
                    if alleles is al4 and (anc is None or isinstance(anc, int)):
                        yield {"base": rng.choice(bases), "steps": [
                            {"op": "tree.ll_map_mutations", "args": {"g": g, "anc": anc}},
                            {"op": "probe.tree", "args": {}}]}
                    if rng.random() < (0.12 if tier == "quick" else 0.5) or (anc is None and alleles is al4):
                        yield {"base": rng.choice(bases), "steps": [
                            {"op": "tree.map_mutations", "args": {"g": g, "alleles": alleles, "anc": anc}},
                            {"op": "tree.map_mutations", "args": {"g": {"fill": 0, "set": {"0": 1}}, "alleles": al4}},
                            {"op": "probe.tree", "args": {}}]}


def tc_steps(rng):
    """A random boundary call on a table collection (arbitrary or valid)."""
    r = rng.random()
    lst = rng.choice(ID_LISTS)
    if r < 0.30:
        return {"op": "tc.call", "args": {"m": rng.choice(TC_CALLS)}}
    if r < 0.38:
        return {"op": "tc.simplify", "args": {"samples": lst, "opts": rng.choice([{}, {"keep_unary": True}, {"filter_nodes": False}, {"reduce_to_site_topology": True}, {"keep_input_roots": True, "filter_sites": False}])}}
    if r < 0.44:
        return {"op": "tc.subset", "args": {"nodes": lst, "opts": rng.choice([{}, {"reorder_populations": False, "remove_unreferenced": False}])}}
    if r < 0.52:
        mp = rng.choice([{}, {"fill": "-1"}, {"fill": "n"}, {"set": {"0": "n"}}, {"len": "n-1"}, {"len": "n+1"}, {"fill": "0"}, {"fill": "-2"}])
        return {"op": rng.choice(["tc.union_self", "tc.union_other"]), "args": {"mapping": mp, "opts": rng.choice([{"check_shared_equality": False}, {"check_shared_equality": True}, {"check_shared_equality": False, "add_populations": False}])}}
    if r < 0.58:
        return {"op": "tc.ibd_within", "args": {"within": lst, "opts": rng.choice([{}, {"store_segments": True}])}}
    if r < 0.64:
        return {"op": "tc.ibd_between", "args": {"a": lst, "b": rng.choice(ID_LISTS), "opts": {}}}
    if r < 0.67:
        return {"op": "tc.ibd_all", "args": {"opts": rng.choice([{}, {"store_pairs": True}, {"max_time": 1.0}])}}
    if r < 0.73:
        return {"op": "tc.link_ancestors", "args": {"samples": lst, "ancestors": rng.choice(ID_LISTS)}}
    if r < 0.78:
        return {"op": "tc.sort", "args": {rng.choice(["edge_start", "site_start", "mutation_start"]): rng.choice(ID_SYMS)}}
    if r < 0.84:
        return {"op": rng.choice(["tc.keep_intervals", "tc.delete_intervals"]), "args": {"iv": rng.choice(INTERVALS), "opts": rng.choice([{}, {"simplify": False}])}}
    if r < 0.87:
        return {"op": "tc.delete_older", "args": {"t": rng.choice(POS_SYMS)}}
    if r < 0.90:
        return {"op": "tc.delete_sites", "args": {"sites": lst}}
    t = rng.choice(TABLES)
    if r < 0.94:
        return {"op": "table.getitem", "args": {"table": t, "i": rng.choice(ID_SYMS)}}
    if r < 0.97:
        return {"op": "table.keep_rows_pattern", "args": {"table": t, "pattern": rng.choice(["10", "01", "0", "110"])}}
    return {"op": "table.truncate", "args": {"table": t, "k": rng.choice(ID_SYMS)}}


class RawTables(Monitor):
    """Arbitrary (invalid, unsorted, unindexed, wrongly indexed) table collections x
    table-collection methods: the integrity checks at the entry of the algorithms that
    index memory by *stored* ids are what is monitored."""
    name = "raw_tables"

    def generate(self, rng, tier):
        descs = valid_bases(rng, 12 if tier == "quick" else 60, max_sites=4, migrations=False)
        n = 150 if tier == "quick" else 8000
        # systematic part: every kind of damage x every table-collection entry point
        entry = [{"op": "tc.call", "args": {"m": m}} for m in TC_CALLS] + [
            {"op": "tc.simplify", "args": {"samples": ["0", "1"], "opts": {}}},
            {"op": "tc.simplify", "args": {"samples": ["0", "1"], "opts": {"keep_unary": True, "filter_nodes": False}}},
            {"op": "tc.subset", "args": {"nodes": ["0", "n-1"], "opts": {}}},
            {"op": "tc.union_self", "args": {"mapping": {}, "opts": {"check_shared_equality": False}}},
            {"op": "tc.union_self", "args": {"mapping": {"fill": "-1"}, "opts": {"check_shared_equality": True}}},
            {"op": "tc.union_other", "args": {"mapping": {}, "opts": {"check_shared_equality": False}}},
            {"op": "tc.ibd_within", "args": {"within": ["0", "1"], "opts": {}}},
            {"op": "tc.ibd_between", "args": {"a": ["0"], "b": ["1"], "opts": {}}},
            {"op": "tc.ibd_all", "args": {"opts": {}}},
            {"op": "tc.link_ancestors", "args": {"samples": ["0", "1"], "ancestors": ["n-1"]}},
            {"op": "tc.sort", "args": {"edge_start": "n/2"}},
            {"op": "tc.keep_intervals", "args": {"iv": [["0", "mid"]], "opts": {}}},
            {"op": "tc.keep_intervals", "args": {"iv": [["0", "mid"]], "opts": {"simplify": False}}},
            {"op": "tc.delete_older", "args": {"t": "mid"}},
            {"op": "tc.delete_sites", "args": {"sites": ["0"]}},
        ] + [{"op": "table.keep_rows_pattern", "args": {"table": t, "pattern": pat}}
             for t in ("mutations", "individuals", "nodes", "edges", "sites") for pat in ("1", "10")]
        reps = 1 if tier == "quick" else 4
        for _ in range(reps):
            for kinds_ in [[k] for k in MANGLE_KINDS] + MANGLE_COMBOS:
                kind = kinds_[-1].partition(":")[0]
                for e in entry:
                    if tier == "quick" and len(kinds_) == 1 and kind not in REF_KINDS and rng.random() < 0.5:
                        continue
                    base = base_raw(rng, rng.choice(descs), kinds_)
                    st = {"op": e["op"], "args": json.loads(json.dumps(e["args"])), "expect": "any"}
                    if e["op"] == "tc.call" and e["args"]["m"] in CHECKING_CALLS and invalid_ref_tags(base["tags"]) \
                            and not (e["args"]["m"] == "deduplicate_sites" and not base["desc"]["sites"]):
                        st["expect"] = "raise"      # an out-of-range cross-table reference must be refused
                    if kind == "edge_id" and e["op"] in ("tc.ibd_within", "tc.ibd_between", "tc.ibd_all",
                                                         "tc.delete_older", "tc.link_ancestors"):
                        # since e0eff6d (C09-N5) these check the tables on entry: an edge whose parent or
                        # child is out of range must be rejected, not used as an index
                        st["expect"] = "raise"
                    yield {"base": base, "steps": [st, {"op": "probe.tc", "args": {}}]}
        for k in range(n):
            base = base_raw(rng, rng.choice(descs))
            if k % 3 == 0:
                m = TC_CALLS[(k // 3) % len(TC_CALLS)]
                steps = [{"op": "tc.call", "args": {"m": m}}]
            else:
                steps = [tc_steps(rng) for _ in range(rng.choice([1, 2, 3]))]
            for st in steps:
                st["expect"] = "any"          # arbitrary tables: only crash / hang / UB are failures
            steps += [{"op": "probe.tc", "args": {}}]
            yield {"base": base, "steps": steps}


def tree_steps(rng):
    r = rng.random()
    s = rng.choice(ID_SYMS)
    if r < 0.35:
        return {"op": rng.choice(TREE1), "args": {"u": s}}
    if r < 0.5:
        return {"op": rng.choice(TREE2), "args": {"u": s, "v": rng.choice(ID_SYMS)}}
    if r < 0.62:
        return {"op": "tree.seek", "args": {"x": rng.choice([p for p in POS_SYMS if p != "nan"])}}
    if r < 0.7:
        return {"op": "tree.seek_index", "args": {"i": s}}
    if r < 0.9:
        return {"op": rng.choice(["tree.next", "tree.prev", "tree.first", "tree.last", "tree.clear", "tree.copy"]), "args": {}}
    if r < 0.95:
        return {"op": "tree.new", "args": {"tracked": rng.choice(ID_LISTS), "opts": rng.choice([{}, {"sample_lists": True}])}}
    return {"op": "tree.nodes", "args": {"root": s, "order": rng.choice(["preorder", "postorder", "timeasc", "levelorder"])}}


class Sequences(Monitor):
    """Random call sequences on one set of objects (tree + tree sequence + tables)."""
    name = "sequences"

    def generate(self, rng, tier):
        descs = valid_bases(rng, 10 if tier == "quick" else 50, max_sites=4)
        for _ in range(250 if tier == "quick" else 4000):
            base = base_valid(rng, rng.choice(descs))
            steps = []
            for _k in range(rng.randrange(3, 9)):
                steps.append(tree_steps(rng) if rng.random() < 0.6 else tc_steps(rng))
                if rng.random() < 0.15:
                    steps.append({"op": "tc.call", "args": {"m": "tree_sequence"}, "expect": "any"})
            for st in steps:
                if st["op"].startswith(("tc.", "table.")):
                    st.setdefault("expect", "any")     # tables drift away from validity along the sequence
            steps += [{"op": "probe.tree", "args": {}}, {"op": "probe.ts", "args": {}}, {"op": "probe.tc", "args": {}}]
            yield {"base": base, "steps": steps}



class Arrays(Monitor):
    """Extension round: array arguments of the wrong dtype / shape / stride for every table
    column and for the statistics; accessors and setters that store caller-supplied bytes."""
    name = "arrays"

    def generate(self, rng, tier):
        descs = valid_bases(rng, 5 if tier == "quick" else 20, max_sites=4, migrations=True)
        bases = [base_valid(rng, d) for d in descs]
        T = [{"op": "probe.tc", "args": {}}]
        quick = tier == "quick"
        for t in TABLES:
            cols = FIXEDCOLS[t] + RAGGED[t] + [c + "_offset" for c in RAGGED[t]]
            for col in cols:
                kinds = WEIRD if not quick else rng.sample(WEIRD, 4)
                for kind in kinds:
                    for how in ("set", "append", "fromdict") if not quick else (rng.choice(["set", "append", "fromdict"]),):
                        yield {"base": rng.choice(bases), "steps": [
                            {"op": "table.columns_weird", "args": {"table": t, "col": col, "kind": kind, "how": how}},
                            {"op": "table.iterate", "args": {"table": t}}] + T}
            for col in (FIXEDCOLS[t] + RAGGED[t])[:2]:
                for how in ("short", "long", "float", "ids_big"):
                    yield {"base": rng.choice(bases), "steps": [
                        {"op": "tc.pickle_mangled", "args": {"table": t, "col": col, "how": how}}] + T}
        for kind in WEIRD:
            for which in ("ins", "rem", "both"):
                yield {"base": rng.choice(bases), "steps": [
                    {"op": "tc.indexes_weird", "args": {"kind": kind, "which": which}},
                    {"op": "tc.call", "args": {"m": "tree_sequence"}}, {"op": "probe.tree", "args": {}}] + T}
        for target in ("tc",) + TABLES:
            for value in ("empty", "garbage", "nul", "long", "bytes", "struct", "json", "none", "int"):
                if target == "provenances":
                    continue
                yield {"base": rng.choice(bases), "steps": [
                    {"op": "tc.metadata_schema_raw", "args": {"target": target, "value": value}},
                    {"op": "tc.call", "args": {"m": "copy"}}, {"op": "tc.call", "args": {"m": "dump_load"}}] + T}
        for value in ("empty", "bytes", "long", "str", "none", "dict"):
            yield {"base": rng.choice(bases), "steps": [{"op": "tc.metadata_raw", "args": {"value": value}},
                                                       {"op": "tc.call", "args": {"m": "dump_load"}}] + T}
        for field in ("data", "url", "metadata_schema", "metadata_schema_ll", "metadata", "clear"):
            for value in ("empty", "acgt", "long", "nul", "unicode", "bytes", "none", "int", "garbage", "json"):
                yield {"base": rng.choice(bases), "steps": [
                    {"op": "tc.reference_sequence", "args": {"field": field, "value": value}},
                    {"op": "tc.reference_sequence", "args": {"field": "data", "value": "acgt"}},
                    {"op": "tc.call", "args": {"m": "dump_load"}}, {"op": "tc.call", "args": {"m": "tree_sequence"}},
                    {"op": "ts.alignments_args", "args": {"kw": {}}}] + T}
        for kw in ({}, {"reference_sequence": "L"}, {"reference_sequence": "L-1"}, {"reference_sequence": "L+1"},
                   {"reference_sequence": "empty"}, {"reference_sequence": "unicode"}, {"reference_sequence": "bytes"},
                   {"missing_data_character": "NN"}, {"missing_data_character": ""}, {"missing_data_character": "é"},
                   {"missing_data_character": "A"}, {"left": "-1"}, {"left": "L"}, {"right": "L+1"}, {"left": "mid", "right": "0"},
                   {"left": "nan"}, {"right": "nan"}, {"left": "inf"}, {"left": "0", "right": "0"}, {"right": "eps"},
                   {"left": "L-eps", "right": "L"}):
            yield {"base": rng.choice(bases), "steps": [{"op": "ts.alignments_args", "args": {"kw": kw}}, {"op": "probe.ts", "args": {}}]}
            k2 = {k: v for k, v in kw.items() if k != "reference_sequence"}
            yield {"base": rng.choice(bases), "steps": [{"op": "ts.haplotypes_args", "args": {"kw": k2}}, {"op": "probe.ts", "args": {}}]}
        for opts in ({}, {"store_pairs": True}, {"store_segments": True}, {"store_pairs": True, "store_segments": True},
                     {"store_segments": True, "max_time": 0.5}, {"store_pairs": True, "min_span": 100.0}):
            keys = [["0", "1"], ["1", "0"], ["0", "0"], ["0", "n"], ["n", "0"], ["-1", "0"], ["max", "0"], ["0", "n-1"], ["0"],
                    ["0", "1", "1"], ["2^32", "1"]]
            yield {"base": rng.choice(bases), "steps": [{"op": "ts.ibd_accessors", "args": {"opts": opts, "keys": keys}},
                                                       {"op": "probe.ts", "args": {}}]}
        for which in ("kc_distance", "rf_distance", "ts_kc"):
            for how in ("fewer_samples", "more_nodes", "empty", "null_tree", "comb"):
                yield {"base": rng.choice(bases), "steps": [{"op": "tree.distance_other", "args": {"which": which, "how": how}},
                                                           {"op": "probe.tree", "args": {}}]}
        stats = list(ONE_WAY[:2]) + ["divergence", "f3", "f4"] if quick else list(ONE_WAY) + list(MULTI_WAY)
        for stat in stats:
            for what in ("sets", "sets_flat", "windows", "indexes"):
                for kind in (WEIRD if not quick else rng.sample(WEIRD, 4)):
                    for mode in ("site", "branch") if not quick else (rng.choice(["site", "branch", "node"]),):
                        yield {"base": rng.choice(bases), "steps": [
                            {"op": "ts.stat_arrays", "args": {"stat": stat, "what": what, "kind": kind, "mode": mode}},
                            {"op": "probe.ts", "args": {}}]}
        for fn in ("counts", "rates", "quantiles"):
            for tw in (["0", "1", "inf"], ["0", "inf"], ["inf"], ["0"], [], ["0", "nan", "inf"], ["nan", "inf"], ["0", "0", "inf"],
                       ["1", "0", "inf"], ["-inf", "inf"], ["0", "1"], ["-1", "inf"], ["0", "inf", "inf"]):
                yield {"base": rng.choice(bases), "steps": [{"op": "ts.time_windows", "args": {"fn": fn, "tw": tw}},
                                                           {"op": "probe.ts", "args": {}}]}
            for kind in (WEIRD if not quick else rng.sample(WEIRD, 5)):
                yield {"base": rng.choice(bases), "steps": [
                    {"op": "ts.time_windows", "args": {"fn": fn, "tw": ["0", "1", "inf"], "kind": kind}}]}
        for positions in ([["0"]], [["nan"]], [["0", "nan"]], [["nan", "0"]], [["inf"]], [["-1"]], [["L"]], [["L-eps"]], [["0"], ["nan"]],
                          [["mid", "0"]], [["0", "0"]], [["-0.0", "0"]], [["0", "mid", "L-eps"]], [["-inf"]], [["0", "inf"]]):
            bad = any(x in ("nan", "inf", "-1", "L", "-inf") for row in positions for x in row)
            for stat in ("r2", "D"):
                yield {"base": rng.choice(bases), "steps": [
                    {"op": "ts.ld_positions", "args": {"positions": positions, "stat": stat},
                     "expect": "raise" if bad else "any"}, {"op": "probe.ts", "args": {}}]}


FAILING_CALLS = [
    {"op": "tc.sort", "args": {"edge_start": "n+1"}}, {"op": "tc.sort", "args": {"site_start": "1"}},
    {"op": "tc.simplify", "args": {"samples": ["0", "n"], "opts": {}}}, {"op": "tc.simplify", "args": {"samples": ["0", "0"], "opts": {}}},
    {"op": "tc.subset", "args": {"nodes": ["0", "n"], "opts": {}}},
    {"op": "tc.subset", "args": {"nodes": ["-1"], "opts": {"reorder_populations": False, "remove_unreferenced": False}}},
    {"op": "tc.union_self", "args": {"mapping": {"fill": "n"}, "opts": {"check_shared_equality": False}}},
    {"op": "tc.union_self", "args": {"mapping": {"len": "n-1"}, "opts": {"check_shared_equality": False}}},
    {"op": "tc.union_other", "args": {"mapping": {"fill": "-1", "set_self": {"0": "n"}}, "opts": {"check_shared_equality": True}}},
    {"op": "tc.delete_sites", "args": {"sites": ["n"]}}, {"op": "tc.delete_sites", "args": {"sites": ["-1"]}},
    {"op": "tc.keep_intervals", "args": {"iv": [["mid", "0"]], "opts": {}}}, {"op": "tc.delete_intervals", "args": {"iv": [["0", "L+1"]], "opts": {}}},
    {"op": "tc.keep_intervals", "args": {"iv": [["0", "nan"]], "opts": {"simplify": False}}},
    {"op": "tc.delete_older", "args": {"t": "nan"}}, {"op": "tc.link_ancestors", "args": {"samples": ["n+1"], "ancestors": ["0"]}},
    {"op": "tc.ibd_within", "args": {"within": ["0", "0"], "opts": {}}}, {"op": "tc.ibd_between", "args": {"a": ["0"], "b": ["0"], "opts": {}}},
    {"op": "tc.set_indexes", "args": {"ins": ["n"], "rem": ["0"], "dtype": "int32"}},
    {"op": "tc.fromdict_mangled", "args": {"table": "edges", "col": "parent", "how": "short"}},
] + [x for t in TABLES for x in (
    {"op": "table.truncate", "args": {"table": t, "k": "n+1"}}, {"op": "table.truncate", "args": {"table": t, "k": "-1"}},
    {"op": "table.keep_rows", "args": {"table": t, "len": "n+1", "dtype": "bool", "fill": 1}},
    {"op": "table.ll_keep_rows", "args": {"table": t, "len": "n-1"}},
    {"op": "table.setitem", "args": {"table": t, "i": "n", "src": "0"}},
    {"op": "table.set_columns_len", "args": {"table": t, "col": (FIXEDCOLS[t] + RAGGED[t])[0], "len": "n+1"}},
    {"op": "table.append_columns_len", "args": {"table": t, "col": (FIXEDCOLS[t] + RAGGED[t])[-1], "len": "n-1"}},
    {"op": "table.set_columns_offset", "args": {"table": t, "col": RAGGED[t][0], "how": "decreasing"}},
    {"op": "table.set_columns_offset", "args": {"table": t, "col": RAGGED[t][-1], "how": "last+big"}},
    {"op": "table.columns_weird", "args": {"table": t, "col": (FIXEDCOLS[t] + RAGGED[t])[0], "kind": "longer", "how": "append"}},
)]
FOLLOW_UPS = [
    [{"op": "tc.call", "args": {"m": "sort"}}, {"op": "tc.call", "args": {"m": "tree_sequence"}}, {"op": "probe.tree", "args": {}}],
    [{"op": "tc.call", "args": {"m": "copy"}}, {"op": "tc.call", "args": {"m": "dump_load"}}, {"op": "tc.call", "args": {"m": "simplify"}}],
    [{"op": "tc.call", "args": {"m": "build_index"}}, {"op": "tc.call", "args": {"m": "compute_mutation_parents"}},
     {"op": "tc.call", "args": {"m": "canonicalise"}}],
    [{"op": "tc.call", "args": {"m": "asdict_fromdict"}}, {"op": "tc.call", "args": {"m": "trim"}}, {"op": "tc.ibd_all", "args": {"opts": {}}}],
]


class BadState(Monitor):
    """Extension round: a FAILING call of every mutating table / table-collection method,
    the same method again with valid arguments, then normal use of the same objects."""
    name = "bad_state"

    def generate(self, rng, tier):
        descs = valid_bases(rng, 6 if tier == "quick" else 24, max_sites=4)
        bases = [base_valid(rng, d) for d in descs]
        reps = 1 if tier == "quick" else 4
        for _ in range(reps):
            for k, fc in enumerate(FAILING_CALLS):
                o = OPS[fc["op"]]
                valid = {"op": fc["op"], "args": dict(defaults(o), **{p: v for p, v in fc["args"].items()
                                                                     if p in ("table", "col", "opts", "dtype", "fill", "src")})}
                if "len" in fc["args"]:
                    valid["args"]["len"] = "n"
                if "kind" in fc["args"]:
                    valid["args"].update(kind="readonly", how="set")
                if "how" in fc["args"] and "kind" not in fc["args"]:
                    valid = None
                if fc["op"] in ("tc.sort", "tc.keep_intervals", "tc.delete_intervals", "tc.delete_older", "tc.union_self",
                                "tc.union_other", "tc.set_indexes", "table.truncate", "table.setitem"):
                    valid = None
                steps = [json.loads(json.dumps(fc))]
                steps[0]["expect"] = "any"
                if valid is not None:
                    valid["expect"] = "any"
                    steps.append(json.loads(json.dumps(valid)))
                steps += json.loads(json.dumps(FOLLOW_UPS[k % len(FOLLOW_UPS)]))
                for st in steps[1:]:
                    st.setdefault("expect", "any")
                steps += [{"op": "probe.tc", "args": {}}]
                yield {"base": rng.choice(bases), "steps": steps}


class Indexes(Monitor):
    """User-supplied table indexes: each of the two arrays INDEPENDENTLY carries one boundary
    id; then everything that checks or uses the index.  Stale-index histories: index built, edge
    table then grown / shrunk / replaced without re-index, then every entry point that copies or
    reads the tables inside the C library."""
    name = "indexes"

    def generate(self, rng, tier):
        descs = valid_bases(rng, 5 if tier == "quick" else 20, max_sites=4, metadata=False)
        bases = [base_valid(rng, d) for d in descs]
        for _rep in range(1 if tier == "quick" else 3):
            for how in STALE_HOWS:
                for u in COPY_USERS:
                    steps = [{"op": "tc.stale_index", "args": {"how": how}, "expect": "any"}]
                    steps += json.loads(json.dumps(u))
                    for st in steps[1:]:
                        st["expect"] = "any"
                    if how not in ("same_count",) and steps[1]["op"] == "tc.load_tables" \
                            and steps[1]["args"]["build_indexes"] is False:
                        steps[1]["expect"] = "raise"      # a stale index is no index: must be refused
                    steps += [{"op": "probe.tc", "args": {}}]
                    yield {"base": rng.choice(bases), "steps": steps}
        users = [[{"op": "tc.call", "args": {"m": "tree_sequence"}}, {"op": "probe.tree", "args": {}}],
                 [{"op": "tc.call", "args": {"m": "compute_mutation_parents"}}],
                 [{"op": "tc.call", "args": {"m": "compute_mutation_times"}}],
                 [{"op": "tc.call", "args": {"m": "dump_load"}}, {"op": "tc.call", "args": {"m": "tree_sequence"}}],
                 [{"op": "tc.call", "args": {"m": "asdict_fromdict"}}, {"op": "tc.call", "args": {"m": "tree_sequence"}}],
                 [{"op": "tc.call", "args": {"m": "pickle"}}, {"op": "tc.call", "args": {"m": "compute_mutation_parents"}}],
                 [{"op": "tc.ibd_all", "args": {"opts": {}}}, {"op": "tc.call", "args": {"m": "simplify"}}],
                 [{"op": "tc.call", "args": {"m": "trim"}}, {"op": "tc.call", "args": {"m": "canonicalise"}}],
                 [{"op": "tc.keep_intervals", "args": {"iv": [["0", "mid"]], "opts": {"simplify": False}}},
                  {"op": "tc.call", "args": {"m": "tree_sequence"}}]]
        reps = 1 if tier == "quick" else 4
        for _ in range(reps):
            for which in ("ins", "rem"):
                for v in ID_SYMS + ["min"]:
                    for pos in ("first", "last", "mid"):
                        for ui, u in enumerate(users):
                            if tier == "quick" and ui >= 3 and rng.random() < 0.6:
                                continue
                            steps = [{"op": "tc.set_index_one", "args": {"which": which, "pos": pos, "v": v}, "expect": "any"}]
                            steps += json.loads(json.dumps(u))
                            bad = v in ("-2", "-1", "n", "n+1", "max", "min")
                            for st in steps[1:]:
                                st["expect"] = "any"
                            if bad and steps[1]["op"] == "tc.call" and steps[1]["args"]["m"] in (
                                    "tree_sequence", "compute_mutation_parents", "compute_mutation_times"):
                                steps[1]["expect"] = "raise"      # an index entry outside [0, num_edges)
                            steps += [{"op": "probe.tc", "args": {}}]
                            yield {"base": rng.choice(bases), "steps": steps}


SIZES_QUICK = [63, 64, 65, 127, 128, 129]
SIZES_THOROUGH = [31, 32, 33, 255, 256, 257, 511, 512, 513, 1023, 1024, 1025]


class Sizes(Monitor):
    """Valid inputs whose child counts / segment counts / row counts sit exactly at powers of
    two and +-1: the grow-by-doubling buffers of the C library (simplifier segment queue,
    ibd segment queue, table columns, ancestor mapper, sorter) under ASan."""
    name = "sizes"
    timeout = 300.0

    def generate(self, rng, tier):
        sizes = SIZES_QUICK + (SIZES_THOROUGH if tier != "quick" else [])
        T = [{"op": "probe.ts", "args": {}}]
        for n in sizes:
            shapes = [{"kind": "shape", "shape": "star", "n": n},
                      {"kind": "shape", "shape": "caterpillar", "n": n},
                      {"kind": "shape", "shape": "two_level", "n": n, "g": 2},
                      {"kind": "shape", "shape": "two_level", "n": 2 * n, "g": 2}]       # n children per parent
            for m in (2, 4, 8):
                if n % m == 0 or (n + 1) % m == 0 or (n - 1) % m == 0:
                    k = max(n // m, 1)
                    shapes.append({"kind": "shape", "shape": "intervals", "n": k, "m": m})           # ~n segments
                    if k * m != n:
                        shapes.append({"kind": "shape", "shape": "intervals", "n": k + 1, "m": m})
            shapes.append({"kind": "shape", "shape": "intervals", "n": 2, "m": n // 2 if n % 2 == 0 else n})
            exact = n & (n - 1) == 0                 # the power of two itself gets the full menu in quick
            if tier == "quick" and not exact:
                shapes = [b for b in shapes if b["shape"] in ("star", "intervals")][:2]
            elif tier == "quick":
                shapes = [b for b in shapes if not (b["shape"] == "two_level" and b["n"] == n)]
            for base in shapes:
                big = base["n"] * base.get("m", 1) > 300
                lean = tier == "quick" and not exact
                for which in ("all", "even", "odd", "all_but_one", "first_half", "rev"):
                    for opts in ({}, {"keep_unary": True}, {"filter_nodes": False, "keep_input_roots": True}):
                        if (tier == "quick" or big) and opts and which not in ("all", "even"):
                            continue
                        for on in ("ts", "tc") if (tier != "quick" and not big) else ("ts",):
                            yield {"base": base, "steps": [{"op": "big.simplify", "args": {"which": which, "opts": opts, "on": on}}] + T}
                if not big:
                    for which in ("all", "even", "between", "all_but_one"):
                        for opts in ({}, {"store_segments": True}, {"store_pairs": True, "min_span": 0.1}):
                            if tier == "quick" and opts and which != "all":
                                continue
                            yield {"base": base, "steps": [{"op": "big.ibd", "args": {"which": which, "opts": opts}}] + T}
                for which in ("all", "even", "all_but_one") if not lean else ("all",):
                    for anc in ("internal", "root"):
                        yield {"base": base, "steps": [{"op": "big.link_ancestors", "args": {"which": which, "anc": anc}}] + T}
                for which in ("all", "rev", "even", "samples", "dup") if not lean else ("all", "dup"):
                    yield {"base": base, "steps": [{"op": "big.subset", "args": {"which": which, "opts": {}}}] + T}
                for what in BIG_MISC if not lean else ("sort_shuffled", "keep_intervals", "map_mutations", "trees", "dump_load", "extend"):
                    if big and what in ("divmat", "union", "count_topologies", "extend_haplotypes"):
                        continue
                    if tier == "quick" and base["shape"] in ("two_level",) and what not in ("sort_shuffled", "dump_load", "trees", "variants"):
                        continue
                    yield {"base": base, "steps": [{"op": "big.misc", "args": {"what": what}}] + T}


FAMILIES = [TreeIds, TsIds, Positions, Stats, Tables, MapMutations, RawTables, Sequences, Arrays, BadState, Indexes, Sizes]
NOT_COVERED = [
    "PROVED is only the guard logic / capacity arithmetic of the entry points modelled in coq/theories/C09/Guards*.v; "
    "memory safety of the compiled C (heap layout, UB in unmodelled code, allocator failure paths) is MONITORED under "
    "ASan+UBSan on the generated call sequences, not proved",
    "ids in [num_rows, max_rows) that index table COLUMNS read allocated-but-unused capacity, and small overflows of "
    "numpy-owned buffers land in numpy's small-block cache: ASan cannot see either (the out-of-range / wrong-length "
    "oracles and the guard models do); per-node arrays allocated with exactly num_nodes elements are visible",
    "monitored only, no guard model: the bodies of the statistics (general_stat, divergence_matrix, relatedness "
    "vector/matrix, pair_coalescence_*), keep/delete_intervals, decapitate, split_edges, trim, sort(edge_start), "
    "union(check_shared_equality=True), newick, kc/rf distance, reference_sequence / metadata(_schema) setters, "
    "IdentitySegments accessors, alignments / haplotypes arguments, the grow-by-doubling buffers exercised by the "
    "`sizes` family (only two_site `sites` and Variant alt_samples have a capacity theorem), every table-collection "
    "method on arbitrary tables other than the index check",
    "not monitored: drawing (draw_svg, draw_text), CLI, haplotype_matching (_tskit.LsHmm / matrices), tskit.load of "
    "corrupted files (property C10), metadata codecs (C12), legacy formats.py, ts.pca, general_stat with misbehaving "
    "user functions beyond wrong output shapes, multi-threaded calls (num_threads > 0), objects shared between "
    "threads, pickling of Tree objects, the lwt_interface example module, ids beyond 2^64, inputs larger than 1025 "
    "samples / rows (size boundaries 63..129 in quick, up to 1025 in thorough)",
    "allocation-failure paths (TSKIT_VERIF_MALLOC_FAIL_AT hook of the design) are not enumerated",
    "the low-level _tskit classes are exercised only through the public classes, plus direct calls of "
    "ll_table.get_row / extend / keep_rows, _ll_tree.map_mutations and the low-level metadata_schema setters",
]


if __name__ == "__main__":
    import sys
    if "--serve" in sys.argv:
        serve()
