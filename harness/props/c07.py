"""C07 — sort / repair tools reorder without changing content; the result loads;
compute_mutation_parents = nearest mutation above; canonicalise is row-order invariant.

Inputs: logically consistent collections from harness/gen_ts.py put into every row
permutation of one non-node table when it has <= 5 rows (<= 120 variants) and random
shuffles of all tables beyond, with reference columns remapped consistently, row
metadata, duplicated site positions, known / unknown mutation times and every legal
edge_start / (site_start, mutation_start) argument.

Coordinates are reported on the doubled integer lattice (c2 = 2*x for the description
coordinate x; build_tables multiplies by desc["scale"], a strictly monotone map that is
inverted exactly by table lookup) so every observation is an integer / string tree.
"""
import copy
import itertools
import math

from harness.runner import Family
from harness.common import cz, cn, clist, copt
from harness import gen_ts

NULL = -1


# --------------------------------------------------------------------------
# descriptions: permuting rows with consistent remapping, duplicate sites
# --------------------------------------------------------------------------

def inverse(p):
    q = [0] * len(p)
    for new, old in enumerate(p):
        q[old] = new
    return q


def apply_perms(desc, perms):
    """perms[table][new_row] = old_row.  Reference columns follow the rows."""
    d = copy.deepcopy(desc)
    perms = perms or {}
    if "edges" in perms:
        d["edges"] = [d["edges"][i] for i in perms["edges"]]
    if "migrations" in perms:
        d["migrations"] = [d["migrations"][i] for i in perms["migrations"]]
    if "sites" in perms:
        inv = inverse(perms["sites"])
        d["sites"] = [d["sites"][i] for i in perms["sites"]]
        for m in d["mutations"]:
            m[0] = inv[m[0]]
    if "mutations" in perms:
        inv = inverse(perms["mutations"])
        d["mutations"] = [d["mutations"][i] for i in perms["mutations"]]
        for m in d["mutations"]:
            if m[3] != NULL:
                m[3] = inv[m[3]]
    if "individuals" in perms:
        inv = inverse(perms["individuals"])
        d["individuals"] = [d["individuals"][i] for i in perms["individuals"]]
        for ind in d["individuals"]:
            ind[2] = [inv[p] if p != NULL else NULL for p in ind[2]]
        for n in d["nodes"]:
            if n[3] != NULL:
                n[3] = inv[n[3]]
    if "populations" in perms:
        inv = inverse(perms["populations"])
        d["populations"] = [d["populations"][i] for i in perms["populations"]]
        for n in d["nodes"]:
            if n[2] != NULL:
                n[2] = inv[n[2]]
        for m in d["migrations"]:
            m[3] = inv[m[3]]
            m[4] = inv[m[4]]
    return d


TABLES = ("edges", "sites", "mutations", "migrations", "individuals", "populations")


def random_perms(rng, desc, tables=TABLES):
    out = {}
    for t in tables:
        n = len(desc[t])
        if n > 1:
            p = list(range(n))
            rng.shuffle(p)
            out[t] = p
    return out


def mutation_root(desc, j):
    seen = 0
    while desc["mutations"][j][3] != NULL and seen <= len(desc["mutations"]):
        j = desc["mutations"][j][3]
        seen += 1
    return j


def add_duplicate_sites(rng, desc, p=0.6):
    """Split some sites into several rows with the same position (appended at the end
    of the site table, so in id order they come after).  Whole mutation trees (a root
    mutation with all its descendants) move together, so mutation.parent never crosses
    site rows (TSK_ERR_MUTATION_PARENT_DIFFERENT_SITE otherwise)."""
    d = copy.deepcopy(desc)
    ns = len(d["sites"])
    for s in range(ns):
        if rng.random() > p:
            continue
        for _ in range(rng.choice([1, 1, 2, 3])):
            pos, anc, _md = d["sites"][s]
            new = len(d["sites"])
            d["sites"].append([pos, anc, gen_ts.hx(rng, p=0.8)])
            roots = sorted({mutation_root(d, j) for j, m in enumerate(d["mutations"]) if m[0] == s})
            moved = {r for r in roots if rng.random() < 0.5}
            for j, m in enumerate(d["mutations"]):
                if m[0] == s and mutation_root(d, j) in moved:
                    m[0] = new
    return d


def retime(rng, desc):
    """Known mutation times chosen anywhere in the legal range on the integer lattice:
    node time <= t <= min(parent mutation time, time of the node's parent at the site)
    (root: up to node time + 2).  Processes parents first."""
    d = copy.deepcopy(desc)
    nt = [n[1] for n in d["nodes"]]
    order = sorted(range(len(d["mutations"])), key=lambda j: depth(d, j))
    for j in order:
        s, u, _ds, par, _t, _m = d["mutations"][j]
        pos = d["sites"][s][0]
        pu = gen_ts.parent_at(d, int(math.floor(pos)))[u]
        hi = nt[pu] - 1 if pu != NULL else nt[u] + 2      # strictly younger than the parent node
        if par != NULL:
            hi = min(hi, d["mutations"][par][4])
        d["mutations"][j][4] = rng.randrange(nt[u], hi + 1)
    return d


def depth(desc, j):
    k = 0
    while desc["mutations"][j][3] != NULL and k <= len(desc["mutations"]):
        j = desc["mutations"][j][3]
        k += 1
    return k


# --------------------------------------------------------------------------
# canonical (integer) views of descriptions and of implementation tables
# --------------------------------------------------------------------------

def c2(x):
    v = 2 * x
    assert v == int(v)
    return int(v)


def desc_rows(d):
    return {
        "L2": c2(d["L"]),
        "nodes": [list(n) for n in d["nodes"]],
        "edges": [[c2(l), c2(r), p, c, m] for l, r, p, c, m in d["edges"]],
        "sites": [[c2(p), a, m] for p, a, m in d["sites"]],
        "mutations": [[s, u, ds, par, t, m] for s, u, ds, par, t, m in d["mutations"]],
        "migrations": [[c2(l), c2(r), n, s, t, tm, m] for l, r, n, s, t, tm, m in d["migrations"]],
        "individuals": [[f, list(loc), list(par), m] for f, loc, par, m in d["individuals"]],
        "populations": [[m] for m, in d["populations"]],
    }


def back_map(d):
    s = d.get("scale", 1)
    out = {}
    for k in range(0, 2 * d["L"] + 1):
        x = k / 2 if k % 2 else k // 2
        out[x * s] = k
    return out


def tnum(t):
    import tskit
    if tskit.is_unknown_time(t):
        return None
    return int(t) if t == int(t) else float(t)


def ragged_hex(col, off):
    """Row slices of a ragged column read from the raw arrays, so that a corrupted
    offset column is an observation and not a crash of the adapter."""
    data = bytes(bytearray(int(x) & 255 for x in col))
    off = [int(x) for x in off]
    out = []
    for a, b in zip(off[:-1], off[1:]):
        out.append(data[a:b].hex() if 0 <= a <= b <= len(data) else "!bad-offsets[%d:%d]" % (a, b))
    return out


def dump(tc, back, times=True):
    hexs = lambda b: bytes(b).hex()   # noqa: E731
    emd = ragged_hex(tc.edges.metadata, tc.edges.metadata_offset)
    mmd = ragged_hex(tc.migrations.metadata, tc.migrations.metadata_offset)
    return {
        "L2": back[tc.sequence_length],
        "nodes": [[int(r.flags), tnum(r.time), int(r.population), int(r.individual), hexs(r.metadata)]
                  for r in tc.nodes],
        "edges": [[back[float(l)], back[float(r)], int(p), int(c), emd[k]] for k, (l, r, p, c) in
                  enumerate(zip(tc.edges.left, tc.edges.right, tc.edges.parent, tc.edges.child))],
        "sites": [[back[r.position], r.ancestral_state, hexs(r.metadata)] for r in tc.sites],
        "mutations": [[int(r.site), int(r.node), r.derived_state, int(r.parent),
                       tnum(r.time) if times else None, hexs(r.metadata)] for r in tc.mutations],
        "migrations": [[back[float(l)], back[float(r)], int(n), int(a), int(b), tnum(t), mmd[k]]
                       for k, (l, r, n, a, b, t) in enumerate(zip(
                           tc.migrations.left, tc.migrations.right, tc.migrations.node,
                           tc.migrations.source, tc.migrations.dest, tc.migrations.time))],
        "individuals": [[int(r.flags), [int(x) for x in r.location], [int(x) for x in r.parents],
                         hexs(r.metadata)] for r in tc.individuals],
        "populations": [[hexs(r.metadata)] for r in tc.populations],
    }


def err_class(e):
    """LibraryError messages end with the C error identifier: "... (TSK_ERR_XXX)"."""
    import re
    m = re.search(r"\((TSK_ERR_\w+)\)", str(e))
    return type(e).__name__ + ":" + (m.group(1) if m else str(e)[:60])


def nondecreasing(keys):
    return all(a <= b for a, b in zip(keys, keys[1:]))


def mixed_times(rows):
    """Some site row has both known and unknown mutation times (cmp_mutation is then not
    transitive; such tables are rejected by every later integrity check)."""
    kinds = {}
    for m in rows["mutations"]:
        kinds.setdefault(m[0], set()).add(m[4] is None)
    return any(len(v) > 1 for v in kinds.values())


# --------------------------------------------------------------------------
# naive evaluation of the documented behaviour of sort()
# --------------------------------------------------------------------------

def expected_sites_mutations(inp):
    """Sites by position, ties keep relative order; mutations by new site id, then time
    (older first) when known, ties / unknown keep relative order; site and parent columns
    are the images of the original rows."""
    ns, nm = len(inp["sites"]), len(inp["mutations"])
    order_s = sorted(range(ns), key=lambda i: (inp["sites"][i][0], i))
    smap = inverse(order_s)
    sites = [inp["sites"][i] for i in order_s]
    muts = [[smap[m[0]]] + m[1:] for m in inp["mutations"]]
    order_m = sorted(range(nm), key=lambda i: (muts[i][0], 0 if muts[i][4] is None else -muts[i][4], i))
    mmap = inverse(order_m)
    out = []
    for i in order_m:
        m = list(muts[i])
        if m[3] != NULL:
            m[3] = mmap[m[3]]
        out.append(m)
    return sites, out


def edge_key(nt, e):
    return (nt[e[2]], e[2], e[3], e[0])


def mig_key(m):
    return (m[5], m[3], m[4], m[0], m[2])


def oracle_sort(inp, out, edge_start, skip):
    fails = []
    nt = [n[1] for n in inp["nodes"]]
    for t in ("nodes", "individuals", "populations"):
        if inp[t] != out[t]:
            fails.append(("sort-touches-" + t, "%s changed by sort()" % t))
    if inp["L2"] != out["L2"]:
        fails.append(("sort-touches-sequence-length", ""))
    es = edge_start
    if inp["edges"][:es] != out["edges"][:es]:
        fails.append(("sort-edge-prefix-changed", "rows before edge_start=%d changed" % es))
    if sorted(map(tuple, inp["edges"][es:])) != sorted(map(tuple, out["edges"][es:])):
        fails.append(("sort-edges-not-permutation", "edge rows (incl. metadata) not preserved"))
    elif not nondecreasing([edge_key(nt, e) for e in out["edges"][es:]]):
        fails.append(("sort-edges-key-order", "edges not in (time[parent], parent, child, left) order"))
    if sorted(map(tuple, inp["migrations"])) != sorted(map(tuple, out["migrations"])):
        fails.append(("sort-migrations-not-permutation", "migration rows not preserved"))
    elif not nondecreasing([mig_key(m) for m in out["migrations"]]):
        fails.append(("sort-migrations-key-order", "migrations not in (time, source, dest, left, node) order"))
    if skip:
        if inp["sites"] != out["sites"]:
            fails.append(("sort-skip-changed-sites", ""))
        if inp["mutations"] != out["mutations"]:
            fails.append(("sort-skip-changed-mutations", ""))
        return fails
    if sorted(map(tuple, inp["sites"])) != sorted(map(tuple, out["sites"])):
        fails.append(("sort-sites-not-permutation", "site rows not preserved"))
    elif not nondecreasing([s[0] for s in out["sites"]]):
        fails.append(("sort-sites-key-order", "sites not by position"))
    content = lambda m: (m[1], m[2], m[4], m[5])   # noqa: E731
    if sorted(map(content, inp["mutations"]), key=repr) != sorted(map(content, out["mutations"]), key=repr):
        fails.append(("sort-mutations-not-permutation", "mutation rows not preserved"))
    elif not nondecreasing([m[0] for m in out["mutations"]]):
        fails.append(("sort-mutations-key-order", "mutations not by site"))
    if not fails and not mixed_times(inp):
        sites, muts = expected_sites_mutations(inp)
        if sites != out["sites"]:
            fails.append(("sort-sites-stability", "sites with equal position did not keep their relative order"))
        elif muts != out["mutations"]:
            same_rows = [m[:3] + m[4:] for m in muts] == [m[:3] + m[4:] for m in out["mutations"]]
            fails.append(("sort-mutations-parent-remap" if same_rows else "sort-mutations-site-remap-or-order",
                          "expected %r got %r" % (muts, out["mutations"])))
    return fails


# --------------------------------------------------------------------------
# logical content of a description (order free)
# --------------------------------------------------------------------------

def logical_genotypes(rows):
    """{pos2: (ancestral, [allele of node u for every node u])} by the nearest-mutation
    rule, evaluated from the parent pointers: on one node the lowest mutation is the one
    that is nobody's parent on that node."""
    n = len(rows["nodes"])
    out = {}
    by_pos = {}
    for j, m in enumerate(rows["mutations"]):
        by_pos.setdefault(rows["sites"][m[0]][0], []).append(j)
    for s in rows["sites"]:
        by_pos.setdefault(s[0], [])
    for pos2, ms in by_pos.items():
        anc = next(s[1] for s in rows["sites"] if s[0] == pos2)
        par = parent_at2(rows, pos2)
        bottom = {}
        for j in ms:
            u = rows["mutations"][j][1]
            is_parent = any(rows["mutations"][k][3] == j and rows["mutations"][k][1] == u for k in ms)
            if not is_parent:
                bottom[u] = j
        alleles = []
        for u in range(n):
            v, a = u, anc
            steps = 0
            while v != NULL and steps <= n:
                if v in bottom:
                    a = rows["mutations"][bottom[v]][2]
                    break
                v = par[v]
                steps += 1
            alleles.append(a)
        out[pos2] = (anc, alleles)
    return out


def parent_at2(rows, pos2):
    par = [NULL] * len(rows["nodes"])
    for l, r, p, c, _m in rows["edges"]:
        if l <= pos2 < r:
            par[c] = p
    return par


def naive_mutation_parents(rows):
    """Nearest mutation above at the same site row, table order deciding on one node:
    the latest earlier row on the same node, else the last row of the first ancestor that
    carries a mutation at this site, else NULL."""
    out = []
    n = len(rows["nodes"])
    for j, m in enumerate(rows["mutations"]):
        s, u = m[0], m[1]
        same = [k for k, o in enumerate(rows["mutations"]) if o[0] == s and o[1] == u and k < j]
        if same:
            out.append(max(same))
            continue
        par = parent_at2(rows, rows["sites"][s][0])
        v, found, steps = par[u], NULL, 0
        while v != NULL and steps <= n:
            on = [k for k, o in enumerate(rows["mutations"]) if o[0] == s and o[1] == v]
            if on:
                found = max(on)
                break
            v = par[v]
            steps += 1
        out.append(found)
    return out


def order_inversions(rows):
    """Mutations whose parent would still come after them once rows are ordered by
    (position, older known time first, site row id, row id) — what sort + deduplicate_sites
    + sort produce.  sort() documents that it does not move parents before children."""
    key = lambda j: (rows["sites"][rows["mutations"][j][0]][0],      # noqa: E731
                     0 if rows["mutations"][j][4] is None else -rows["mutations"][j][4],
                     rows["mutations"][j][0], j)
    return [j for j, m in enumerate(rows["mutations"]) if m[3] != NULL and key(m[3]) > key(j)]


# --------------------------------------------------------------------------
# generators shared by the families
# --------------------------------------------------------------------------

def raw_desc(rng, **kw):
    """gen_ts.random_desc, then (usually) node ids that are NOT in time order: every oracle here
    reads node times through the ids of the description itself, so nothing else needs remapping."""
    d = gen_ts.random_desc(rng, **kw)
    d, _pi = gen_ts.permute_node_ids(rng, d)
    return d


def hollow(rng, desc):
    """One ragged column completely empty next to a non-empty sibling column of the same table
    (sites: ancestral_state / metadata, mutations: derived_state / metadata, individuals:
    location / parents / metadata); nothing else changes."""
    d = copy.deepcopy(desc)
    nz = lambda: bytes(rng.randrange(256) for _ in range(rng.randrange(1, 5))).hex()   # noqa: E731
    if d["sites"]:
        if rng.random() < 0.5:
            for r in d["sites"]:
                r[1], r[2] = "", nz()
        else:
            for r in d["sites"]:
                r[1], r[2] = (r[1] or "A"), ""
    if d["mutations"]:
        if rng.random() < 0.5:
            for r in d["mutations"]:
                r[2], r[5] = "", nz()
        else:
            for r in d["mutations"]:
                r[2], r[5] = (r[2] or "T"), ""
    if d["individuals"]:
        k = rng.randrange(3)
        for r in d["individuals"]:
            r[1] = [] if k == 0 else (r[1] or [rng.randrange(-3, 4)])
            r[3] = "" if k == 1 else nz()
    for t in ("edges", "migrations"):
        if d[t] and rng.random() < 0.5:
            for r in d[t]:
                r[-1] = ""
    return d


def base_desc(rng, small=False, **kw):
    if small:
        d = raw_desc(rng, max_nodes=5, max_L=4, max_sites=3, max_muts=3, migrations=True, **kw)
    else:
        d = raw_desc(rng, max_nodes=8, max_L=6, max_sites=4, max_muts=4, migrations=True, **kw)
    if rng.random() < 0.12:
        d = hollow(rng, d)
    return d


def multiply(rng, desc, edges=False):
    """Multiplicities > 2: three or four site rows at one position (identical rows, the
    mutations spread over the copies), a migration row repeated identically, and optionally an
    edge row repeated identically (contradictory: only for the order / permutation oracles)."""
    d = copy.deepcopy(desc)
    if d["sites"]:
        s = rng.randrange(len(d["sites"]))
        copies = [s]
        for _ in range(rng.choice([2, 3])):
            copies.append(len(d["sites"]))
            d["sites"].append(list(d["sites"][s]))
        roots = sorted({mutation_root(d, j) for j, m in enumerate(d["mutations"]) if m[0] == s})
        where = {r: rng.choice(copies) for r in roots}
        for j, m in enumerate(d["mutations"]):
            if m[0] == s:
                m[0] = where[mutation_root(d, j)]
    if d["migrations"]:
        g = rng.choice(d["migrations"])
        d["migrations"] += [list(g) for _ in range(rng.choice([1, 2]))]
    if edges and d["edges"]:
        e = rng.choice(d["edges"])
        d["edges"] += [list(e) for _ in range(2)]
    return d


def rich_migrations(rng, desc, p_full_tie=0.0):
    """Replace the migration table by 2-7 rows over >= 3 populations with many key ties:
    few distinct times, several rows leaving one source at the same time for different
    destinations, ties on (time, source, dest) with different left / node; optionally one row
    equal to another on ALL five keys (different right / metadata)."""
    d = copy.deepcopy(desc)
    n = len(d["nodes"])
    if n == 0:
        return d
    while len(d["populations"]) < 3:
        d["populations"].append([gen_ts.hx(rng)])
    if rng.random() < 0.3:
        d["populations"].append([gen_ts.hx(rng)])
    npop = len(d["populations"])
    L = d["L"]
    times = [rng.randrange(0, 4) for _ in range(rng.choice([1, 1, 2, 3]))]
    srcs = [rng.randrange(npop) for _ in range(rng.choice([1, 1, 2]))]
    migs, seen = [], set()
    for _ in range(rng.randrange(2, 8)):
        src = rng.choice(srcs)
        dst = rng.choice([q for q in range(npop) if q != src])
        a = rng.randrange(0, L)
        row = [a, rng.randrange(a + 1, L + 1), rng.randrange(n), src, dst, rng.choice(times), gen_ts.hx(rng)]
        key = (row[5], row[3], row[4], row[0], row[2])
        if key in seen:
            continue
        seen.add(key)
        migs.append(row)
    if migs and rng.random() < p_full_tie:
        m = list(rng.choice(migs))
        m[6] = gen_ts.hx(rng, p=1.0) or "bb"
        if m[1] < L and rng.random() < 0.5:
            m[1] = L
        migs.append(m)
    rng.shuffle(migs)
    d["migrations"] = migs
    return d


RAGGED_LENS = (0, 0, 0, 1, 2, 7, 40)


def fatten(rng, desc, one_huge=True):
    """Give the ragged columns of EVERY table rows of very different lengths, including many
    empty ones and (once per table) one of a few hundred bytes: edge / migration / node /
    population metadata, site ancestral_state + metadata, mutation derived_state + metadata,
    individual location + metadata.  Content-preserving for everything the oracles compare."""
    d = copy.deepcopy(desc)

    def blob(n):
        return bytes(rng.randrange(256) for _ in range(n)).hex()

    def text(n):
        return "".join(rng.choice("ACGT-*") for _ in range(n))
    for t, cols in (("nodes", [(4, blob)]), ("edges", [(4, blob)]), ("migrations", [(6, blob)]),
                    ("sites", [(1, text), (2, blob)]), ("mutations", [(2, text), (5, blob)]),
                    ("individuals", [(3, blob)]), ("populations", [(0, blob)])):
        rows = d[t]
        for col, mk in cols:
            for r in rows:
                r[col] = mk(rng.choice(RAGGED_LENS))
            if rows and one_huge and rng.random() < 0.5:
                rng.choice(rows)[col] = mk(rng.choice([150, 300]))
    for ind in d["individuals"]:
        ind[1] = [rng.randrange(-5, 6) for _ in range(rng.choice(RAGGED_LENS[:-1] + (12,)))]
    # sites at one position must keep a common ancestral state (logical content of a position)
    by_pos = {}
    for srow in d["sites"]:
        srow[1] = by_pos.setdefault(srow[0], srow[1])
    return d


def variants(rng, desc):
    """Optional content-preserving decorations of a base description."""
    d = desc
    if d["mutations"] and not any(m[4] is None for m in d["mutations"]) and rng.random() < 0.6:
        d = retime(rng, d)
    if d["sites"] and rng.random() < 0.5:
        d = add_duplicate_sites(rng, d)
    if rng.random() < 0.5:
        d = rich_migrations(rng, d)
    if rng.random() < 0.15:
        d = fatten(rng, d)
    if rng.random() < 0.12:
        d = multiply(rng, d)
    return d


def all_or_some_perms(rng, n, cap=120):
    if n <= 5:
        return [list(p) for p in itertools.permutations(range(n))]
    out = []
    for _ in range(cap):
        p = list(range(n))
        rng.shuffle(p)
        out.append(p)
    return out


def sizes(d):
    return {t: len(d[t]) for t in ("nodes",) + TABLES}


def shrink_desc(desc):
    """Smaller logically consistent descriptions: drop a leaf mutation, a site without
    mutations, a migration, an edge (only when there are no mutations), metadata."""
    d = desc
    parents = {m[3] for m in d["mutations"]}
    for j in range(len(d["mutations"]) - 1, -1, -1):
        if j not in parents:
            e = copy.deepcopy(d)
            del e["mutations"][j]
            for m in e["mutations"]:
                if m[3] > j:
                    m[3] -= 1
            yield e
    used = {m[0] for m in d["mutations"]}
    for s in range(len(d["sites"]) - 1, -1, -1):
        if s not in used:
            e = copy.deepcopy(d)
            del e["sites"][s]
            for m in e["mutations"]:
                if m[0] > s:
                    m[0] -= 1
            yield e
    for k in range(len(d["migrations"]) - 1, -1, -1):
        e = copy.deepcopy(d)
        del e["migrations"][k]
        yield e
    if not d["mutations"]:
        # dropping an edge changes the trees: with mutations present their parent pointers
        # would no longer be the nearest mutation above (not a consistent collection any more)
        for k in range(len(d["edges"]) - 1, -1, -1):
            e = copy.deepcopy(d)
            del e["edges"][k]
            yield e
    if any(r[-1] for t in ("nodes", "edges", "sites", "mutations", "migrations") for r in d[t]):
        e = copy.deepcopy(d)
        for t in ("nodes", "edges", "sites", "mutations", "migrations", "individuals", "populations"):
            for r in e[t]:
                r[-1] = ""
        yield e


def shrink_case(case):
    for e in shrink_desc(case["desc"]):
        c = dict(case)
        c["desc"] = e
        for k in ("perms", "perms_a", "perms_b"):
            if k in c:
                c[k] = {}
        if "edge_start" in c:
            c["edge_start"] = min(c["edge_start"], len(e["edges"]))
        yield c
    for k in ("perms", "perms_a", "perms_b"):
        if case.get(k):
            for t in list(case[k]):
                c = copy.deepcopy(case)
                del c[k][t]
                yield c



# --------------------------------------------------------------------------
# Coq terms
# --------------------------------------------------------------------------

PRELUDE = ("From TskVerif Require Import Base.Common C07.Model.\n"
           "Open Scope Z_scope.")

ERR_CODES = {
    "TSK_ERR_EDGE_OUT_OF_BOUNDS": 1, "TSK_ERR_MIGRATION_OUT_OF_BOUNDS": 2,
    "TSK_ERR_SORT_OFFSET_NOT_SUPPORTED": 3, "TSK_ERR_UNSORTED_SITES": 5,
    "TSK_ERR_MUTATION_PARENT_AFTER_CHILD": 6, "TSK_ERR_MUTATION_PARENT_INCONSISTENT": 7,
    "TSK_ERR_EDGES_NOT_SORTED_PARENT_TIME": 8, "TSK_ERR_EDGES_NOT_SORTED_CHILD": 8,
    "TSK_ERR_EDGES_NOT_SORTED_LEFT": 8, "TSK_ERR_EDGES_NONCONTIGUOUS_PARENTS": 8,
    "TSK_ERR_DUPLICATE_EDGES": 8, "TSK_ERR_CANT_PROCESS_EDGES_WITH_METADATA": 9,
    "TSK_ERR_BAD_EDGES_CONTRADICTORY_CHILDREN": 10, "TSK_ERR_INDIVIDUAL_PARENT_CYCLE": 11,
}


def hexl(h):
    return clist(list(bytes.fromhex(h)))


def strl(s):
    return clist(list(s.encode("utf8")))


def ragged_cols(mds):
    data, off = [], [0]
    for h in mds:
        data += list(bytes.fromhex(h))
        off.append(len(data))
    return data, off


def coq_tables(rows, index=None, raw=None):
    """rows in the dump() layout -> a Model.tables term.  raw = (emd, eoff, gmd, goff)
    overrides the ragged columns derived from the row metadata."""
    if raw is None:
        emd, eoff = ragged_cols([e[4] for e in rows["edges"]])
        gmd, goff = ragged_cols([g[6] for g in rows["migrations"]])
    else:
        emd, eoff, gmd, goff = raw
    nodes = clist(rows["nodes"], lambda n: "(mkNode %s %s %s %s %s)" % (cz(n[0]), cz(n[1]), cz(n[2]), cz(n[3]), hexl(n[4])))
    edges = clist(rows["edges"], lambda e: "(mkE %s %s %s %s)" % tuple(cz(x) for x in e[:4]))
    sites = clist(rows["sites"], lambda x: "(mkSite %s %s %s)" % (cz(x[0]), strl(x[1]), hexl(x[2])))
    muts = clist(rows["mutations"], lambda m: "(mkMut %s %s %s %s %s %s)" % (
        cz(m[0]), cz(m[1]), cz(m[3]), copt(m[4]), strl(m[2]), hexl(m[5])))
    migs = clist(rows["migrations"], lambda g: "(mkG %s %s %s %s %s %s)" % tuple(cz(x) for x in g[:6]))
    inds = clist(rows["individuals"], lambda i: "(mkInd %s %s %s %s)" % (cz(i[0]), clist(i[1]), clist(i[2]), hexl(i[3])))
    pops = clist(rows["populations"], lambda q: hexl(q[0]))
    ix = "None" if index is None else "(Some (%s, %s))" % (clist(index[0]), clist(index[1]))
    return "(mkTables %s %s %s %s %s %s %s %s %s %s %s %s %s)" % (
        cz(rows["L2"]), nodes, edges, clist(emd), clist(eoff), sites, muts, migs, clist(gmd), clist(goff),
        inds, pops, ix)


def jlist(xs):
    return "(JL [" + "; ".join(xs) + "])"


def jints(xs):
    return jlist(["JZ %s" % cz(x) for x in xs])


def j_tables(rows, raw=None):
    if raw is None:
        emd, eoff = ragged_cols([e[4] for e in rows["edges"]])
        gmd, goff = ragged_cols([g[6] for g in rows["migrations"]])
    else:
        emd, eoff, gmd, goff = raw
    return jlist([
        jlist([jints(e[:4]) for e in rows["edges"]]), jints(emd), jints(eoff),
        jlist([jlist(["JZ %s" % cz(x[0]), jints(x[1].encode("utf8")), jints(bytes.fromhex(x[2]))]) for x in rows["sites"]]),
        jlist([jlist(["JZ %s" % cz(m[0]), "JZ %s" % cz(m[1]), jints(m[2].encode("utf8")), "JZ %s" % cz(m[3]),
                      "JN" if m[4] is None else "JZ %s" % cz(m[4]), jints(bytes.fromhex(m[5]))]) for m in rows["mutations"]]),
        jlist([jints(g[:6]) for g in rows["migrations"]]), jints(gmd), jints(goff)])


def j_ok(inner):
    return jlist(["JZ 0%Z", inner])


def j_err(err):
    name = err.split(":", 1)[1]
    return jlist(["JZ 1%Z", "JZ %s" % cz(ERR_CODES.get(name, 99))])


def raw_cols(tc):
    return ([int(x) & 255 for x in tc.edges.metadata], [int(x) for x in tc.edges.metadata_offset],
            [int(x) & 255 for x in tc.migrations.metadata], [int(x) for x in tc.migrations.metadata_offset])


def key_ties(rows, edge_start=0):
    nt = [n[1] for n in rows["nodes"]]
    ek = [edge_key(nt, e) for e in rows["edges"][edge_start:]]
    gk = [mig_key(g) for g in rows["migrations"]]
    return len(set(ek)) != len(ek) or len(set(gk)) != len(gk)


# --------------------------------------------------------------------------
# Family: sort()
# --------------------------------------------------------------------------

class Sort(Family):
    """TableCollection.sort(edge_start, site_start=, mutation_start=)."""
    name = "sort"
    workers = 8
    prelude = PRELUDE

    @staticmethod
    def starts(case, d):
        if case["skip"]:
            return len(d["sites"]), len(d["mutations"])
        return case.get("site_start", 0), case.get("mutation_start", 0)

    def coq_check(self, case, obs):
        d = apply_perms(case["desc"], case["perms"])
        inp = desc_rows(d)
        if mixed_times(inp):
            return None
        ss, ms = self.starts(case, d)
        call = "py_sort Qmerge %s %s %s %s" % (cz(case["edge_start"]), cz(ss), cz(ms), coq_tables(inp))
        if "error" in obs:
            exp = j_err(obs["error"])
        else:
            if key_ties(inp, case["edge_start"]):
                return None      # order of equal keys is qsort's business: only the oracle applies
            exp = j_ok(j_tables(obs["out"], raw=obs["raw"]))
        return "J_eqb (j_res (%s)) %s" % (call, exp)

    def generate(self, rng, tier):
        nbase_ex, nrand = (8, 380) if tier == "quick" else (30, 4000)
        for _ in range(nbase_ex):
            d = variants(rng, base_desc(rng, small=True))
            for t in ("edges", "sites", "mutations", "migrations"):
                n = len(d[t])
                if n < 2:
                    continue
                for p in all_or_some_perms(rng, n, cap=60):
                    yield {"desc": d, "perms": {t: p}, "edge_start": 0, "skip": False}
            for es in range(0, len(d["edges"]) + 1):
                for skip in (False, True):
                    yield {"desc": d, "perms": random_perms(rng, d), "edge_start": es, "skip": skip}
        for _ in range(nrand):
            d = variants(rng, base_desc(rng, small=rng.random() < 0.3))
            if rng.random() < 0.05:
                d = multiply(rng, d, edges=True)
            yield {"desc": d, "perms": random_perms(rng, d),
                   "edge_start": rng.randrange(0, len(d["edges"]) + 1) if rng.random() < 0.4 else 0,
                   "skip": rng.random() < 0.15}
        # illegal arguments
        for _ in range(20):
            d = base_desc(rng, small=True)
            yield {"desc": d, "perms": {}, "edge_start": len(d["edges"]) + 1 + rng.randrange(3), "skip": False}
            if d["sites"] and d["mutations"]:
                yield {"desc": d, "perms": {}, "edge_start": 0, "skip": False,
                       "site_start": rng.randrange(1, len(d["sites"]) + 1), "mutation_start": 0}

    def observe(self, case):
        import tskit
        d = apply_perms(case["desc"], case["perms"])
        back = back_map(d)
        tc = gen_ts.build_tables(d, sort=False, index=False)
        if case["skip"]:
            ss, ms = len(d["sites"]), len(d["mutations"])
        else:
            ss, ms = case.get("site_start", 0), case.get("mutation_start", 0)
        try:
            tc.sort(case["edge_start"], site_start=ss, mutation_start=ms)
        except tskit.LibraryError as e:
            return {"error": err_class(e), "unchanged": dump(tc, back) == desc_rows(d)}
        out = dump(tc, back)
        raw = raw_cols(tc)
        if any(e[4].startswith("!") for e in out["edges"]):
            # offsets no longer monotone: nothing else can be called on this table
            return {"out": out, "raw": raw, "idempotent": True, "full_resort": None, "has_index": False}
        t2 = tc.copy()
        t2.sort(case["edge_start"], site_start=ss, mutation_start=ms)
        t3 = tc.copy()
        t3.sort()
        return {"out": out, "raw": raw, "idempotent": bool(t2.equals(tc)) and dump(t2, back) == out,
                "full_resort": dump(t3, back), "has_index": bool(tc.has_index())}

    def oracle(self, case, obs):
        d = apply_perms(case["desc"], case["perms"])
        inp = desc_rows(d)
        illegal = case["edge_start"] > len(d["edges"]) or "site_start" in case
        if "error" in obs:
            if not illegal:
                return [("sort-raises", "sort() raised %s on a referentially intact collection" % obs["error"])]
            if not obs["unchanged"]:
                return [("sort-error-modified-tables", obs["error"])]
            return []
        if illegal:
            return [("sort-accepts-illegal-start", "edge_start=%r accepted" % case["edge_start"])]
        fails = oracle_sort(inp, obs["out"], case["edge_start"], case["skip"])
        if not obs["idempotent"]:
            fails.append(("sort-not-idempotent", "second identical sort() changed the tables"))
        if obs["has_index"]:
            fails.append(("sort-keeps-stale-index", ""))
        # a full sort() of a partially sorted table must still be a sorted permutation
        if obs["full_resort"] is not None and not fails:
            fails += [("resort-" + k, m) for k, m in oracle_sort(obs["out"], obs["full_resort"], 0, False)]
        return fails

    def nontrivial(self, case, obs):
        d = case["desc"]
        return len(d["edges"]) >= 2 and (len(d["mutations"]) >= 2 or len(d["sites"]) >= 2)

    def describe(self, case, obs):
        d = case["desc"]
        return {"edges": min(len(d["edges"]), 12), "mutations": min(len(d["mutations"]), 8),
                "dup_positions": len(d["sites"]) != len({s[0] for s in d["sites"]}),
                "times": "none" if not d["mutations"] else ("unknown" if d["mutations"][0][4] is None else "known"),
                "edge_start": "0" if case["edge_start"] == 0 else ">0", "skip": case["skip"],
                "migrations": min(len(d["migrations"]), 5),
                "migration_time_source_ties": len({(m[5], m[3]) for m in d["migrations"]}) < len(d["migrations"])}

    def shrink(self, case):
        return shrink_case(case)


# --------------------------------------------------------------------------
# Family: repair pipeline loads and encodes the same trees / genotypes
# --------------------------------------------------------------------------

def observe_ts(ts, d, back):
    n = ts.num_nodes
    trees = []
    for x in range(d["L"]):
        t = ts.at(x * d.get("scale", 1))
        trees.append([int(t.parent(u)) for u in range(n)])
    sites = []
    samples = [int(u) for u in ts.samples()]
    for v in ts.variants(isolated_as_missing=False):
        sites.append([back[v.site.position], v.site.ancestral_state,
                      [v.alleles[g] for g in v.genotypes]])
    return {"trees": trees, "sites": sites, "samples": samples}


class Repair(Family):
    """sort, deduplicate_sites, sort, build_index, compute_mutation_parents
    [, compute_mutation_times] then tree_sequence()."""
    name = "repair"
    workers = 8
    prelude = PRELUDE

    def coq_check(self, case, obs):
        d = apply_perms(case["desc"], case["perms"])
        inp = desc_rows(d)
        if key_ties(inp) or mixed_times(inp):
            return None
        if case["blank_parents"]:
            for m in inp["mutations"]:
                m[3] = NULL
        call = "repair Qmerge %s" % coq_tables(inp)
        if "error" in obs and obs["stage"] not in ("compute_mutation_times", "tree_sequence"):
            exp = j_err(obs["error"])
        elif "parents_tables" in obs:
            exp = j_ok(j_tables(obs["parents_tables"]))
        else:
            return None
        return "J_eqb (j_res (%s)) %s" % (call, exp)

    def generate(self, rng, tier):
        nbase_ex, nrand = (6, 500) if tier == "quick" else (20, 4000)
        for _ in range(nbase_ex):
            d = variants(rng, base_desc(rng, small=True))
            for t in TABLES:
                n = len(d[t])
                if n < 2:
                    continue
                for p in all_or_some_perms(rng, n, cap=40):
                    yield {"desc": d, "perms": {t: p}, "blank_parents": False, "times": False}
        for _ in range(nrand):
            d = variants(rng, base_desc(rng, small=rng.random() < 0.3))
            r = rng.random()
            if r < 0.35:     # everything but the mutation rows shuffled; parents recomputed from scratch
                perms = random_perms(rng, d, tables=("edges", "sites", "migrations", "individuals", "populations"))
                yield {"desc": d, "perms": perms, "blank_parents": True, "times": rng.random() < 0.3}
            else:
                yield {"desc": d, "perms": random_perms(rng, d), "blank_parents": False,
                       "times": rng.random() < 0.3}

    def observe(self, case):
        import tskit
        d = apply_perms(case["desc"], case["perms"])
        back = back_map(d)
        tc = gen_ts.build_tables(d, sort=False, index=False)
        if case["blank_parents"]:
            tc.mutations.parent = [NULL] * len(tc.mutations)
        stage = "sort"
        try:
            tc.sort()
            stage = "deduplicate_sites"
            tc.deduplicate_sites()
            stage = "sort2"
            tc.sort()
            stage = "build_index"
            tc.build_index()
            stage = "compute_mutation_parents"
            tc.compute_mutation_parents()
            ptables = dump(tc, back)
            if case["times"]:
                stage = "compute_mutation_times"
                tc.compute_mutation_times()
            stage = "tree_sequence"
            ts = tc.tree_sequence()
        except tskit.LibraryError as e:
            r = {"error": err_class(e), "stage": stage}
            if stage in ("compute_mutation_times", "tree_sequence"):
                r["parents_tables"] = ptables
            return r
        out = observe_ts(ts, d, back)
        out["parents_tables"] = ptables
        out["tables"] = dump(tc, back, times=not case["times"])
        if case["times"]:
            nt = ts.nodes_time
            ok = True
            for t in ts.trees():
                for s in t.sites():
                    for m in s.mutations:
                        hi = nt[t.parent(m.node)] if t.parent(m.node) != NULL else nt[m.node]
                        if m.parent != NULL:
                            hi = min(hi, ts.mutation(m.parent).time)
                        ok = ok and nt[m.node] <= m.time <= hi
            out["times_valid"] = bool(ok)
        return out

    def oracle(self, case, obs):
        d = apply_perms(case["desc"], case["perms"])
        rows = desc_rows(d)
        inv = (not case["blank_parents"]) and bool(order_inversions(rows))
        # with blanked parents the same-node order is defined by the (unshuffled) rows
        if case["blank_parents"]:
            inv = bool(order_inversions(rows))
        kind = "unknown" if any(m[4] is None for m in rows["mutations"]) else "tied-known"
        known_key = "repair-mutation-order:child-row-before-parent-%s-time" % kind
        if "error" in obs:
            if inv and obs["error"].endswith("TSK_ERR_MUTATION_PARENT_AFTER_CHILD") \
                    and obs["stage"] in ("compute_mutation_parents", "tree_sequence"):
                return [(known_key, "%s at %s" % (obs["error"], obs["stage"]))]
            return [("repair-raises:" + obs["stage"], "%s on a logically consistent collection" % obs["error"])]
        fails = []
        n = len(rows["nodes"])
        for x in range(d["L"]):
            exp = parent_at2(rows, 2 * x)
            if obs["trees"][x] != exp:
                fails.append(("repair-trees-differ", "position %d: %r != %r" % (x, obs["trees"][x], exp)))
                break
        exp_samples = [u for u in range(n) if rows["nodes"][u][0] & 1]
        if obs["samples"] != exp_samples:
            fails.append(("repair-samples-differ", ""))
        logical = logical_genotypes(rows)
        exp_sites = [[p2, logical[p2][0], [logical[p2][1][u] for u in exp_samples]] for p2 in sorted(logical)]
        if [s[0] for s in obs["sites"]] != [s[0] for s in exp_sites]:
            fails.append(("repair-site-positions-differ", "%r" % [s[0] for s in obs["sites"]]))
        elif obs["sites"] != exp_sites:
            fails.append((known_key if inv else "repair-genotypes-differ",
                          "%r != %r" % (obs["sites"], exp_sites)))
        out = obs["tables"]
        for t in ("nodes", "individuals", "populations"):
            if rows[t] != out[t]:
                fails.append(("repair-touches-" + t, ""))
        if sorted(map(tuple, rows["edges"])) != sorted(map(tuple, out["edges"])):
            fails.append(("repair-edges-not-permutation", ""))
        content = lambda r, m: (r["sites"][m[0]][0], m[1], m[2], m[4], m[5])   # noqa: E731
        cin = sorted(repr(content(rows, m)) for m in rows["mutations"])
        cout = sorted(repr(content(out, m)) for m in out["mutations"])
        if not case["times"] and cin != cout:
            fails.append(("repair-mutations-not-preserved", ""))
        np_ = naive_mutation_parents(out)
        if np_ != [m[3] for m in out["mutations"]]:
            fails.append(("repair-parents-not-nearest", "%r != %r" % ([m[3] for m in out["mutations"]], np_)))
        if not inv and not case["times"]:
            # the parent relation on row contents is the original one
            rel = lambda r: sorted(repr((content(r, m), content(r, r["mutations"][m[3]]) if m[3] != NULL else None))   # noqa: E731
                                   for m in r["mutations"])
            if rel(rows) != rel(out):
                fails.append(("repair-parent-relation-changed", ""))
        if case["times"] and not obs.get("times_valid", True):
            fails.append(("repair-computed-times-invalid", ""))
        return fails

    def nontrivial(self, case, obs):
        d = case["desc"]
        return len(d["edges"]) >= 2 and len(d["mutations"]) >= 1

    def describe(self, case, obs):
        d = case["desc"]
        rows = desc_rows(apply_perms(case["desc"], case["perms"]))
        return {"mutations": min(len(d["mutations"]), 8),
                "dup_positions": len(d["sites"]) != len({s[0] for s in d["sites"]}),
                "blank_parents": case["blank_parents"], "times": case["times"],
                "order_inversion": bool(order_inversions(rows)),
                "outcome": obs.get("error", "loads") if isinstance(obs, dict) else "?"}

    def shrink(self, case):
        return shrink_case(case)


# --------------------------------------------------------------------------
# Family: compute_mutation_parents on sorted, indexed tables
# --------------------------------------------------------------------------

class MutParents(Family):
    """compute_mutation_parents() after the parent column was overwritten with garbage;
    mutation rows of one site in valid (parents first) and in arbitrary order."""
    name = "mutparents"
    workers = 8
    prelude = PRELUDE

    def coq_check(self, case, obs):
        call = "compute_mutation_parents %s" % coq_tables(obs["input"], index=obs["index"])
        exp = j_err(obs["error"]) if "error" in obs else j_ok(jints(obs["parents"]))
        return "J_eqb (j_res_with j_parents (%s)) %s" % (call, exp)

    def generate(self, rng, tier):
        n = 600 if tier == "quick" else 6000
        for k in range(n):
            d = raw_desc(rng, max_nodes=rng.choice([4, 7]), max_L=5, max_sites=3, max_muts=5,
                                   unknown_times=True if rng.random() < 0.7 else None)
            d["migrations"] = []
            order = None
            if d["mutations"] and d["mutations"][0][4] is None and rng.random() < 0.4:
                # arbitrary order inside each site (still grouped by site)
                order = []
                for s in range(len(d["sites"])):
                    js = [j for j, m in enumerate(d["mutations"]) if m[0] == s]
                    rng.shuffle(js)
                    order += js
            garbage = [rng.randrange(-1, max(1, len(d["mutations"]))) for _ in d["mutations"]]
            yield {"desc": d, "order": order, "garbage": garbage}

    def prepare(self, case):
        d = case["desc"]
        if case["order"] is not None:
            d = apply_perms(d, {"mutations": case["order"]})
        return d

    def observe(self, case):
        import tskit
        d = self.prepare(case)
        back = back_map(d)
        tc = gen_ts.build_tables(d, sort=False, index=False)
        tc.mutations.parent = [NULL] * len(tc.mutations)
        tc.sort()
        tc.build_index()
        sorted_rows = dump(tc, back)
        index = [[int(x) for x in tc.indexes.edge_insertion_order], [int(x) for x in tc.indexes.edge_removal_order]]
        g = [x if x != j else NULL for j, x in enumerate(case["garbage"])]
        tc.mutations.parent = g
        try:
            tc.compute_mutation_parents()
        except tskit.LibraryError as e:
            return {"error": err_class(e), "input": sorted_rows, "index": index}
        return {"parents": [int(x) for x in tc.mutations.parent], "input": sorted_rows, "index": index,
                "rest_same": [m[:3] + m[4:] for m in dump(tc, back)["mutations"]]
                == [m[:3] + m[4:] for m in sorted_rows["mutations"]]}

    def oracle(self, case, obs):
        rows = obs["input"]
        exp = naive_mutation_parents(rows)
        after = any(p > j for j, p in enumerate(exp))
        if "error" in obs:
            if after and obs["error"].endswith("TSK_ERR_MUTATION_PARENT_AFTER_CHILD"):
                return []
            return [("mutparents-raises", obs["error"])]
        if after:
            return [("mutparents-accepts-parent-after-child", "%r" % obs["parents"])]
        fails = []
        if obs["parents"] != exp:
            fails.append(("mutparents-not-nearest", "%r != naive %r" % (obs["parents"], exp)))
        if not obs["rest_same"]:
            fails.append(("mutparents-touches-other-columns", ""))
        return fails

    def nontrivial(self, case, obs):
        return any(p != NULL for p in obs.get("parents", [])) or "error" in obs

    def describe(self, case, obs):
        return {"mutations": min(len(case["desc"]["mutations"]), 10), "arbitrary_order": case["order"] is not None,
                "outcome": "error" if "error" in obs else "ok",
                "with_parent": min(sum(1 for p in obs.get("parents", []) if p != NULL), 6)}

    def shrink(self, case):
        for e in shrink_desc(case["desc"]):
            c = {"desc": e, "order": None, "garbage": [NULL] * len(e["mutations"])}
            yield c


# --------------------------------------------------------------------------
# Family: canonicalise() of two row orders
# --------------------------------------------------------------------------

def tie_classes(rows):
    """Comparator ties present in a collection (order free)."""
    out = set()
    if len({s[0] for s in rows["sites"]}) != len(rows["sites"]):
        out.add("duplicate-site-position")
    seen = set()
    for e in rows["edges"]:
        k = (e[2], e[3], e[0])
        if k in seen:
            out.add("duplicate-edge-key")
        seen.add(k)
    nd = [0] * len(rows["mutations"])
    for j, m in enumerate(rows["mutations"]):
        p, steps = m[3], 0
        while p != NULL and steps <= len(nd):
            nd[p] += 1
            p = rows["mutations"][p][3]
            steps += 1
    seen = set()
    for j, m in enumerate(rows["mutations"]):
        k = (rows["sites"][m[0]][0], m[4], nd[j], m[1])
        if k in seen:
            out.add("mutation-key-tie")
        seen.add(k)
    return out


class Canon(Family):
    """canonicalise() on two row orders of the same collection must give identical tables."""
    name = "canon"
    workers = 8
    prelude = PRELUDE

    def coq_check(self, case, obs):
        """The canonical sorter (edge, migration, site, canonical mutation and canonical
        individual passes of tsk_table_sorter_run) applied to the implementation's own subset()
        output; individuals and nodes.individual are compared too."""
        terms = []
        for side in ("a", "b"):
            o = obs[side]
            if "out" not in o or o.get("subset") is None:
                continue
            if key_ties(o["subset"]) or mixed_times(o["subset"]) or "mutation-key-tie" in tie_classes(o["subset"]):
                continue
            inds_nodes = jlist([jlist([jlist(["JZ %s" % cz(i[0]), jints(i[1]), jints(i[2]), jints(bytes.fromhex(i[3]))])
                                       for i in o["out"]["individuals"]]), jints([n[3] for n in o["out"]["nodes"]])])
            terms.append("J_eqb (j_res_with j_tables_inds (canonical_sorter_run Qmerge qs_ind_merge %s)) %s"
                         % (coq_tables(o["subset"]), j_ok(jlist([j_tables(o["out"]), inds_nodes]))))
        return " && ".join(terms) if terms else None

    def generate(self, rng, tier):
        nbase_ex, nrand = (6, 400) if tier == "quick" else (20, 3000)
        for _ in range(nbase_ex):
            d = variants(rng, base_desc(rng, small=True))
            d["migrations"] = []
            for t in TABLES:
                n = len(d[t])
                if n < 2:
                    continue
                for p in all_or_some_perms(rng, n, cap=40):
                    yield {"desc": d, "perms_a": {}, "perms_b": {t: p}, "remove_unreferenced": True}
        for k in range(nrand):
            if rng.random() < 0.25:
                d = pedigree_desc(rng)       # 2-6 individuals with parents, nodes referring to them
                d["migrations"] = []
            else:
                d = base_desc(rng, small=rng.random() < 0.3)
            if rng.random() < 0.75:
                d["migrations"] = []
            if d["mutations"] and not any(m[4] is None for m in d["mutations"]) and rng.random() < 0.6:
                d = retime(rng, d)
            if rng.random() < 0.25:
                d = add_duplicate_sites(rng, d)
            if rng.random() < 0.12 and d["mutations"]:
                # referentially intact but parents not (yet) computed
                for m in d["mutations"]:
                    m[3] = NULL
            if rng.random() < 0.06 and d["edges"]:
                # contradictory duplicate of an edge (same parent, child, left), other metadata
                e = list(rng.choice(d["edges"]))
                e[4] = gen_ts.hx(rng, p=1.0) or "aa"
                d["edges"].append(e)
            yield {"desc": d, "perms_a": random_perms(rng, d), "perms_b": random_perms(rng, d),
                   "remove_unreferenced": rng.random() < 0.85}

    def run(self, d, remove_unreferenced):
        import tskit
        back = back_map(d)
        tc = gen_ts.build_tables(d, sort=False, index=False)
        sub = None
        try:
            t0 = tc.copy()
            t0.subset(list(range(len(d["nodes"]))), record_provenance=False,
                      remove_unreferenced=remove_unreferenced)
            sub = dump(t0, back)
        except tskit.LibraryError:
            pass
        try:
            tc.canonicalise(remove_unreferenced=remove_unreferenced)
        except tskit.LibraryError as e:
            return {"error": err_class(e)}
        t2 = tc.copy()
        t2.canonicalise(remove_unreferenced=remove_unreferenced)
        return {"out": dump(tc, back), "subset": sub, "idempotent": bool(t2.equals(tc))}

    def observe(self, case):
        a = self.run(apply_perms(case["desc"], case["perms_a"]), case["remove_unreferenced"])
        b = self.run(apply_perms(case["desc"], case["perms_b"]), case["remove_unreferenced"])
        return {"a": a, "b": b}

    def oracle(self, case, obs):
        a, b = obs["a"], obs["b"]
        d = case["desc"]
        rows = desc_rows(d)
        if "error" in a or "error" in b:
            if d["migrations"] and a.get("error", "").endswith("TSK_ERR_MIGRATIONS_NOT_SUPPORTED") and a.get("error") == b.get("error"):
                return []   # subset() does not support migrations: no output to compare
            if a.get("error") == b.get("error") and "duplicate-edge-key" in tie_classes(rows):
                return []
            return [("canonicalise-raises", "%r / %r" % (a.get("error"), b.get("error")))]
        fails = []
        if a["out"] != b["out"]:
            ties = tie_classes(rows)
            diff = [t for t in a["out"] if a["out"][t] != b["out"][t]]
            causes = set()
            for t in diff:
                if t == "edges" and "duplicate-edge-key" in ties:
                    causes.add("duplicate-edge-key")
                elif t == "sites" and "duplicate-site-position" in ties:
                    causes.add("duplicate-site-position")
                elif t == "mutations" and ties & {"duplicate-site-position", "mutation-key-tie"}:
                    if "sites" not in diff and "mutation-key-tie" in ties:
                        causes.add("mutation-key-tie")
                    else:
                        causes.add("duplicate-site-position")
                elif t in ("individuals", "populations", "nodes") and not case["remove_unreferenced"] \
                        and self.unreferenced(rows, diff):
                    causes.add("kept-unreferenced-rows")
                else:
                    causes.add("no-tie")
            for c in sorted(causes):
                fails.append(("canonicalise-order:" + c, "tables %s differ between two row orders" % diff))
        for side in (a, b):
            if not side["idempotent"]:
                fails.append(("canonicalise-not-idempotent", ""))
                break
        return fails

    @staticmethod
    def unreferenced(rows, diff):
        ref_i = {n[3] for n in rows["nodes"]}
        ref_p = {n[2] for n in rows["nodes"]}
        ref_s = {m[0] for m in rows["mutations"]}
        return (any(i not in ref_i for i in range(len(rows["individuals"])))
                or any(p not in ref_p for p in range(len(rows["populations"])))
                or any(s not in ref_s for s in range(len(rows["sites"]))))

    def nontrivial(self, case, obs):
        d = case["desc"]
        return len(d["edges"]) >= 2 and (len(d["mutations"]) >= 2 or len(d["individuals"]) >= 2)

    def describe(self, case, obs):
        rows = desc_rows(case["desc"])
        return {"ties": ",".join(sorted(tie_classes(rows))) or "none",
                "remove_unreferenced": case["remove_unreferenced"],
                "equal": (obs["a"].get("out") == obs["b"].get("out")) if "out" in obs["a"] and "out" in obs["b"] else "error"}

    def shrink(self, case):
        return shrink_case(case)


# --------------------------------------------------------------------------
# Family: deduplicate_sites()
# --------------------------------------------------------------------------

class Dedup(Family):
    name = "dedup"
    workers = 8
    prelude = PRELUDE

    def coq_check(self, case, obs):
        call = "deduplicate_sites %s" % coq_tables(obs["before"])
        exp = j_err(obs["error"]) if "error" in obs else j_ok(j_tables(obs["after"]))
        return "J_eqb (j_res (%s)) %s" % (call, exp)

    def generate(self, rng, tier):
        n = 400 if tier == "quick" else 4000
        for k in range(n):
            d = add_duplicate_sites(rng, base_desc(rng, small=rng.random() < 0.4), p=0.7)
            yield {"desc": d, "perms": random_perms(rng, d), "presort": rng.random() < 0.9}

    def observe(self, case):
        import tskit
        d = apply_perms(case["desc"], case["perms"])
        back = back_map(d)
        tc = gen_ts.build_tables(d, sort=False, index=False)
        if case["presort"]:
            tc.sort()
        before = dump(tc, back)
        try:
            tc.deduplicate_sites()
        except tskit.LibraryError as e:
            return {"error": err_class(e), "before": before, "unchanged": dump(tc, back) == before}
        return {"before": before, "after": dump(tc, back)}

    def oracle(self, case, obs):
        b = obs["before"]
        pos = [s[0] for s in b["sites"]]
        if not nondecreasing(pos):
            if "error" in obs and obs["error"].endswith("TSK_ERR_UNSORTED_SITES") and obs["unchanged"]:
                return []
            return [("dedup-accepts-unsorted-sites", "%r" % (obs.get("error"),))]
        if "error" in obs:
            return [("dedup-raises", obs["error"])]
        a = obs["after"]
        keep = [i for i in range(len(pos)) if i == 0 or pos[i] != pos[i - 1]]
        newid, k = [], -1
        for i in range(len(pos)):
            if i in keep:
                k += 1
            newid.append(k)
        fails = []
        if a["sites"] != [b["sites"][i] for i in keep]:
            fails.append(("dedup-sites-not-first-of-each-position", ""))
        if a["mutations"] != [[newid[m[0]]] + m[1:] for m in b["mutations"]]:
            fails.append(("dedup-mutation-site-remap", ""))
        for t in ("nodes", "edges", "migrations", "individuals", "populations"):
            if a[t] != b[t]:
                fails.append(("dedup-touches-" + t, ""))
        return fails

    def nontrivial(self, case, obs):
        return "after" in obs and len(obs["after"]["sites"]) < len(obs["before"]["sites"])

    def describe(self, case, obs):
        return {"removed": min(len(obs["before"]["sites"]) - len(obs["after"]["sites"]), 5) if "after" in obs else "error"}

    def shrink(self, case):
        return shrink_case(case)


# --------------------------------------------------------------------------
# Family: EdgeTable.squash()
# --------------------------------------------------------------------------

class Squash(Family):
    name = "squash"
    workers = 8
    prelude = PRELUDE

    def coq_check(self, case, obs):
        rows = {"L2": 2 * case["L"], "nodes": [[n[0], n[1], NULL, NULL, n[4]] for n in case["nodes"]],
                "edges": [[2 * l, 2 * r, p, c, m] for l, r, p, c, m in case["edges"]],
                "sites": [], "mutations": [], "migrations": [], "individuals": [], "populations": []}
        call = "edge_table_squash Qmerge %s" % coq_tables(rows)
        if "error" in obs:
            exp = j_err(obs["error"])
        else:
            out = dict(rows)
            out["edges"] = obs["edges"]
            exp = j_ok(j_tables(out))
        return "J_eqb (j_res (%s)) %s" % (call, exp)

    def generate(self, rng, tier):
        n = 500 if tier == "quick" else 5000
        for k in range(n):
            d = base_desc(rng, small=rng.random() < 0.5, metadata=rng.random() < 0.1)
            edges = []
            for l, r, p, c, m in d["edges"]:
                # split edges at integer points so that there is something to merge
                cuts = [l] + [x for x in range(l + 1, r) if rng.random() < 0.5] + [r]
                for a, b in zip(cuts[:-1], cuts[1:]):
                    edges.append([a, b, p, c, m])
            if rng.random() < 0.08 and edges:
                e = list(rng.choice(edges))
                e[1] = min(e[1] + 1, d["L"])
                edges.append(e)          # overlapping / duplicate (parent, child) interval
            rng.shuffle(edges)
            yield {"L": d["L"], "scale": d["scale"], "nodes": d["nodes"], "edges": edges}

    def observe(self, case):
        import tskit
        d = {"L": case["L"], "scale": case["scale"], "nodes": case["nodes"], "edges": case["edges"],
             "sites": [], "mutations": [], "migrations": [], "individuals": [], "populations": []}
        for n in d["nodes"]:
            n[2] = n[3] = NULL
        back = back_map(d)
        tc = gen_ts.build_tables(d, sort=False, index=False)
        try:
            tc.edges.squash()
        except tskit.LibraryError as e:
            return {"error": err_class(e)}
        return {"edges": dump(tc, back)["edges"]}

    def oracle(self, case, obs):
        edges = [[2 * l, 2 * r, p, c, m] for l, r, p, c, m in case["edges"]]
        has_md = any(e[4] for e in edges)
        groups = {}
        for e in edges:
            groups.setdefault((e[2], e[3]), []).append((e[0], e[1]))
        overlap = False
        exp = []
        for (p, c) in sorted(groups):
            iv = sorted(groups[(p, c)])
            cur = list(iv[0])
            for l, r in iv[1:]:
                if l < cur[1]:
                    overlap = True
                if l == cur[1]:
                    cur[1] = r
                else:
                    exp.append([cur[0], cur[1], p, c, ""])
                    cur = [l, r]
            exp.append([cur[0], cur[1], p, c, ""])
        if has_md:
            if "error" in obs and obs["error"].endswith("TSK_ERR_CANT_PROCESS_EDGES_WITH_METADATA"):
                return []
            return [("squash-accepts-metadata", "%r" % (obs,))]
        if overlap and len(edges) >= 2:
            if "error" in obs and obs["error"].endswith("TSK_ERR_BAD_EDGES_CONTRADICTORY_CHILDREN"):
                return []
            return [("squash-accepts-overlap", "%r" % (obs,))]
        if "error" in obs:
            return [("squash-raises", obs["error"])]
        if obs["edges"] != exp:
            return [("squash-wrong", "%r != %r" % (obs["edges"], exp))]
        return []

    def nontrivial(self, case, obs):
        return "edges" in obs and len(obs["edges"]) < len(case["edges"])

    def describe(self, case, obs):
        return {"outcome": obs.get("error", "ok"), "in": min(len(case["edges"]), 15)}

    def shrink(self, case):
        for k in range(len(case["edges"]) - 1, -1, -1):
            c = copy.deepcopy(case)
            del c["edges"][k]
            yield c


# --------------------------------------------------------------------------
# Family: build_index()
# --------------------------------------------------------------------------

class Index(Family):
    name = "index"
    workers = 8
    prelude = PRELUDE

    def coq_check(self, case, obs):
        call = "build_index Qmerge %s" % coq_tables(obs["before"])
        if "error" in obs:
            exp = j_err(obs["error"])
        else:
            exp = j_ok(jlist([jints(obs["I"]), jints(obs["O"])]))
        return "J_eqb (j_res_with j_index (%s)) %s" % (call, exp)

    def generate(self, rng, tier):
        n = 400 if tier == "quick" else 4000
        for k in range(n):
            d = base_desc(rng, small=rng.random() < 0.4)
            yield {"desc": d, "perms": random_perms(rng, d), "presort": rng.random() < 0.85}

    def observe(self, case):
        import tskit
        d = apply_perms(case["desc"], case["perms"])
        back = back_map(d)
        tc = gen_ts.build_tables(d, sort=False, index=False)
        if case["presort"]:
            tc.sort()
        before = dump(tc, back)
        try:
            tc.build_index()
        except tskit.LibraryError as e:
            return {"error": err_class(e), "before": before}
        return {"before": before, "I": [int(x) for x in tc.indexes.edge_insertion_order],
                "O": [int(x) for x in tc.indexes.edge_removal_order], "same": dump(tc, back) == before}

    @staticmethod
    def edges_valid_order(rows):
        """The documented edge requirement (TSK_CHECK_EDGE_ORDERING): parent times
        non-decreasing, all edges of a parent adjacent, (child, left) strictly increasing
        within a parent."""
        nt = [n[1] for n in rows["nodes"]]
        seen, last = set(), None
        for e in rows["edges"]:
            p = e[2]
            if last is not None:
                if nt[p] < nt[last[2]]:
                    return False
                if p == last[2]:
                    if (e[3], e[0]) <= (last[3], last[0]):
                        return False
                else:
                    seen.add(last[2])
            if p in seen:
                return False
            last = e
        return True

    def oracle(self, case, obs):
        b = obs["before"]
        ok = self.edges_valid_order(b)
        if "error" in obs:
            return [] if not ok else [("index-raises", obs["error"])]
        if not ok:
            # the implementation's check is weaker than mine only if it accepted: report
            return [("index-accepts-unsorted-edges", "")]
        nt = [n[1] for n in b["nodes"]]
        E = b["edges"]
        n = len(E)
        fails = []
        if sorted(obs["I"]) != list(range(n)) or sorted(obs["O"]) != list(range(n)):
            fails.append(("index-not-permutation", ""))
            return fails
        if not nondecreasing([(E[i][0], nt[E[i][2]], E[i][2], E[i][3]) for i in obs["I"]]):
            fails.append(("index-insertion-order", ""))
        if not nondecreasing([(E[i][1], -nt[E[i][2]], -E[i][2], -E[i][3]) for i in obs["O"]]):
            fails.append(("index-removal-order", ""))
        if not obs["same"]:
            fails.append(("index-touches-tables", ""))
        return fails

    def nontrivial(self, case, obs):
        return len(obs.get("I", [])) >= 3

    def describe(self, case, obs):
        return {"outcome": "error" if "error" in obs else "ok", "edges": min(len(obs["before"]["edges"]), 12)}

    def shrink(self, case):
        return shrink_case(case)


class SortInv(Family):
    """sort() of two row orders: the edge and migration comparators are documented as
    total orders ("any permutation of a valid migration table will be sorted into the same
    output order"), so those two tables must come out identical."""
    name = "sortinv"
    workers = 8
    prelude = PRELUDE

    def generate(self, rng, tier):
        n = 300 if tier == "quick" else 3000
        for k in range(n):
            d = base_desc(rng, small=rng.random() < 0.4)
            if rng.random() < 0.8:
                d = rich_migrations(rng, d, p_full_tie=0.25)
            elif d["migrations"] and rng.random() < 0.5:
                m = list(rng.choice(d["migrations"]))      # equal on all five keys, other metadata / right
                m[6] = gen_ts.hx(rng, p=1.0) or "bb"
                if rng.random() < 0.3:
                    m[1] = d["L"]
                d["migrations"].append(m)
            if rng.random() < 0.5:
                d = variants(rng, d) if not d["migrations"] or rng.random() < 0.3 else d
            # sort() does not renumber populations / individuals, so only the four sorted tables
            # are permuted (their ids appear in no other table except mutation.site / parent)
            tabs = ("edges", "sites", "mutations", "migrations")
            yield {"desc": d, "perms_a": random_perms(rng, d, tabs), "perms_b": random_perms(rng, d, tabs)}

    def observe(self, case):
        out = {}
        for side in ("a", "b"):
            d = apply_perms(case["desc"], case["perms_" + side])
            tc = gen_ts.build_tables(d, sort=False, index=False)
            tc.sort()
            out[side] = dump(tc, back_map(d))
            out[side + "_raw"] = raw_cols(tc)
        return out

    def coq_check(self, case, obs):
        d = apply_perms(case["desc"], case["perms_a"])
        inp = desc_rows(d)
        if mixed_times(inp) or key_ties(inp):
            return None
        return "J_eqb (j_res (py_sort Qmerge 0 0 0 %s)) %s" % (
            coq_tables(inp), j_ok(j_tables(obs["a"], raw=obs["a_raw"])))

    def oracle(self, case, obs):
        fails = []
        rows = desc_rows(case["desc"])
        if obs["a"]["edges"] != obs["b"]["edges"]:
            ek = [(e[2], e[3], e[0]) for e in rows["edges"]]
            fails.append(("sort-order:duplicate-edge-key" if len(set(ek)) != len(ek) else "sort-order:edges-differ", ""))
        ka = [mig_key(m) for m in obs["a"]["migrations"]]
        kb = [mig_key(m) for m in obs["b"]["migrations"]]
        for side, ks in (("a", ka), ("b", kb)):
            if not nondecreasing(ks):
                fails.append(("sort-order:migrations-not-in-key-order",
                              "side %s not in (time, source, dest, left, node) order: %r" % (side, ks)))
                break
        if obs["a"]["migrations"] != obs["b"]["migrations"]:
            # excused only when the two outputs agree key by key, i.e. they differ solely inside
            # groups of rows equal on ALL five keys (qsort is not stable)
            only_full_ties = ka == kb and nondecreasing(ka) and len(set(ka)) != len(ka)
            fails.append(("sort-order:migration-key-tie" if only_full_ties else "sort-order:migrations-differ",
                          "%r vs %r" % (obs["a"]["migrations"], obs["b"]["migrations"])))
        # every row order of the same content: with one site row per position the site table and
        # the mutations as (site, node, derived state, time, metadata) rows are determined
        pos = [x[0] for x in rows["sites"]]
        if len(set(pos)) == len(pos):
            if obs["a"]["sites"] != obs["b"]["sites"]:
                fails.append(("sort-order:sites-differ", ""))
            c = lambda m: repr((m[0], m[1], m[2], m[4], m[5]))   # noqa: E731
            if sorted(map(c, obs["a"]["mutations"])) != sorted(map(c, obs["b"]["mutations"])):
                fails.append(("sort-order:mutations-differ", ""))
        for t in ("nodes", "individuals", "populations"):
            # these tables are not sorted: each side must return its own input rows
            pass
        return fails

    def nontrivial(self, case, obs):
        return len(case["desc"]["edges"]) >= 2

    def describe(self, case, obs):
        return {"migrations": min(len(case["desc"]["migrations"]), 4)}

    def shrink(self, case):
        return shrink_case(case)


# --------------------------------------------------------------------------
# Family: sort_individuals()
# --------------------------------------------------------------------------

def pedigree_desc(rng, cycle=False):
    """A consistent collection whose individual table is a random pedigree (parents drawn
    from earlier rows, then the rows are shuffled with all references remapped), with
    location / metadata on individuals and usually more nodes than individuals."""
    d = base_desc(rng, small=rng.random() < 0.3)
    n = len(d["nodes"])
    nind = rng.randrange(2, 7)
    inds = []
    for i in range(nind):
        par = [rng.choice([NULL] + list(range(i))) if i and rng.random() < 0.8 else NULL
               for _ in range(rng.choice([0, 1, 2, 2, 3]))]
        inds.append([rng.randrange(0, 4), [rng.randrange(-3, 4) for _ in range(rng.randrange(0, 3))], par,
                     gen_ts.hx(rng, p=0.8)])
    if cycle:
        a = rng.randrange(nind)
        b = rng.randrange(nind)
        if a == b:
            b = (a + 1) % nind
        inds[a][2] = inds[a][2] + [b]
        inds[b][2] = inds[b][2] + [a]
    d["individuals"] = inds
    if rng.random() < 0.3:
        # very different row lengths: long parent lists (padded with NULLs / repeats), long locations
        for i, ind in enumerate(inds):
            if rng.random() < 0.5:
                ind[2] = ind[2] + [rng.choice([NULL] + [p for p in ind[2] if p != NULL]) for _ in range(rng.choice([1, 5, 12]))]
            ind[1] = [rng.randrange(-5, 6) for _ in range(rng.choice(RAGGED_LENS[:-1] + (25,)))]
            ind[3] = bytes(rng.randrange(256) for _ in range(rng.choice(RAGGED_LENS + (200,)))).hex()
    for nd in d["nodes"]:
        nd[3] = rng.randrange(nind) if rng.random() < 0.8 else NULL
    return d


def individual_bijections(before, after):
    """All maps pi (old id -> new id) under which every row of `before` reappears in `after`
    with its parents renamed by pi."""
    n = len(before)
    if len(after) != n:
        return
    content = lambda r: (r[0], tuple(r[1]), len(r[2]), r[3])   # noqa: E731
    cands = [[j for j in range(n) if content(after[j]) == content(before[i])] for i in range(n)]

    def rec(i, pi, used):
        if i == n:
            if all([pi[p] if p != NULL else NULL for p in before[k][2]] == list(after[pi[k]][2]) for k in range(n)):
                yield list(pi)
            return
        for j in cands[i]:
            if j not in used:
                pi.append(j)
                used.add(j)
                yield from rec(i + 1, pi, used)
                used.discard(j)
                pi.pop()
    yield from rec(0, [], set())


class SortInd(Family):
    """TableCollection.sort_individuals() (tsk_table_collection_individual_topological_sort)."""
    name = "sortind"
    workers = 8
    prelude = PRELUDE

    def coq_check(self, case, obs):
        call = "sort_individuals %s" % coq_tables(obs["before"])
        if "error" in obs:
            exp = j_err(obs["error"])
        else:
            a = obs["after"]
            exp = j_ok(jlist([jlist([jlist(["JZ %s" % cz(i[0]), jints(i[1]), jints(i[2]), jints(bytes.fromhex(i[3]))])
                                     for i in a["individuals"]]), jints([n[3] for n in a["nodes"]])]))
        return "J_eqb (j_res_with j_inds_nodes (%s)) %s" % (call, exp)

    def generate(self, rng, tier):
        nex, nrand = (4, 500) if tier == "quick" else (25, 5000)
        for _ in range(nex):
            d = pedigree_desc(rng)
            for p in all_or_some_perms(rng, len(d["individuals"]), cap=120):
                yield {"desc": d, "perms": {"individuals": p}}
        for k in range(nrand):
            d = pedigree_desc(rng, cycle=rng.random() < 0.06)
            yield {"desc": d, "perms": random_perms(rng, d)}

    def observe(self, case):
        import tskit
        d = apply_perms(case["desc"], case["perms"])
        back = back_map(d)
        tc = gen_ts.build_tables(d, sort=False, index=False)
        before = dump(tc, back)
        try:
            tc.sort_individuals()
        except tskit.LibraryError as e:
            return {"error": err_class(e), "before": before, "after": dump(tc, back)}
        after = dump(tc, back)
        t2 = tc.copy()
        t2.sort_individuals()
        return {"before": before, "after": after, "idempotent": bool(t2.equals(tc))}

    @staticmethod
    def has_cycle(inds):
        n = len(inds)
        state = [0] * n

        def visit(i):
            if state[i] == 1:
                return True
            if state[i] == 2:
                return False
            state[i] = 1
            for p in inds[i][2]:
                if p != NULL and visit(p):
                    return True
            state[i] = 2
            return False
        return any(visit(i) for i in range(n))

    def oracle(self, case, obs):
        b, a = obs["before"], obs["after"]
        cyc = self.has_cycle(b["individuals"])
        if "error" in obs:
            fails = []
            if not cyc:
                fails.append(("sortind-raises", obs["error"]))
            if a != b:
                fails.append(("sortind-error-modified-tables",
                              "%s, and %d individual rows became %d" % (obs["error"], len(b["individuals"]), len(a["individuals"]))))
            return fails
        if cyc:
            return [("sortind-accepts-parent-cycle", "")]
        fails = []
        for t in ("edges", "sites", "mutations", "migrations", "populations", "L2"):
            if a[t] != b[t]:
                fails.append(("sortind-touches-" + t, ""))
        if [n[:3] + n[4:] for n in a["nodes"]] != [n[:3] + n[4:] for n in b["nodes"]]:
            fails.append(("sortind-touches-node-columns", ""))
        for i, ind in enumerate(a["individuals"]):
            if any(p != NULL and p >= i for p in ind[2]):
                fails.append(("sortind-parent-not-before-child", "row %d parents %r" % (i, ind[2])))
                break
        pis = list(individual_bijections(b["individuals"], a["individuals"]))
        if not pis:
            fails.append(("sortind-individuals-not-permuted", "%r -> %r" % (b["individuals"], a["individuals"])))
        else:
            want = [n[3] for n in b["nodes"]]
            got = [n[3] for n in a["nodes"]]
            if not any([pi[x] if x != NULL else NULL for x in want] == got for pi in pis):
                fails.append(("sortind-node-individual-not-image",
                              "nodes.individual %r -> %r under %r" % (want, got, pis[0])))
        if not obs["idempotent"]:
            fails.append(("sortind-not-idempotent", ""))
        return fails

    def nontrivial(self, case, obs):
        return "error" not in obs and obs["after"]["individuals"] != obs["before"]["individuals"] \
            and len(obs["before"]["nodes"]) > len(obs["before"]["individuals"])

    def describe(self, case, obs):
        b = obs["before"]
        return {"individuals": len(b["individuals"]), "more_nodes": len(b["nodes"]) > len(b["individuals"]),
                "reordered": "error" if "error" in obs else obs["after"]["individuals"] != b["individuals"]}

    def shrink(self, case):
        d = case["desc"]
        for t in ("edges", "sites", "mutations", "migrations"):
            if d[t] and (t != "sites" or not d["mutations"]) and (t != "edges" or not d["mutations"]):
                c = copy.deepcopy(case)
                c["desc"][t] = []
                c["perms"].pop(t, None)
                yield c
        for k in range(len(d["nodes"]) - 1, -1, -1):
            used = any(k in (e[2], e[3]) for e in d["edges"]) or any(m[1] == k for m in d["mutations"]) \
                or any(g[2] == k for g in d["migrations"])
            if not used and k == len(d["nodes"]) - 1:
                c = copy.deepcopy(case)
                del c["desc"]["nodes"][k]
                yield c


# --------------------------------------------------------------------------
# Family: a call that raises, then the same call on the SAME TableCollection
# --------------------------------------------------------------------------

def set_rows(tc, d):
    """Overwrite the individual / node / edge / site / mutation tables of `tc` in place from `d`."""
    import tskit
    sc = d.get("scale", 1)
    tc.individuals.clear()
    for fl, loc, par, m in d["individuals"]:
        tc.individuals.add_row(flags=fl, location=loc, parents=par, metadata=bytes.fromhex(m))
    tc.nodes.clear()
    for fl, t, p_, i, m in d["nodes"]:
        tc.nodes.add_row(flags=fl, time=t, population=p_, individual=i, metadata=bytes.fromhex(m))
    tc.edges.clear()
    for l, r, p_, c, m in d["edges"]:
        tc.edges.add_row(l * sc, r * sc, p_, c, metadata=bytes.fromhex(m))
    tc.sites.clear()
    for pos, a, m in d["sites"]:
        tc.sites.add_row(pos * sc, a, metadata=bytes.fromhex(m))
    tc.mutations.clear()
    for site, node, ds, par, t, m in d["mutations"]:
        tc.mutations.add_row(site, node, ds, parent=par, time=tskit.UNKNOWN_TIME if t is None else t,
                             metadata=bytes.fromhex(m))


class ErrReuse(Family):
    """op(bad tables) raises -> tables must be as before the call; the defect is repaired in
    place on the SAME TableCollection; op again must give what op gives on a fresh collection."""
    name = "errreuse"
    workers = 8
    OPS = ("sort", "sort_edge_start", "dedup", "build_index", "mutation_parents", "sort_individuals", "stale_index")

    def generate(self, rng, tier):
        n = 420 if tier == "quick" else 4000
        for k in range(n):
            op = self.OPS[k % len(self.OPS)]
            if op == "sort_individuals":
                d = pedigree_desc(rng)
                d["migrations"] = []
            else:
                d = variants(rng, base_desc(rng, small=rng.random() < 0.4))
                d["migrations"] = [] if op == "mutation_parents" else d["migrations"]
            if op in ("mutation_parents",):
                d = raw_desc(rng, max_nodes=7, max_L=5, max_sites=3, max_muts=6, p_root=0.05,
                                       unknown_times=True if rng.random() < 0.7 else None)
            tabs = tuple(t for t in TABLES if not (op == "mutation_parents" and t == "mutations"))
            how = rng.choice([1, 1, 1, 0, 2, 3]) if op == "mutation_parents" else rng.randrange(4)
            yield {"desc": d, "perms": random_perms(rng, d, tabs), "op": op, "how": how,
                   "pick": rng.randrange(1 << 16)}

    # -- the valid call ------------------------------------------------------
    @staticmethod
    def prepare(tc, op):
        """Bring a fresh collection into the state the operation needs."""
        if op in ("dedup", "build_index", "mutation_parents"):
            tc.sort()
        if op == "mutation_parents":
            tc.build_index()

    @staticmethod
    def call(tc, op, arg=None):
        if op == "sort":
            tc.sort()
        elif op == "sort_edge_start":
            tc.sort(arg)
        elif op == "dedup":
            tc.deduplicate_sites()
        elif op == "build_index":
            tc.build_index()
        elif op == "mutation_parents":
            tc.compute_mutation_parents()
        elif op == "sort_individuals":
            tc.sort_individuals()

    def observe_stale(self, case, d, back):
        """Index built, edge table then grown / shrunk / reordered, then a call that reads or
        replaces the index inside C: it must raise or behave as on a freshly built collection."""
        import tskit
        how, pick = case["how"], case["pick"]
        tc = gen_ts.build_tables(d, sort=True, index=True)
        if len(tc.edges) == 0:
            return {"skip": "no edges"}
        # grow: a copy of an existing edge appended (out of order); shrink: last rows dropped
        if how % 2 == 0:
            r = tc.edges[pick % len(tc.edges)]
            tc.edges.add_row(r.left, r.right, r.parent, r.child, metadata=r.metadata)
            kind = "edges-grown"
        else:
            tc.edges.truncate(len(tc.edges) - 1 - pick % min(2, len(tc.edges)))
            kind = "edges-shrunk"
        call = ("sort", "compute_mutation_parents", "tree_sequence", "deduplicate_sites", "build_index")[(pick >> 4) % 5]
        fresh = tc.copy()
        fresh.drop_index()

        def run(t):
            try:
                if call == "tree_sequence":
                    ts = t.tree_sequence()
                    return {"ok": [[int(tr.parent(u)) for u in range(ts.num_nodes)] for tr in ts.trees()]}
                getattr(t, call)()
                return {"ok": dump(t, back), "index": [int(x) for x in t.indexes.edge_insertion_order] if t.has_index() else None}
            except tskit.LibraryError as e:
                return {"error": err_class(e)}
        got = run(tc)
        want = run(fresh)
        return {"kind": kind + ":" + call, "stale": got, "fresh": want}

    def observe(self, case):
        import numpy as np
        import tskit
        d = apply_perms(case["desc"], case["perms"])
        op, how, pick = case["op"], case["how"], case["pick"]
        back = back_map(d)
        if op == "stale_index":
            return self.observe_stale(case, d, back)
        if op == "mutation_parents":
            for m in d["mutations"]:
                m[3] = NULL
        arg = min(1, len(d["edges"])) if op == "sort_edge_start" else None
        fresh = gen_ts.build_tables(d, sort=False, index=False)
        self.prepare(fresh, op)
        try:
            self.call(fresh, op, arg)
        except tskit.LibraryError as e:
            return {"skip": "valid call raises: " + err_class(e)}
        want = dump(fresh, back)
        want_index = [int(x) for x in fresh.indexes.edge_insertion_order] if fresh.has_index() else None
        # the same collection, broken first
        tc = gen_ts.build_tables(d, sort=False, index=False)
        self.prepare(tc, op)
        kind = None
        undo = None
        if op in ("sort", "sort_edge_start") and how == 0 and op == "sort_edge_start":
            kind = "edge_start-out-of-range"
            bad_arg = len(d["edges"]) + 1 + pick % 3
        elif op == "sort" and how == 0 and len(tc.sites) >= 2 and len(tc.mutations) >= 1:
            kind = "site_start-intermediate"
        elif op == "dedup" and how % 2 == 0 and len(tc.sites) >= 2 and len({float(x) for x in tc.sites.position}) >= 2:
            kind = "unsorted-sites"
            pos = tc.sites.position.copy()
            i = int(np.argmax(pos))
            j = int(np.argmin(pos))
            saved = pos.copy()
            pos[i], pos[j] = pos[j], pos[i]
            tc.sites.position = pos
            undo = lambda: setattr(tc.sites, "position", saved)      # noqa: E731
        elif op == "build_index" and how % 2 == 0 and len(tc.edges) >= 2 and \
                not Index.edges_valid_order({"nodes": want["nodes"], "edges": want["edges"][::-1]}):
            kind = "unsorted-edges"
            order = list(range(len(tc.edges)))[::-1]
            saved = tc.edges.copy()
            tc.edges.replace_with(tc.edges[order])
            undo = lambda: tc.edges.replace_with(saved)             # noqa: E731
        elif op == "mutation_parents" and how % 2 == 1 and any(
                m[3] != NULL and want["mutations"][m[3]][1] != m[1] for m in want["mutations"]):
            # a child row moved in front of its parent (on another node): the call must raise,
            # and after restoring the order the same object must give the fresh result
            kind = "child-before-parent"
            cands = [j for j, m in enumerate(want["mutations"]) if m[3] != NULL and want["mutations"][m[3]][1] != m[1]]
            j = cands[pick % len(cands)]
            q = want["mutations"][j][3]
            order = list(range(len(tc.mutations)))
            order[j], order[q] = order[q], order[j]
            saved = tc.mutations.copy()
            tc.mutations.replace_with(tc.mutations[order])
            undo = lambda: tc.mutations.replace_with(saved)         # noqa: E731
        elif op == "mutation_parents" and how % 2 == 0:
            kind = "no-index"
            tc.drop_index()
            undo = lambda: tc.build_index()                          # noqa: E731
        elif op == "sort_individuals" and how % 2 == 0 and len(tc.individuals) >= 2:
            kind = "parent-cycle"
            saved = tc.individuals.copy()
            a = pick % len(tc.individuals)
            b = (a + 1) % len(tc.individuals)
            rows = [tc.individuals[i] for i in range(len(tc.individuals))]
            tc.individuals.clear()
            for i, r in enumerate(rows):
                par = list(r.parents) + ([b] if i == a else [a] if i == b else [])
                tc.individuals.add_row(flags=r.flags, location=r.location, parents=par, metadata=r.metadata)
            undo = lambda: tc.individuals.replace_with(saved)       # noqa: E731
        if kind is None:
            # generic: a dangling reference (checked by every one of these calls)
            if len(tc.edges) and how % 2 == 1:
                kind = "edge-child-out-of-range"
                col = tc.edges.child.copy()
                saved = col.copy()
                col[pick % len(col)] = len(tc.nodes) + pick % 2
                tc.edges.child = col
                undo = lambda: setattr(tc.edges, "child", saved)    # noqa: E731
            elif len(tc.mutations):
                kind = "mutation-node-out-of-range"
                col = tc.mutations.node.copy()
                saved = col.copy()
                col[pick % len(col)] = len(tc.nodes)
                tc.mutations.node = col
                undo = lambda: setattr(tc.mutations, "node", saved)  # noqa: E731
            elif len(tc.nodes) and len(tc.individuals) == 0 or op == "sort_individuals":
                kind = "node-individual-out-of-range"
                col = tc.nodes.individual.copy()
                saved = col.copy()
                if len(col) == 0:
                    return {"skip": "nothing to break"}
                col[pick % len(col)] = len(tc.individuals)
                tc.nodes.individual = col
                undo = lambda: setattr(tc.nodes, "individual", saved)  # noqa: E731
            else:
                return {"skip": "nothing to break"}
        before = dump(tc, back) if kind not in ("edge-child-out-of-range",) else None
        if op == "dedup" and len(tc.sites) == 0:
            return {"skip": "deduplicate_sites returns early on an empty site table (documented)"}
        raw_before = tc.copy()
        had_index = tc.has_index()
        try:
            if kind == "edge_start-out-of-range":
                tc.sort(bad_arg)
            elif kind == "site_start-intermediate":
                tc.sort(0, site_start=1, mutation_start=0)
            else:
                self.call(tc, op, arg)
            return {"kind": kind, "raised": None}
        except (tskit.LibraryError, ValueError, IndexError) as e:
            raised = err_class(e) if isinstance(e, tskit.LibraryError) else type(e).__name__
        # 1. the failed call left everything as it was (the parent column is the declared output
        #    of compute_mutation_parents and is reset before its checks; sort() drops the index
        #    only on success)
        a, b = tc.copy(), raw_before
        if op == "mutation_parents":
            a.mutations.parent = [NULL] * len(a.mutations)
            b.mutations.parent = [NULL] * len(b.mutations)
        unchanged = bool(a.equals(b, ignore_provenance=True))
        index_kept = tc.has_index() == had_index
        # 2. repair in place, call again
        if undo is not None:
            undo()
        try:
            self.call(tc, op, arg)
        except tskit.LibraryError as e:
            return {"kind": kind, "raised": raised, "unchanged": unchanged, "index_kept": index_kept,
                    "second_error": err_class(e)}
        got = dump(tc, back)
        got_index = [int(x) for x in tc.indexes.edge_insertion_order] if tc.has_index() else None
        return {"kind": kind, "raised": raised, "unchanged": unchanged, "index_kept": index_kept,
                "same_as_fresh": got == want and got_index == want_index,
                "diff": [t for t in got if got[t] != want[t]]}

    def oracle(self, case, obs):
        if "skip" in obs:
            return []
        op = case["op"]
        if op == "stale_index":
            got, want = obs["stale"], obs["fresh"]
            # a stale index may be refused (any LibraryError) — or the call must do exactly what it
            # does without the stale index (which for readers of the index is an error too)
            if "error" in got or got == want:
                return []
            return [("stale-index:%s" % obs["kind"], "with the stale index: %r, without: %r"
                     % (str(got)[:200], str(want)[:200]))]
        if obs["raised"] is None:
            return [("errreuse-accepted:%s:%s" % (op, obs["kind"]), "the broken tables were accepted")]
        fails = []
        if not obs["unchanged"]:
            fails.append(("errreuse-failed-call-modified-tables:%s:%s" % (op, obs["kind"]), obs["raised"]))
        if not obs["index_kept"]:
            fails.append(("errreuse-failed-call-changed-index:%s:%s" % (op, obs["kind"]), obs["raised"]))
        if "second_error" in obs:
            fails.append(("errreuse-second-call-raises:%s:%s" % (op, obs["kind"]), obs["second_error"]))
        elif not obs["same_as_fresh"]:
            fails.append(("errreuse-second-call-differs:%s:%s" % (op, obs["kind"]), "tables %r differ from a fresh run" % obs["diff"]))
        return fails

    def nontrivial(self, case, obs):
        return "skip" not in obs and (obs.get("raised") is not None or "stale" in obs)

    def describe(self, case, obs):
        if "stale" in obs:
            return {"op": case["op"], "kind": obs["kind"], "raised": obs["stale"].get("error", "none").split(":")[-1]}
        return {"op": case["op"], "kind": obs.get("kind", "skip"), "raised": (obs.get("raised") or "none").split(":")[-1]}


# --------------------------------------------------------------------------
# Family: >= 256 rows per table with many key ties
# --------------------------------------------------------------------------

def big_desc(rng, rows=300, edge_mig_ties=True):
    """Referentially intact (not a valid tree sequence: sort() only needs check_integrity(0))
    tables with `rows` rows each and few distinct key values, ragged metadata of mixed lengths."""
    L = 8
    nn = 24
    times = sorted(rng.randrange(0, 6) for _ in range(nn))
    nodes = [[1 if times[i] == 0 else 0, times[i], NULL, NULL, ""] for i in range(nn)]
    md = lambda: bytes(rng.randrange(256) for _ in range(rng.choice([0, 0, 1, 3, 9]))).hex()   # noqa: E731
    edges, seen = [], set()
    while len(edges) < rows:
        c = rng.randrange(nn)
        older = [p for p in range(nn) if times[p] > times[c]]
        if not older:
            continue
        p_ = rng.choice(older[:6])
        l = rng.randrange(0, L)
        if not edge_mig_ties and (p_, c, l) in seen:
            continue
        seen.add((p_, c, l))
        edges.append([l, rng.randrange(l + 1, L + 1), p_, c, md()])
    sites = [[rng.choice([0, 0.5, 1, 3, 3.5, 7]), rng.choice(["A", "", "ACGT" * 5]), md()] for _ in range(rows)]
    unknown = rng.random() < 0.5
    muts = []
    for j in range(rows):
        muts.append([rng.randrange(min(12, rows)), rng.randrange(nn), rng.choice(["T", "", "G" * 30]), NULL,
                     None, md()])
    by_site = {}
    for j, m in enumerate(muts):
        by_site.setdefault(m[0], []).append(j)
    for st, js in by_site.items():
        known = (not unknown) and st % 2 == 0
        for j in js:
            muts[j][4] = (times[muts[j][1]] + rng.randrange(0, 2)) if known else None
            prev = [k for k in js if k < j and (not known or muts[k][4] >= muts[j][4])]
            muts[j][3] = rng.choice(prev) if prev and rng.random() < 0.5 else NULL
    migs, seen = [], set()
    while len(migs) < rows:
        row = [rng.randrange(0, 3), 0, rng.randrange(nn), rng.randrange(3), rng.randrange(3), rng.randrange(0, 3), md()]
        row[1] = rng.randrange(row[0] + 1, L + 1)
        key = (row[5], row[3], row[4], row[0], row[2])
        if not edge_mig_ties and key in seen:
            if len(seen) >= 3 * 3 * 3 * 3 * nn - 5:
                break
            continue
        seen.add(key)
        migs.append(row)
    inds = []
    return {"L": L, "scale": 1, "nodes": nodes, "edges": edges, "sites": sites, "mutations": muts,
            "individuals": inds, "populations": [[""], ["aa"], [""]], "migrations": migs}


class Big(Family):
    """sort() on tables with hundreds of rows and many key ties (sites and mutations tie on the
    primary keys everywhere; edges / migrations either with full-key ties — oracle only — or
    without — also compared with the Coq model), all edge_start forms."""
    name = "big"
    workers = 8
    prelude = PRELUDE
    shard = 6
    timeout = 120.0

    # row counts around the points where libc qsort / the sorter change strategy (the 1 KiB
    # stack buffer of glibc's merge sort: 1024 / sizeof(edge_sort_t | migration_sort_t |
    # tsk_site_t | tsk_mutation_t | index_sort_t)) and around powers of two
    BOUNDARY_ROWS = (7, 8, 9, 12, 13, 15, 16, 17, 18, 19, 20, 25, 26, 31, 32, 33, 63, 64, 65, 127, 128, 129)

    def generate(self, rng, tier):
        for rows in (self.BOUNDARY_ROWS if tier == "quick" else self.BOUNDARY_ROWS * 3):
            for ties in (False, True):
                d = big_desc(rng, rows=rows, edge_mig_ties=ties)
                ne = len(d["edges"])
                yield {"desc": d, "perms": random_perms(rng, d), "edge_start": rng.choice([0, 0, 1, ne // 2]),
                       "skip": False}
        n = 3 if tier == "quick" else 40
        for k in range(n):
            ties = k % 3 != 0
            d = big_desc(rng, rows=rng.choice([256, 300, 400]), edge_mig_ties=ties)
            ne = len(d["edges"])
            yield {"desc": d, "perms": random_perms(rng, d), "edge_start": rng.choice([0, 0, 1, ne // 2, ne]),
                   "skip": rng.random() < 0.15}

    observe = Sort.observe
    starts = staticmethod(Sort.starts)

    def oracle(self, case, obs):
        return Sort.oracle(self, case, obs)

    def coq_check(self, case, obs):
        return Sort.coq_check(self, case, obs)

    def nontrivial(self, case, obs):
        return "out" in obs

    def describe(self, case, obs):
        d = case["desc"]
        return {"rows": len(d["sites"]), "edges": len(d["edges"]), "edge_start": min(case["edge_start"], 2),
                "modelled": not key_ties(desc_rows(d), min(case["edge_start"], len(d["edges"])))}


FAMILIES = [Sort, Repair, MutParents, Canon, Dedup, Squash, Index, SortInv, SortInd, ErrReuse, Big]

NOT_COVERED = [
    "canonicalise() with a non-empty migration table: tsk_table_collection_subset returns TSK_ERR_MIGRATIONS_NOT_SUPPORTED, so no canonical output exists to compare",
    "tsk_table_collection_subset (the first half of canonicalise) is not modelled: the canonical sorter model runs on the implementation's own subset() output",
    "mutation tables mixing known and unknown times inside one site (cmp_mutation is not transitive there; every later integrity check rejects them)",
    "glibc qsort itself (assumed: returns a sorted permutation; stability not assumed)",
]
