"""C20 — Tree.map_mutations is a most-parsimonious placement that reproduces the data.

Families
  exh       exhaustive small scope, batched: one case = (forest, sample flags, K, options);
            the implementation is run on every genotype vector over {-1,0..K-1} (not all
            missing) x ancestral_state in {None, 0..K-1} (int or str form); the oracle is an
            independent Sankoff DP (numpy, vectorised over the genotype vectors) plus naive
            painting / order / unary-chain checks written from the property text.
  single    one (tree, genotypes, ancestral_state) per case; oracle as above (pure Python
            Sankoff) + the Coq model (array model and rose-tree model) evaluated on the same
            input by vm_compute; also loads the result into a mutation table and decodes it
            with tskit itself.
  random    larger random trees (shared generator, multi-tree sequences, any tree index,
            up to 64 alleles), same oracle + Coq model.
  malformed bad genotypes / ancestral_state / alleles: exception classes vs the model of the
            Python wrapper and the C entry checks.
The oracles use only the case description (parent vector, flags) for the tree shape,
never the implementation's own arrays (those are used only to feed the Coq array model).
"""
import itertools

from harness.runner import Family
from harness.common import cz, cn, clist, copt
from harness import gen_ts

NULL = -1
INF = 10 ** 6


# ----------------------------------------------------------------------------
# building the tree under test
# ----------------------------------------------------------------------------

def heights(parent):
    n = len(parent)
    ch = [[] for _ in range(n)]
    for c, p in enumerate(parent):
        if p >= 0:
            ch[p].append(c)
    h = [0] * n
    # parent id > child id is NOT assumed; compute by repeated relaxation
    order = topo_children_first(parent)
    for u in order:
        for c in ch[u]:
            h[u] = max(h[u], h[c] + 1)
    return h


def topo_children_first(parent):
    n = len(parent)
    ch = [[] for _ in range(n)]
    for c, p in enumerate(parent):
        if p >= 0:
            ch[p].append(c)
    out, seen = [], [False] * n

    for r in range(n):
        if seen[r]:
            continue
        stack = [(r, 0)]
        while stack:
            u, k = stack.pop()
            if k == 0 and seen[u]:
                continue
            seen[u] = True
            if k < len(ch[u]):
                stack.append((u, k + 1))
                if not seen[ch[u][k]]:
                    stack.append((ch[u][k], 0))
            else:
                out.append(u)
    return out


def build_tree(case):
    """Returns (tskit.Tree, parent vector in this tree, flags)."""
    import tskit
    if "desc" in case:
        tc = gen_ts.build_tables(case["desc"])
        ts = tc.tree_sequence()
        t = tskit.Tree(ts, root_threshold=case.get("root_threshold", 1))
        if case.get("tree_index", 0) >= 0:
            t.seek_index(case["tree_index"])
        return t
    parent, flags = case["parent"], case["flags"]
    tc = tskit.TableCollection(1)
    h = heights(parent)
    for u in range(len(parent)):
        tc.nodes.add_row(flags=flags[u], time=h[u])
    for c, p in enumerate(parent):
        if p >= 0:
            tc.edges.add_row(0, 1, p, c)
    tc.sort()
    ts = tc.tree_sequence()
    t = tskit.Tree(ts, root_threshold=case.get("root_threshold", 1))
    if not case.get("null_tree"):
        t.first()
    return t


def case_tree(case):
    """(parent vector, flags) of the tree the case describes, from the description only."""
    if "desc" in case:
        d = case["desc"]
        flags = [nd[0] & 1 for nd in d["nodes"]]
        k = case.get("tree_index", 0)
        if k < 0:
            return [NULL] * len(flags), flags
        bps = gen_ts.breakpoints(d)
        return gen_ts.parent_at(d, bps[k]), flags
    if case.get("null_tree"):
        return [NULL] * len(case["parent"]), [f & 1 for f in case["flags"]]
    return list(case["parent"]), [f & 1 for f in case["flags"]]


def allele_names(n):
    return ["al%d" % i for i in range(n)]


def name_scheme(rng, n):
    """Distinct allele strings; digit strings in non-natural order are the interesting ones
    (a string must be looked up with alleles.index, never parsed as an index)."""
    k = rng.randrange(8)
    if k == 0:
        return None                                   # al0, al1, ...
    if k == 1:
        return [str(i) for i in range(n)]             # natural order
    if k == 2:
        return [str(n - 1 - i) for i in range(n)]     # reversed
    if k == 3:
        return [str((i + 1) % n) for i in range(n)]   # rotated
    if k == 4:
        p = list(range(n))
        rng.shuffle(p)
        return [str(x) for x in p]
    if k == 5:
        p = list(range(n))
        rng.shuffle(p)
        return [str(x + 1) for x in p]                # digits, none of them a valid own index pattern
    if k == 6:
        base = ["A", "C", "G", "T", "", "AC", "-", "N"]
        return [base[i] if i < len(base) else "x%d" % i for i in range(n)]
    out = []
    for i in range(n):
        out.append(str((i * 7 + 3) % (n + 5)) if i % 2 == 0 else "s%d" % i)
    return out if len(set(out)) == n else None


def case_names(case, n):
    names = case.get("names")
    return list(names) if names is not None else allele_names(n)


def tokens_of(names):
    first, out = {}, []
    for i, s in enumerate(names):
        first.setdefault(s, i)
        out.append(first[s])
    return out


def extra_flags(rng, flags, p=0.3):
    """Sample / non-sample nodes carrying other flag bits as well (only bit 0 means sample)."""
    if rng.random() > p:
        return flags
    return [f | rng.choice([0, 0, 2, 4, 1 << 16, 1 << 19, (1 << 31), 6]) for f in flags]


def np_genotypes(geno, dtype):
    if dtype is None:
        return geno
    import numpy as np
    if ":" in dtype:
        # non-contiguous views holding the same values: strided, reversed, a column of a 2-D array
        base, layout = dtype.split(":")
        a = np.array(geno, dtype=base)
        if layout == "strided":
            b = np.full(2 * len(a) + 1, 7, dtype=base)
            b[::2][:len(a)] = a
            v = b[::2][:len(a)]
        elif layout == "reversed":
            v = np.array(a[::-1])[::-1]
        else:
            b = np.full((len(a), 3), 9, dtype=base)
            b[:, 1] = a
            v = b[:, 1]
        assert len(a) < 2 or not v.flags["C_CONTIGUOUS"] or layout == "reversed"
        return v
    return np.array(geno, dtype=dtype)


def run_mm(tree, geno, alleles, anc, dtype=None):
    """Call the public API; canonical observation (allele strings as first-occurrence indices)."""
    try:
        geno = np_genotypes(geno, dtype)
        a, muts = tree.map_mutations(geno, alleles, anc) if anc is not None else tree.map_mutations(geno, alleles)
    except Exception as e:  # noqa: BLE001 - the class is the observation
        return {"exc": type(e).__name__}
    idx = {}
    for i, s in enumerate(alleles):
        idx.setdefault(s, i)
    return {"anc": idx[a], "muts": [[m.node, idx[m.derived_state], m.parent] for m in muts]}


# ----------------------------------------------------------------------------
# independent oracle
# ----------------------------------------------------------------------------

class Shape:
    """Tree shape derived from the case description (parent vector + flags)."""

    def __init__(self, parent, flags, root_threshold=1):
        n = len(parent)
        self.n, self.parent, self.flags = n, parent, flags
        self.children = [[] for _ in range(n)]
        for c, p in enumerate(parent):
            if p >= 0:
                self.children[p].append(c)
        self.samples = [u for u in range(n) if flags[u] & 1]
        self.sidx = {u: j for j, u in enumerate(self.samples)}
        self.post = topo_children_first(parent)
        ns = [0] * n
        for u in self.post:
            ns[u] = (1 if flags[u] & 1 else 0) + sum(ns[c] for c in self.children[u])
        self.nsamp = ns
        # roots of the tree as tskit defines them: parentless, >= root_threshold samples below
        self.roots = [u for u in range(n) if parent[u] < 0 and ns[u] >= root_threshold]
        # roots by the property's notion of "the tree": every parentless node above a sample
        self.all_roots = [u for u in range(n) if parent[u] < 0 and ns[u] >= 1]
        reach = [False] * n
        for u in reversed(self.post):
            if u in self.roots or (parent[u] >= 0 and reach[parent[u]]):
                reach[u] = True
        self.reach = reach
        self.internal_samples = [u for u in self.samples if self.children[u]]


def sankoff(shape, geno, nstates):
    """cost[u][s] = min number of state changes on the edges strictly below u given u has
    state s (INF if u is a sample observed in another state).  States 0..nstates-1; the
    caller includes one state never observed.  Returns opt(a) = total over all roots of
    min_s(cost[r][s] + [s != a]) as a list indexed by a."""
    cost = [None] * shape.n
    for u in shape.post:
        if shape.nsamp[u] == 0:
            continue
        g = geno[shape.sidx[u]] if u in shape.sidx else NULL
        row = []
        for s in range(nstates):
            if g != NULL and g != s:
                row.append(INF)
                continue
            tot = 0
            for c in shape.children[u]:
                if cost[c] is None:
                    continue
                cc = cost[c]
                tot += min(cc[s], min(cc) + 1)
            row.append(tot)
        cost[u] = row
    opt = []
    for a in range(nstates):
        tot = 0
        for r in shape.all_roots:
            cr = cost[r]
            tot += min(cr[a], min(cr) + 1)
        opt.append(tot)
    return opt


def brute_force(shape, geno, nstates):
    """Same quantity by enumeration of every labeling of every node above a sample."""
    nodes = [u for u in range(shape.n) if shape.nsamp[u] >= 1]
    best = [INF] * nstates
    for lab in itertools.product(range(nstates), repeat=len(nodes)):
        L = dict(zip(nodes, lab))
        ok = all(geno[j] == NULL or L[u] == geno[j] for u, j in shape.sidx.items())
        if not ok:
            continue
        ch = sum(1 for u in nodes if shape.parent[u] >= 0 and L[u] != L[shape.parent[u]])
        for a in range(nstates):
            tot = ch + sum(1 for r in shape.all_roots if L[r] != a)
            best[a] = min(best[a], tot)
    return best


def check_result(shape, geno, anc_req, res, opt, nalleles):
    """Property text evaluated naively on one result.  opt = sankoff(...) list.
    Returns list of (key, message)."""
    out = []
    a, muts = res["anc"], res["muts"]
    n = shape.n
    missing_internal = [u for u in shape.internal_samples if geno[shape.sidx[u]] == NULL]
    unreached = [u for u in shape.samples if not shape.reach[u]]
    tag = ""
    if missing_internal:
        tag = ":internal-sample-missing"
    if anc_req is not None and a != anc_req:
        out.append(("ancestral-state-not-the-fixed-one", "asked %r got %r" % (anc_req, a)))
    if not (0 <= a < nalleles):
        out.append(("ancestral-state-out-of-range", str(a)))
    # well-formedness
    for k, (node, d, p) in enumerate(muts):
        if not (0 <= node < n) or not (0 <= d < nalleles):
            out.append(("mutation-malformed", "mutation %d = %r" % (k, muts[k])))
            return out
    # (1) painting by the nearest-mutation rule: the state of u is the derived state of the
    # last-listed mutation on the first node (u, parent(u), ...) that carries one; else a.
    on = {}
    for k, (node, d, p) in enumerate(muts):
        on.setdefault(node, []).append(k)

    def state(u):
        while u >= 0:
            if u in on:
                return muts[on[u][-1]][1]
            u = shape.parent[u]
        return a
    for u, j in shape.sidx.items():
        if geno[j] != NULL and state(u) != geno[j]:
            if not shape.reach[u]:
                out.append(("not-reproduced:sample-below-root-threshold",
                            "sample %d observed %d painted %d (not under any root of the tree)" % (u, geno[j], state(u))))
            else:
                out.append(("not-reproduced", "sample %d observed %d painted %d" % (u, geno[j], state(u))))
    # (2) minimum number of state changes
    best = opt[anc_req] if anc_req is not None else min(opt)
    if len(muts) > best:
        out.append(("non-parsimonious" + tag,
                    "%d mutations returned, %d suffice" % (len(muts), best)))
    elif len(muts) < best and not any(k.startswith("not-reproduced") for k, _ in out):
        out.append(("oracle-inconsistent", "%d mutations < optimum %d but data reproduced" % (len(muts), best)))
    # (3) order valid for a mutation table, parent links
    last_on, listed = {}, set()
    for k, (node, d, p) in enumerate(muts):
        if not (-1 <= p < k):
            out.append(("parent-not-before-child", "mutation %d parent %d" % (k, p)))
        # expected: latest earlier mutation on the same node, else the last-listed mutation
        # (over the whole list) on the nearest strict ancestor carrying any mutation
        if node in last_on:
            exp = last_on[node]
        else:
            exp, v = NULL, shape.parent[node]
            while v >= 0:
                if v in on:
                    exp = on[v][-1]
                    break
                v = shape.parent[v]
        if p != exp:
            out.append(("parent-link-wrong", "mutation %d on node %d: parent %d, nearest above is %d" % (k, node, p, exp)))
        last_on[node] = k
        # a state change, not a silent mutation
        above = muts[p][1] if 0 <= p < len(muts) else a
        if above == d:
            out.append(("silent-mutation", "mutation %d derives the state it already has" % k))
    # (4) oldest node of a unary chain: the node's parent is not a unary node on which the
    # mutation could equally sit (a sample with a non-missing observation pins its own state)
    for k, (node, d, p) in enumerate(muts):
        pu = shape.parent[node]
        if pu >= 0 and len(shape.children[pu]) == 1:
            if pu in shape.sidx and geno[shape.sidx[pu]] != NULL:
                continue
            if pu in shape.sidx:
                out.append(("not-oldest-on-unary-chain:internal-sample-missing",
                            "mutation %d on node %d, unary parent %d is a sample with missing data" % (k, node, pu)))
            else:
                out.append(("not-oldest-on-unary-chain", "mutation %d on node %d, parent %d is unary" % (k, node, pu)))
    # (5) bound used for the C allocation
    nonmiss = sum(1 for g in geno if g != NULL)
    if len(muts) > nonmiss:
        out.append(("more-mutations-than-nonmissing-samples", "%d > %d" % (len(muts), nonmiss)))
    return out


def flags0(case):
    if "desc" in case:
        return [nd[0] for nd in case["desc"]["nodes"]]
    return case["flags"]


# ----------------------------------------------------------------------------
# Coq terms
# ----------------------------------------------------------------------------

def coq_arrays(obs):
    """left_child / right_sib / flags / samples of the implementation (input of the array model)."""
    return "(mkTreeArrays %s %s %s %s %s %s %s)" % tuple(
        clist(obs[k]) for k in ("left_child", "right_sib", "right_child", "left_sib", "parent", "flags", "samples"))


def coq_result(res):
    if "exc" in res:
        return "(MErr %s)" % {"ValueError": "EValue", "LibraryError": "ELibrary", "IndexError": "EIndex",
                              "OverflowError": "EOverflow", "TypeError": "EType"}[res["exc"]]
    return "(MOk %s %s)" % (cz(res["anc"]), "[" + "; ".join("(%s, %s, %s)" % (cz(a), cz(b), cz(c)) for a, b, c in res["muts"]) + "]")


def tree_arrays(tree):
    ts = tree.tree_sequence
    return {"left_child": [int(x) for x in tree.left_child_array],
            "right_sib": [int(x) for x in tree.right_sib_array],
            "right_child": [int(x) for x in tree.right_child_array],
            "left_sib": [int(x) for x in tree.left_sib_array],
            "parent": [int(x) for x in tree.parent_array],
            "flags": [int(x) for x in ts.tables.nodes.flags],
            "samples": [int(x) for x in ts.samples()]}


def table_roundtrip(tree, case, res):
    """Load the result into a mutation table and let tskit itself validate and decode it."""
    import tskit
    if "exc" in res or case.get("null_tree") or case.get("tree_index", 0) < 0:
        return None
    ts = tree.tree_sequence
    tc = ts.dump_tables()
    tc.sites.clear()
    tc.mutations.clear()
    iv = tree.interval
    alleles = case_names(case, case["nalleles"])
    tc.sites.add_row(iv.left, alleles[res["anc"]])
    for node, d, p in res["muts"]:
        tc.mutations.add_row(0, node, alleles[d], parent=p)
    try:
        ts2 = tc.tree_sequence()
    except Exception as e:  # noqa: BLE001
        return {"load": type(e).__name__ + ":" + str(e)[:80]}
    tc2 = tc.copy()
    tc2.compute_mutation_parents()
    v = next(ts2.variants(alleles=tuple(alleles), isolated_as_missing=False))
    return {"load": "ok", "parents": [int(x) for x in tc2.mutations.parent],
            "decoded": [int(x) for x in v.genotypes]}


def one_case_oracle(case, obs):
    parent, flags = case_tree(case)
    shape = Shape(parent, flags, case.get("root_threshold", 1))
    geno = case["geno"]
    res = obs["res"]
    out = []
    if len(geno) != len(shape.samples):
        raise AssertionError("generator bug: genotype length")
    if "exc" in res:
        # a rejection is acceptable only where the property cannot be met: some sample lies
        # under no root of the tree (root_threshold > 1; proposed repair of F14)
        if res["exc"] == "LibraryError" and any(not shape.reach[u] for u in shape.samples):
            return []
        return [("unexpected-exception", res["exc"])]
    nal = case["nalleles"]
    opt = sankoff(shape, geno, nal + 1)
    anc_req = anc_index(case["anc"], case_names(case, nal))
    out += check_result(shape, geno, anc_req, res, opt, nal)
    if shape.n <= 6 and nal <= 2:
        bf = brute_force(shape, geno, nal + 1)
        if bf != opt:
            out.append(("oracle-self-check", "sankoff %r brute force %r" % (opt, bf)))
    rt = obs.get("table")
    if rt is not None and case.get("root_threshold", 1) == 1:
        if rt["load"] != "ok":
            out.append(("mutation-table-rejected", rt["load"]))
        else:
            if rt["parents"] != [m[2] for m in res["muts"]]:
                out.append(("parent-link-wrong:compute_mutation_parents",
                            "%r vs %r" % (rt["parents"], [m[2] for m in res["muts"]])))
            bad = [j for j, g in enumerate(geno) if g != NULL and rt["decoded"][j] != g]
            if bad:
                out.append(("not-reproduced:decoded-by-tskit", "samples %r" % bad))
    return out


def anc_arg(anc, alleles):
    """anc = None | ["int", i] | ["npint", i] | ["str", i] | ["strmissing", _] | ["numstr", k]"""
    if anc is None:
        return None
    if anc[0] == "int":
        return anc[1]
    if anc[0] == "npint":
        import numpy as np
        return np.int64(anc[1])
    if anc[0] == "str":
        return alleles[anc[1]]
    if anc[0] == "numstr":
        return str(anc[1])          # a digit string (the generator makes sure it is not an allele)
    return "not-an-allele"


def coq_anc(anc, names):
    if anc is None:
        return "ANone"
    if anc[0] in ("int", "npint"):
        return "(AInt %s)" % cz(anc[1])
    if anc[0] == "str":
        return "(AStr %s)" % cz(tokens_of(names)[anc[1]])
    return "(AStr %s)" % cz(-5)     # a string that is not in the alleles list


def anc_index(anc, names):
    """the index the requested ancestral state denotes (property text), or None"""
    if anc is None:
        return None
    if anc[0] == "str":
        return tokens_of(names)[anc[1]]
    return anc[1]


class SingleBase(Family):
    prelude = ("From TskVerif Require Import Base.Common C20.Model C20.Spec.\nOpen Scope Z_scope.")
    workers = 8
    shard = 300

    def observe(self, case):
        tree = build_tree(case)
        alleles = case_names(case, case["nalleles"])
        res = run_mm(tree, case["geno"], alleles, anc_arg(case["anc"], alleles), case.get("dtype"))
        o = {"res": res}
        if case.get("big"):
            o["table"] = None          # oracle only: the arrays are too large for a case term
            return o
        o.update(tree_arrays(tree))
        o["virtual_root"] = int(tree.virtual_root)
        o["table"] = table_roundtrip(tree, case, res)
        return o

    def oracle(self, case, obs):
        return one_case_oracle(case, obs)

    def coq_check(self, case, obs):
        if case.get("big"):
            return None
        names = case_names(case, case["nalleles"])
        return "check_case %s %s %s %s %s" % (
            coq_arrays(obs), clist(case["geno"]), coq_anc(case["anc"], names), clist(tokens_of(names)),
            coq_result(obs["res"]))

    def nontrivial(self, case, obs):
        return "muts" in obs["res"] and len(obs["res"]["muts"]) >= 1

    def describe(self, case, obs):
        parent, flags = case_tree(case)
        sh = Shape(parent, flags)
        g = case["geno"]
        return {
            "nodes": min(sh.n, 20) if sh.n < 20 else "20+",
            "id_order": ("no-edges" if all(p < 0 for p in parent) else
                         "children-first" if all(p < 0 or p > u for u, p in enumerate(parent)) else
                         "ancestors-first" if all(p < 0 or p < u for u, p in enumerate(parent)) else "mixed"),
            "samples_first": sh.samples == list(range(len(sh.samples))),
            "n_mut": len(obs["res"].get("muts", [])) if "muts" in obs["res"] else obs["res"]["exc"],
            "anc": "free" if case["anc"] is None else case["anc"][0],
            "names": "al" if case.get("names") is None else ("digits" if all(x.isdigit() for x in case["names"]) else "mixed"),
            "extra_flag_bits": any(f & ~1 for f in flags0(case)),
            "dtype": case.get("dtype") or "list",
            "has_missing": any(x == NULL for x in g),
            "internal_sample": bool(sh.internal_samples),
            "multiroot": len(sh.all_roots) > 1,
            "unary": any(len(c) == 1 for c in sh.children),
            "polytomy": any(len(c) > 2 for c in sh.children),
            "alleles": min(case["nalleles"], 8) if case["nalleles"] < 8 else "8+",
        }

    def shrink(self, case):
        if "desc" in case:
            return
        parent, flags, geno = case["parent"], case["flags"], case["geno"]
        n = len(parent)
        samples = [u for u in range(n) if flags[u] & 1]
        # drop a leaf node
        kids = set(p for p in parent if p >= 0)
        for u in range(n):
            if u in kids:
                continue
            ren = {v: (v if v < u else v - 1) for v in range(n) if v != u}
            ren[NULL] = NULL
            g2 = [geno[j] for j, s in enumerate(samples) if s != u]
            if not any(x != NULL for x in g2):
                continue
            c = dict(case)
            c["parent"] = [ren[parent[v]] for v in range(n) if v != u]
            c["flags"] = [flags[v] for v in range(n) if v != u]
            c["geno"] = g2
            yield c
        for j in range(len(geno)):
            if geno[j] > 0:
                c = dict(case)
                c["geno"] = geno[:j] + [0] + geno[j + 1:]
                yield c
        if case["anc"] is not None:
            c = dict(case)
            c["anc"] = None
            yield c


def forests(n):
    """All parent vectors on nodes 0..n-1 with parent[u] > u or NULL (ids follow time order)."""
    def rec(u, acc):
        if u == n:
            yield list(acc)
            return
        for p in [NULL] + list(range(u + 1, n)):
            acc.append(p)
            yield from rec(u + 1, acc)
            acc.pop()
    yield from rec(0, [])


def geno_vectors(k, K, missing=True):
    vals = ([NULL] if missing else []) + list(range(K))
    for g in itertools.product(vals, repeat=k):
        if any(x != NULL for x in g):
            yield list(g)


def anc_options(K, forms=("int", "str")):
    yield None
    for i in range(K):
        for f in forms:
            yield [f, i]


class Single(SingleBase):
    """Exhaustive at very small scope + stratified enumeration at n <= 6."""
    name = "single"

    def generate(self, rng, tier):
        # the F2 witness and friends first
        yield {"parent": [4, 3, 3, 4, -1], "flags": [1, 1, 1, 1, 0], "geno": [0, 1, 1, -1], "anc": None, "nalleles": 2}
        yield {"parent": [4, 3, 3, 4, -1], "flags": [1, 1, 1, 1, 0], "geno": [0, 1, 1, 0], "anc": None, "nalleles": 2}
        yield {"parent": [3, 2, 3, -1], "flags": [1, 1, 1, 0], "geno": [0, 1, -1], "anc": None, "nalleles": 2}
        top = 4 if tier == "quick" else 5
        for n in range(1, top + 1):
            for parent in forests(n):
                for mask in range(1, 2 ** n):
                    flags = [(mask >> u) & 1 for u in range(n)]
                    k = sum(flags)
                    if n == top and tier == "quick" and rng.random() < 0.5:
                        continue
                    gs = list(geno_vectors(k, 2))
                    if len(gs) > 6:
                        gs = rng.sample(gs, 6)
                    for g in gs:
                        anc = rng.choice(list(anc_options(2)))
                        c = {"parent": parent, "flags": extra_flags(rng, flags), "geno": g, "anc": anc, "nalleles": 2}
                        nm = name_scheme(rng, 2)
                        if nm is not None:
                            c["names"] = nm
                        yield c
        # n = 5..7: random picks from the enumerated forests, 3 alleles, root_threshold / null tree variants
        for n, count in ((5, 400), (6, 500), (7, 300)):
            count = count if tier == "quick" else count * 6
            fs = list(forests(n)) if n <= 6 else None
            for _ in range(count):
                parent = rng.choice(fs) if fs else [rng.choice([NULL] + list(range(u + 1, n))) for u in range(n)]
                flags = [1 if rng.random() < 0.7 else 0 for _ in range(n)]
                if not any(flags):
                    flags[0] = 1
                k = sum(flags)
                K = rng.choice([2, 3, 3, 4])
                g = [rng.choice([NULL] + list(range(K)) * 2) for _ in range(k)]
                if all(x == NULL for x in g):
                    g[0] = 0
                nal = K + rng.choice([0, 0, 1])
                anc = rng.choice(list(anc_options(nal, forms=("int", "str", "str", "npint"))) + [None] * nal)
                c = {"parent": parent, "flags": extra_flags(rng, flags), "geno": g, "anc": anc, "nalleles": nal}
                nm = name_scheme(rng, nal)
                if nm is not None:
                    c["names"] = nm
                if rng.random() < 0.3:
                    c["dtype"] = rng.choice(["int8", "int16", "int32", "int64", "int32:strided", "int32:reversed", "int32:column",
                                             "int8:strided", "int64:column"] + ([] if min(g) < 0 else ["uint8", "uint16", "uint64"]))
                r = rng.random()
                if r < 0.05:
                    c["null_tree"] = True
                yield c


class RootThreshold(SingleBase):
    """Trees built with root_threshold = 2: samples not under any root are never visited."""
    name = "root_threshold"

    def generate(self, rng, tier):
        yield {"parent": [3, 3, -1, -1], "flags": [1, 1, 1, 0], "geno": [0, 0, 1], "anc": None,
               "nalleles": 2, "root_threshold": 2}
        for _ in range(150 if tier == "quick" else 2000):
            n = rng.randrange(2, 8)
            parent = [rng.choice([NULL] + list(range(u + 1, n))) for u in range(n)]
            flags = [1 if rng.random() < 0.7 else 0 for _ in range(n)]
            if not any(flags):
                flags[0] = 1
            K = rng.choice([2, 3])
            g = [rng.choice([NULL] + list(range(K)) * 2) for _ in range(sum(flags))]
            if all(x == NULL for x in g):
                g[0] = 0
            c = {"parent": parent, "flags": extra_flags(rng, flags), "geno": g,
                 "anc": rng.choice(list(anc_options(K)) + [None] * K),
                 "nalleles": K, "root_threshold": rng.choice([2, 2, 3])}
            nm = name_scheme(rng, K)
            if nm is not None:
                c["names"] = nm
            yield c


class Boundary(SingleBase):
    """Boundary values: allele index 63 / sets with only high bits, a fixed ancestral state one
    past the largest observed allele over multi-root forests with all-missing subtrees, deep
    and wide trees (explicit stacks of the C code)."""
    name = "boundary"
    shard = 120

    def generate(self, rng, tier):
        def forest(n):
            return [rng.choice([NULL] + list(range(u + 1, n))) for u in range(n)]
        # (a) high alleles
        for _ in range(120 if tier == "quick" else 1500):
            n = rng.randrange(2, 9)
            parent = forest(n)
            flags = [1 if rng.random() < 0.75 else 0 for _ in range(n)]
            if not any(flags):
                flags[0] = 1
            k = sum(flags)
            pool = rng.choice([[62, 63], [63], [32, 33, 63], [31, 32], [0, 63], list(range(40, 64))])
            g = [rng.choice([NULL] + pool * 3) for _ in range(k)]
            if all(x == NULL for x in g):
                g[0] = pool[-1]
            nal = rng.choice([64, 64, 70])
            anc = rng.choice([None, ["int", 63], ["str", 63], ["int", max(g)], ["str", min(max(g) + 1, 63)],
                              ["int", rng.choice(pool)], ["npint", 63]])
            c = {"parent": parent, "flags": extra_flags(rng, flags), "geno": g, "anc": anc, "nalleles": nal}
            r = rng.random()
            if r < 0.4:
                c["names"] = [str(nal - 1 - i) for i in range(nal)]
            elif r < 0.6:
                c["names"] = [str(i) for i in range(nal)]
            yield c
        # (b) several roots, one subtree entirely missing, ancestral state fixed one past the largest allele
        for _ in range(150 if tier == "quick" else 1500):
            n = rng.randrange(3, 9)
            parent = forest(n)
            parent[n - 1] = NULL
            parent[n - 2] = NULL
            flags = [1 if rng.random() < 0.8 else 0 for _ in range(n)]
            flags[n - 2] = 1
            sh = Shape(parent, flags)
            samples = sh.samples
            K = rng.choice([1, 2, 3])
            g = [rng.randrange(K) for _ in samples]
            # blank the subtree of one root
            root = rng.choice(sh.all_roots)
            below = set()
            stack = [root]
            while stack:
                u = stack.pop()
                below.add(u)
                stack += sh.children[u]
            for j, u in enumerate(samples):
                if u in below:
                    g[j] = NULL
            if all(x == NULL for x in g):
                g[0] = K - 1
            top = max(g) + 1
            anc = rng.choice([["int", top], ["str", top], ["int", top], ["int", top + 1], None])
            nal = (anc[1] if anc else top) + 1 + rng.choice([0, 0, 2])
            c = {"parent": parent, "flags": extra_flags(rng, flags), "geno": g, "anc": anc, "nalleles": nal}
            nm = name_scheme(rng, nal)
            if nm is not None:
                c["names"] = nm
            yield c
        # (c) deep chains / caterpillars / wide stars
        sizes = [40, 120] if tier == "quick" else [40, 120, 400, 900]
        for n in sizes:
            for shape in ("chain", "caterpillar", "star", "broom"):
                for rep in range(2 if tier == "quick" else 4):
                    if shape == "chain":
                        parent = [u + 1 for u in range(n - 1)] + [NULL]
                        flags = [1] + [1 if rng.random() < 0.2 else 0 for _ in range(n - 1)]
                    elif shape == "caterpillar":
                        m = n // 2            # leaves 0..m-1, spine m..n-1
                        parent = [min(m + u, n - 1) for u in range(m)] + [u + 1 for u in range(m, n - 1)] + [NULL]
                        flags = [1] * m + [1 if rng.random() < 0.1 else 0 for _ in range(n - m)]
                    elif shape == "star":
                        parent = [n - 1] * (n - 1) + [NULL]
                        flags = [1 if rng.random() < 0.9 else 0 for _ in range(n - 1)] + [0]
                        flags[0] = 1
                    else:
                        h = n // 2            # a star on top of a chain
                        parent = [h] * h + [u + 1 for u in range(h, n - 1)] + [NULL]
                        flags = [1] * h + [0] * (n - h)
                    k = sum(flags)
                    K = rng.choice([2, 3, 5])
                    g = [rng.choice([NULL] + list(range(K)) * 3) for _ in range(k)]
                    if all(x == NULL for x in g):
                        g[0] = 0
                    yield {"parent": parent, "flags": flags, "geno": g,
                           "anc": rng.choice([None, ["int", rng.randrange(K)], ["str", K]]), "nalleles": K + 1}

    def shrink(self, case):
        return []


def star_min_changes(counts, anc=None):
    """closed form for a star whose centre is a non-sample root: leaves carry `counts[a]` copies
    of allele a; centre state c costs (leaves not in state c) + [anc fixed and c != anc]."""
    n = sum(counts.values())
    best = None
    states = set(counts) | ({anc} if anc is not None else set())
    for c in states:
        v = n - counts.get(c, 0) + (1 if anc is not None and c != anc else 0)
        best = v if best is None else min(best, v)
    return best


class Wide(SingleBase):
    """Very wide polytomies: per-allele child counts around 255/256/257/300 and 65536+1 with
    skewed allele frequencies (integer widths of the counters in the Hartigan pass)."""
    name = "wide"
    shard = 6
    timeout = 120.0

    def generate(self, rng, tier):
        specs = [(255, 45), (256, 44), (257, 43), (256, 256), (300, 200), (512, 300), (600, 90)]
        if tier != "quick":
            specs += [(256, 1), (511, 255), (768, 513), (1024, 5)]
        for major, minor in specs:
            for variant in ("root", "inner"):
                A, B = rng.sample(range(3), 2)
                leaves = [A] * major + [B] * minor
                extra = rng.randrange(0, 3)
                leaves += [rng.choice([NULL, 2 if 2 not in (A, B) else A])] * extra
                rng.shuffle(leaves)
                n = len(leaves)
                if variant == "root":
                    parent = [n] * n + [NULL]
                    flags = [1] * n + [0]
                    geno = list(leaves)
                else:   # the polytomy hangs under a binary root next to one more sample
                    parent = [n] * n + [n + 2, n + 2, NULL]
                    flags = [1] * n + [0, 1, 0]
                    geno = list(leaves) + [B]
                anc = rng.choice([None, None, ["int", A], ["int", B], ["str", A]])
                c = {"parent": parent, "flags": flags, "geno": geno, "anc": anc, "nalleles": 3,
                     "star": variant == "root"}
                if rng.random() < 0.5:
                    c["names"] = ["2", "0", "1"]
                yield c
        # 2**16 + 1 children sharing an allele: oracle only
        for major, minor in ([(65537, 300)] if tier == "quick" else [(65537, 300), (65536, 65535), (70000, 65537)]):
            leaves = [1] * major + [0] * minor
            n = len(leaves)
            yield {"parent": [n] * n + [NULL], "flags": [1] * n + [0], "geno": leaves, "anc": None,
                   "nalleles": 2, "star": True, "big": True}

    def oracle(self, case, obs):
        out = one_case_oracle(case, obs)
        res = obs["res"]
        if case.get("star") and "muts" in res:
            counts = {}
            for g in case["geno"]:
                if g != NULL:
                    counts[g] = counts.get(g, 0) + 1
            want = star_min_changes(counts, anc_index(case["anc"], case_names(case, case["nalleles"])))
            if len(res["muts"]) != want:
                out.append(("non-parsimonious:star-closed-form", "%d mutations, closed form %d" % (len(res["muts"]), want)))
        return out

    def describe(self, case, obs):
        return {"children": len(case["geno"]), "n_mut": len(obs["res"].get("muts", []))}

    def shrink(self, case):
        return []


class Reuse(Family):
    """Histories on ONE Tree object: rejected calls (bad genotype -2 at a late sample, genotype
    64, wrong length, all missing, bad ancestral state through the low-level method) followed
    by valid calls, also after moving the tree; every valid call must give what a fresh Tree gives
    and satisfy the property."""
    name = "reuse"
    prelude = SingleBase.prelude
    workers = 6
    shard = 60

    def generate(self, rng, tier):
        for _ in range(120 if tier == "quick" else 1500):
            n = rng.randrange(2, 9)
            parent = [rng.choice([NULL] + list(range(u + 1, n))) for u in range(n)]
            flags = [1 if rng.random() < 0.75 else 0 for _ in range(n)]
            flags[0] = 1
            if sum(flags) < 2:
                flags[1] = 1
            k = sum(flags)
            K = rng.choice([2, 3, 4])

            def valid():
                g = [rng.choice([NULL] + list(range(K)) * 3) for _ in range(k)]
                if all(x == NULL for x in g):
                    g[rng.randrange(k)] = rng.randrange(K)
                return {"geno": g, "anc": rng.choice([None, None, ["int", rng.randrange(K)], ["str", rng.randrange(K)]])}

            def rejected():
                kind = rng.choice(["neg2", "neg2", "neg2", "g64", "len", "allmissing", "ll_anc", "ll_neg2", "anc_range"])
                g = [rng.randrange(K) for _ in range(k)]
                c = {"anc": None, "kind": kind}
                if kind in ("neg2", "ll_neg2"):
                    g[rng.randrange(1, k)] = rng.choice([-2, -3, -100])     # earlier samples get their bits set first
                elif kind == "g64":
                    g[rng.randrange(k)] = 64
                elif kind == "len":
                    g = g + [0] if rng.random() < 0.5 else g[:-1]
                elif kind == "allmissing":
                    g = [NULL] * k
                elif kind == "ll_anc":
                    c["anc"] = ["int", rng.choice([64, -1, 1000])]
                elif kind == "anc_range":
                    c["anc"] = ["int", K + 5]
                c["geno"] = g
                c["ll"] = kind.startswith("ll_")
                return c

            calls = []
            for _ in range(rng.randrange(2, 6)):
                calls.append(rejected() if rng.random() < 0.45 else valid())
            if not any("kind" in c for c in calls):
                calls.insert(0, rejected())
            calls.append(valid())
            case = {"parent": parent, "flags": extra_flags(rng, flags), "nalleles": K, "calls": calls}
            nm = name_scheme(rng, K)
            if nm is not None:
                case["names"] = nm
            yield case

    def observe(self, case):
        tree = build_tree(case)
        alleles = case_names(case, case["nalleles"])
        out = []
        for c in case["calls"]:
            if c.get("ll"):
                try:
                    import numpy as np
                    a, trs = tree._ll_tree.map_mutations(np.array(c["geno"], dtype=np.int8),
                                                         None if c["anc"] is None else c["anc"][1])
                    r = {"anc": int(a), "muts": [[int(x[0]), int(x[2]), int(x[1])] for x in trs]}
                except Exception as e:  # noqa: BLE001
                    r = {"exc": type(e).__name__}
                out.append({"res": r, "fresh": None})
                continue
            r = run_mm(tree, c["geno"], alleles, anc_arg(c["anc"], alleles))
            fresh = run_mm(build_tree(case), c["geno"], alleles, anc_arg(c["anc"], alleles))
            out.append({"res": r, "fresh": fresh})
        o = {"calls": out}
        o.update(tree_arrays(tree))
        return o

    def oracle(self, case, obs):
        fails = []
        shape = Shape(case["parent"], [f & 1 for f in case["flags"]])
        nal = case["nalleles"]
        names = case_names(case, nal)
        for i, (c, o) in enumerate(zip(case["calls"], obs["calls"])):
            r = o["res"]
            if "kind" in c:
                if "exc" not in r:
                    fails.append(("invalid-input-accepted", "call %d (%s) -> %r" % (i, c["kind"], r)))
                continue
            if o["fresh"] != r:
                fails.append(("reused-tree-differs-from-fresh-tree", "call %d: %r vs fresh %r" % (i, r, o["fresh"])))
            if "exc" in r:
                fails.append(("unexpected-exception", "call %d: %s" % (i, r["exc"])))
                continue
            opt = sankoff(shape, c["geno"], nal + 1)
            for key, msg in check_result(shape, c["geno"], anc_index(c["anc"], names), r, opt, nal):
                fails.append((key, "call %d: %s" % (i, msg)))
        return fails

    def coq_check(self, case, obs):
        names = case_names(case, case["nalleles"])
        terms = []
        for c, o in zip(case["calls"], obs["calls"]):
            if c.get("ll"):
                continue                    # below the public API: not a wrapper observation
            terms.append("check_case %s %s %s %s %s" % (coq_arrays(obs), clist(c["geno"]), coq_anc(c["anc"], names),
                                                        clist(tokens_of(names)), coq_result(o["res"])))
        return "(" + " && ".join(terms) + ")" if terms else None

    def nontrivial(self, case, obs):
        return any("muts" in o["res"] and o["res"]["muts"] for o in obs["calls"])

    def describe(self, case, obs):
        return {"calls": len(case["calls"]), "rejected": sum(1 for c in case["calls"] if "kind" in c)}


class Random(SingleBase):
    """Larger random trees out of multi-tree sequences (shared generator), up to 64 alleles."""
    name = "random"

    def generate(self, rng, tier):
        for _ in range(500 if tier == "quick" else 8000):
            big = rng.random() < 0.3
            d = gen_ts.random_desc(rng, max_nodes=40 if big else 12, max_L=6, max_sites=0, metadata=False,
                                   individuals=False, populations=False,
                                   p_internal_sample=rng.choice([0.0, 0.15, 0.5]),
                                   p_root=rng.choice([0.05, 0.2]))
            ns = sum(1 for nd in d["nodes"] if nd[0] & 1)
            if ns == 0:
                continue
            bps = gen_ts.breakpoints(d)
            k = rng.randrange(0, len(bps) - 1)
            K = rng.choice([1, 2, 2, 3, 4, 8, 64])
            pm = rng.choice([0.0, 0.1, 0.4])
            pool = list(range(K)) if K <= 8 else rng.sample(range(64), rng.randrange(2, 10)) + [63]
            g = [NULL if rng.random() < pm else rng.choice(pool) for _ in range(ns)]
            if all(x == NULL for x in g):
                g[rng.randrange(ns)] = rng.choice(pool)
            nal = max(K, max(g) + 1) + rng.choice([0, 0, 3])
            anc = rng.choice([None, None, ["int", rng.randrange(nal)], ["str", rng.randrange(nal)]])
            if anc is not None and anc[1] >= 64:
                anc[1] = 63
            if rng.random() < 0.3:
                for nd in d["nodes"]:
                    nd[0] |= rng.choice([0, 0, 2, 1 << 16, 1 << 20])
            c = {"desc": d, "tree_index": k, "geno": g, "anc": anc, "nalleles": nal}
            nm = name_scheme(rng, nal)
            if nm is not None:
                c["names"] = nm
            yield c


class Exhaustive(Family):
    """Batched exhaustive scope; oracle only (the Coq model is exercised by the other families)."""
    name = "exh"
    workers = 8
    timeout = 120.0

    def generate(self, rng, tier):
        # (n, K): all forests x all sample masks x all genotype vectors over {-1,0..K-1}
        scopes = [(1, 3), (2, 3), (3, 3), (4, 3), (5, 2)] if tier == "quick" else \
                 [(1, 3), (2, 3), (3, 3), (4, 3), (5, 3), (6, 2)]
        for n, K in scopes:
            for parent in forests(n):
                for mask in range(1, 2 ** n):
                    flags = [(mask >> u) & 1 for u in range(n)]
                    if n >= 6 and sum(flags) > 5:
                        continue
                    c = {"parent": parent, "flags": extra_flags(rng, flags, 0.15), "K": K}
                    nm = name_scheme(rng, K)
                    if nm is not None:
                        c["names"] = nm
                    yield c

    @staticmethod
    def combos(case):
        k = sum(f & 1 for f in case["flags"])
        K = case["K"]
        for g in geno_vectors(k, K):
            for anc in anc_options(K, forms=("int",)) if k > 2 else anc_options(K):
                yield g, anc

    def observe(self, case):
        tree = build_tree(case)
        alleles = case_names(case, case["K"])
        out = []
        for g, anc in self.combos(case):
            r = run_mm(tree, g, alleles, anc_arg(anc, alleles))
            out.append(r["exc"] if "exc" in r else [r["anc"], r["muts"]])
        return out

    def oracle(self, case, obs):
        shape = Shape(case["parent"], case["flags"])
        K = case["K"]
        fails, seen = [], set()
        memo_g, opt = None, None
        for (g, anc), r in zip(self.combos(case), obs):
            if isinstance(r, str):
                fs = [("unexpected-exception", r)]
            else:
                if g is not memo_g:
                    memo_g, opt = g, sankoff(shape, g, K + 1)
                fs = check_result(shape, g, anc_index(anc, case_names(case, K)), {"anc": r[0], "muts": r[1]}, opt, K)
            for key, msg in fs:
                if key not in seen:
                    seen.add(key)
                    fails.append((key, "geno=%r anc=%r: %s" % (g, anc, msg)))
        return fails

    def nontrivial(self, case, obs):
        return any(not isinstance(r, str) and r[1] for r in obs)

    def describe(self, case, obs):
        return {"nodes": len(case["parent"]), "samples": sum(f & 1 for f in case["flags"]), "evaluations": "x%d" % len(obs),
                "names": "al" if case.get("names") is None else "other"}


class Malformed(Family):
    """Bad inputs: exception classes of the Python wrapper and the C entry checks."""
    name = "malformed"
    prelude = SingleBase.prelude
    workers = 4

    def generate(self, rng, tier):
        base = {"parent": [2, 2, -1], "flags": [1, 1, 0]}
        specials = [
            {"geno": [-1, -1], "alleles": 2, "anc": None},
            {"geno": [-2, 0], "alleles": 2, "anc": None},
            {"geno": [0, 64], "alleles": 70, "anc": None},
            {"geno": [0, 63], "alleles": 70, "anc": None},
            {"geno": [0, 63], "alleles": 10, "anc": None},
            {"geno": [0, 128], "alleles": 200, "anc": None},
            {"geno": [0, -129], "alleles": 2, "anc": None},
            {"geno": [0], "alleles": 2, "anc": None},
            {"geno": [0, 1, 1], "alleles": 2, "anc": None},
            {"geno": [], "alleles": 2, "anc": None},
            {"geno": [0, 1], "alleles": 2, "anc": ["int", 2]},
            {"geno": [0, 1], "alleles": 2, "anc": ["int", -1]},
            {"geno": [0, 1], "alleles": 70, "anc": ["int", 64]},
            {"geno": [0, 1], "alleles": 70, "anc": ["int", 63]},
            {"geno": [0, 1], "alleles": 2, "anc": ["strmissing", 0]},
            {"geno": [0, 1], "alleles": 1, "anc": None},
            {"geno": [0, 1], "alleles": 0, "anc": None},
            {"geno": [0, 0], "alleles": 0, "anc": None},
            {"geno": [1, 1], "alleles": 1, "anc": ["int", 0]},
            {"geno": [-1, -1], "alleles": 2, "anc": ["int", 1]},
        ]
        for s in specials:
            c = dict(base)
            c.update(s)
            yield c
        for _ in range(200 if tier == "quick" else 3000):
            n = rng.randrange(1, 6)
            parent = [rng.choice([NULL] + list(range(u + 1, n))) for u in range(n)]
            flags = [1 if rng.random() < 0.7 else 0 for _ in range(n)]
            k = sum(flags)
            glen = k if rng.random() < 0.85 else rng.randrange(0, k + 3)
            g = [rng.choice([-2, -1, -1, 0, 0, 1, 1, 2, 3, 63, 64, 127, 128, -128, -129]) if rng.random() < 0.3
                 else rng.choice([-1, 0, 1, 2]) for _ in range(glen)]
            nal = rng.choice([0, 1, 2, 3, 4, 64, 65, 130])
            anc = rng.choice([None, None, ["int", rng.choice([-1, 0, 1, 2, 3, 63, 64, 65])],
                              ["str", rng.randrange(max(nal, 1))] if nal else ["strmissing", 0],
                              ["strmissing", 0]])
            c = {"parent": parent, "flags": extra_flags(rng, flags), "geno": g, "alleles": nal, "anc": anc}
            r = rng.random()
            if r < 0.35 and nal:
                nm = name_scheme(rng, nal)
                if nm is not None:
                    c["names"] = nm
                if anc is not None and anc[0] == "strmissing" and rng.random() < 0.7:
                    # a digit string that is not an allele (must be a ValueError, never an index)
                    cand = [x for x in range(0, nal + 3) if str(x) not in case_names(c, nal)]
                    if cand:
                        c["anc"] = ["numstr", rng.choice(cand)]
            if rng.random() < 0.25:
                lo, hi = (min(g), max(g)) if g else (0, 0)
                ok = ["int64", "int32"] + (["int16"] if -2 ** 15 <= lo and hi < 2 ** 15 else []) + \
                     (["int8"] if -128 <= lo and hi < 128 else []) + (["uint8", "uint32"] if lo >= 0 and hi < 256 else [])
                c["dtype"] = rng.choice(ok)
            elif rng.random() < 0.03:
                c["dtype"] = "float64"
            yield c

    def observe(self, case):
        tree = build_tree(case)
        alleles = case_names(case, case["alleles"])
        o = {"res": run_mm(tree, case["geno"], alleles, anc_arg(case["anc"], alleles), case.get("dtype"))}
        o.update(tree_arrays(tree))
        return o

    def oracle(self, case, obs):
        # the property quantifies over valid inputs; here only: a returned result must still
        # satisfy the property, and the documented preconditions must be rejected
        res = obs["res"]
        g, nal = case["geno"], case["alleles"]
        k = sum(f & 1 for f in case["flags"])
        out = []
        if case.get("dtype") in ("float64", "float32"):
            # empty arrays of any type are let through to np.max; the bounds check comes before the cast
            want = "ValueError" if not g else ("OverflowError" if any(x < -128 or x > 127 for x in g) else "TypeError")
            return [] if res.get("exc") == want else [("float-genotypes-not-" + want.lower(), repr(res))]
        if "exc" in res:
            if res["exc"] not in ("ValueError", "LibraryError", "IndexError", "OverflowError"):
                out.append(("unexpected-exception-class", res["exc"]))
            return out
        anc = case["anc"]
        valid = (len(g) == k and all(-1 <= x < min(nal, 64) for x in g) and any(x >= 0 for x in g)
                 and (anc is None or (anc[0] in ("int", "str", "npint") and 0 <= anc[1] < min(nal, 64))))
        if not valid:
            out.append(("invalid-input-accepted", "geno=%r alleles=%d anc=%r -> %r" % (g, nal, anc, res)))
            return out
        shape = Shape(case["parent"], case["flags"])
        opt = sankoff(shape, g, nal + 1)
        return check_result(shape, g, anc_index(anc, case_names(case, nal)), res, opt, nal)

    def coq_check(self, case, obs):
        if case.get("dtype") in ("float64", "float32"):
            return None                 # TypeError path of safe_np_int_cast: oracle only
        names = case_names(case, case["alleles"])
        return "check_case %s %s %s %s %s" % (coq_arrays(obs), clist(case["geno"]), coq_anc(case["anc"], names),
                                                 clist(tokens_of(names)), coq_result(obs["res"]))

    def describe(self, case, obs):
        return {"outcome": obs["res"].get("exc", "ok")}


# ----------------------------------------------------------------------------
# node ids independent of time order
# ----------------------------------------------------------------------------

def _perm(rng, n):
    """old id -> new id: identity, fully reversed ('ancestors first'), or random"""
    r = rng.random()
    if r < 0.35 or n < 2:
        return None
    if r < 0.6:
        return [n - 1 - u for u in range(n)]
    p = list(range(n))
    rng.shuffle(p)
    return p


def _permute_geno(geno, old_samples, pi):
    """genotypes are indexed by sample rank (samples in increasing node id)"""
    if len(geno) != len(old_samples):
        return geno                    # malformed length: leave as it is
    order = sorted(range(len(old_samples)), key=lambda j: pi[old_samples[j]])
    return [geno[j] for j in order]


def renumber(rng, case):
    """tskit puts no constraint on node ids: renumber the nodes of a generated case (children
    before parents, the enumeration order of all generators here) by a permutation, so that
    parents with smaller ids than their children, mixed orders and samples that are not the
    first nodes all occur.  The tree, the observations per node and the oracle are unchanged."""
    if case.get("big"):
        return case
    if "desc" in case:
        d = case["desc"]
        n = len(d["nodes"])
        pi = _perm(rng, n)
        if pi is None:
            return case
        old_samples = [u for u in range(n) if d["nodes"][u][0] & 1]
        nodes = [None] * n
        for u in range(n):
            nodes[pi[u]] = d["nodes"][u]
        d2 = dict(d)
        d2["nodes"] = nodes
        d2["edges"] = [[l, r, pi[p], pi[c], m] for l, r, p, c, m in d["edges"]]
        d2["mutations"] = [[s_, pi[u], ds, par, t, m] for s_, u, ds, par, t, m in d["mutations"]]
        d2["migrations"] = [[l, r, pi[u], a, b, t, m] for l, r, u, a, b, t, m in d["migrations"]]
        c = dict(case)
        c["desc"] = d2
        c["geno"] = _permute_geno(case["geno"], old_samples, pi)
        return c
    if "parent" not in case:
        return case
    parent, flags = case["parent"], case["flags"]
    n = len(parent)
    pi = _perm(rng, n)
    if pi is None:
        return case
    old_samples = [u for u in range(n) if flags[u] & 1]
    p2, f2 = [NULL] * n, [0] * n
    for u in range(n):
        p2[pi[u]] = NULL if parent[u] == NULL else pi[parent[u]]
        f2[pi[u]] = flags[u]
    c = dict(case)
    c["parent"], c["flags"] = p2, f2
    if "geno" in case:
        c["geno"] = _permute_geno(case["geno"], old_samples, pi)
    if "calls" in case:
        c["calls"] = [dict(call, geno=_permute_geno(call["geno"], old_samples, pi)) for call in case["calls"]]
    return c


def _with_renumbering(cls):
    inner = cls.generate

    def generate(self, rng, tier):
        for case in inner(self, rng, tier):
            yield renumber(rng, case)
    cls.generate = generate
    return cls


FAMILIES = [_with_renumbering(f) for f in
            (Single, Exhaustive, Random, RootThreshold, Boundary, Wide, Reuse, Malformed)]
NOT_COVERED = [
    "cost_matrix argument of tsk_tree_map_mutations (unused by the code)",
    "genotypes given as non-integer arrays (TypeError paths of safe_np_int_cast)",
    "heap behaviour of the C function (allocation sizes are covered by the theorem transitions_bounded on the model only)",
]
