"""C05 — storage and interchange are lossless.

Families
  roundtrip   column-level table collections x {path, file object, k objects on one stream,
              asdict/fromdict, pickle, copy, skip_* loads, TreeSequence.dump/tskit.load};
              oracle = byte equality of every column of asdict() before/after, one object
              consumed per load, EOFError (not a format error) at the end of the stream.
              Correspondence: the Coq model's dump (TskFile.tsk_dump + Kastore.kas_encode)
              of the same columns equals the file tskit wrote byte for byte, and the
              model's load of those bytes returns the same columns.
  equals      pairs of slightly different collections x all 64 ignore_* combinations:
              equals() and assert_equals() agree, and equal the documented definition.
  narrow      offset columns: 32/64-bit narrowing rule (model only + observation of dtype).

This module also holds the helpers shared with C10 (harness/props/c10.py): the
column-level description of a table collection, its construction through the Python
API, canonical forms, an independent parser of the kastore container and a forked
batch runner in which a crash of the C library is an observation.
"""
import copy
import json
import os
import pickle
import select
import shutil
import signal
import struct
import tempfile
import time

from harness.runner import Family
from harness.common import cz, clist

# ---------------------------------------------------------------------------
# The data model as documented (independent of tables.c): per table the fixed-width
# columns (name, numpy dtype) and the ragged columns (name, dtype of the data array).
# ---------------------------------------------------------------------------
TABLES = {
    "individuals": ([("flags", "<u4")], [("location", "<f8"), ("parents", "<i4"), ("metadata", "|i1")], True),
    "nodes": ([("flags", "<u4"), ("time", "<f8"), ("population", "<i4"), ("individual", "<i4")],
              [("metadata", "|i1")], True),
    "edges": ([("left", "<f8"), ("right", "<f8"), ("parent", "<i4"), ("child", "<i4")],
              [("metadata", "|i1")], True),
    "migrations": ([("left", "<f8"), ("right", "<f8"), ("node", "<i4"), ("source", "<i4"),
                    ("dest", "<i4"), ("time", "<f8")], [("metadata", "|i1")], True),
    "sites": ([("position", "<f8")], [("ancestral_state", "|i1"), ("metadata", "|i1")], True),
    "mutations": ([("site", "<i4"), ("node", "<i4"), ("parent", "<i4"), ("time", "<f8")],
                  [("derived_state", "|i1"), ("metadata", "|i1")], True),
    "populations": ([], [("metadata", "|i1")], True),
    "provenances": ([], [("timestamp", "|i1"), ("record", "|i1")], False),
}
TABLE_ORDER = ["individuals", "nodes", "edges", "migrations", "sites", "mutations", "populations",
               "provenances"]
WIDTH = {"<u4": 4, "<i4": 4, "<f8": 8, "|i1": 1}

UNKNOWN_TIME_HEX = "2174696b7374f87f"
F8_SPECIAL = [
    "0000000000000000", "0000000000000080", "000000000000f03f", "000000000000f87f",   # 0, -0, 1, qNaN
    "010000000000f07f", UNKNOWN_TIME_HEX, "000000000000f07f", "000000000000f0ff",     # sNaN, unknown, inf, -inf
    "0100000000000000", "555555555555d53f", "ffffffffffffef7f", "000000000000e0bf",   # denormal, 1/3, max, -0.5
    "0000000000002440", "9a9999999999b93f",
]
I4_SPECIAL = [-1, -1, 0, 0, 1, 2, 3, 2 ** 31 - 1, -2 ** 31, 7]
SCHEMAS = [
    "", "", "",
    '{"codec":"json"}',
    '{"codec":"json","title":"héllo ☃ \U0001F9EC"}',
    '{"codec":"struct","type":"object","properties":{"a":{"type":"number","binaryFormat":"i"}}}',
    "not json at all ß",
    " ",
    '{"codec":"json","description":"' + "x" * 70 + '"}',
]
TIME_UNITS = ["unknown", "unknown", "generations", "", "années", "uncalibrated", "世代", "ticks"]


def rbytes(rng, n):
    pool = (0, 0xFF, 0x0A, 0x7F, 0x80)
    return bytes(rng.choice(pool) if rng.random() < 0.35 else rng.randrange(256) for _ in range(n))


def rand_f8(rng):
    if rng.random() < 0.6:
        return rng.choice(F8_SPECIAL)
    if rng.random() < 0.5:
        return struct.pack("<d", rng.choice([1, 2, 3, 5, 10]) * rng.choice([1, 0.5, 0.25, 1.5])).hex()
    return rbytes(rng, 8).hex()


def rand_i4(rng):
    v = rng.choice(I4_SPECIAL) if rng.random() < 0.7 else rng.randrange(-2 ** 31, 2 ** 31)
    return struct.pack("<i", v).hex()


def rand_col(rng, dtype, n):
    if dtype == "<f8":
        return "".join(rand_f8(rng) for _ in range(n))
    if dtype == "<i4":
        return "".join(rand_i4(rng) for _ in range(n))
    if dtype == "<u4":
        return "".join(struct.pack("<I", rng.choice([0, 1, 1, 2 ** 32 - 1, 1 << 16, rng.randrange(2 ** 32)])).hex()
                       for _ in range(n))
    return rbytes(rng, n).hex()


def rand_ragged(rng, dtype, n, p_empty_col=0.25):
    """-> [data hex, offsets in *elements*]"""
    offs = [0]
    empty = rng.random() < p_empty_col
    for _ in range(n):
        k = 0 if (empty or rng.random() < 0.4) else rng.randrange(1, 5)
        offs.append(offs[-1] + k)
    return [rand_col(rng, dtype, offs[-1]), offs]


def rand_L(rng):
    v = rng.choice([1.0, 1.0, 10.0, 2.5, 1 / 3, 1e-300, 1e300, 4503599627370497.0, 7.0, 0.125])
    return struct.pack("<d", v).hex()


def gen_desc(rng, maxrows=4, tiny=False, minrows=0):
    """A random table collection at the column level; usually NOT a valid tree sequence."""
    d = {"sequence_length": rand_L(rng),
         "time_units": rng.choice(TIME_UNITS),
         "metadata": rbytes(rng, rng.choice([0, 0, 1, 3, 9])).hex(),
         "metadata_schema": rng.choice(SCHEMAS),
         "tables": {}, "indexes": None, "refseq": None}
    for name in TABLE_ORDER:
        fixed, ragged, has_schema = TABLES[name]
        r = rng.random()
        n = 0 if r < (0.6 if tiny else 0.3) else rng.randrange(1, maxrows + 1)
        if minrows:
            n = rng.randrange(minrows, max(minrows, maxrows) + 1)
        t = {"n": n, "cols": {c: rand_col(rng, dt, n) for c, dt in fixed},
             "ragged": {c: rand_ragged(rng, dt, n) for c, dt in ragged}}
        if has_schema:
            t["metadata_schema"] = rng.choice(SCHEMAS)
        d["tables"][name] = t
    ne = d["tables"]["edges"]["n"]
    r = rng.random()
    if r < 0.4:
        perm = list(range(ne))
        rng.shuffle(perm)
        perm2 = list(range(ne))
        rng.shuffle(perm2)
        d["indexes"] = ["".join(struct.pack("<i", x).hex() for x in perm),
                        "".join(struct.pack("<i", x).hex() for x in perm2)]
    elif r < 0.5:
        d["indexes"] = [rand_col(rng, "<i4", ne), rand_col(rng, "<i4", ne)]     # arbitrary content
    if rng.random() < 0.5:
        rs = {"data": rng.choice(["", "", "ACGT", "A", "ÄÖ ☃", "N" * 17]),
              "url": rng.choice(["", "", "http://x.org/é", "u"]),
              "metadata": rbytes(rng, rng.choice([0, 0, 2, 5])).hex(),
              "metadata_schema": rng.choice(SCHEMAS)}
        if rs["data"] or rs["url"] or rs["metadata"] or rs["metadata_schema"]:
            d["refseq"] = rs
    return d


def vary_same_layout(rng, d):
    """Another collection with exactly the same layout (row counts, offsets, string lengths, presence of
    index / reference sequence) but different column contents: its dump has the same descriptors."""
    e = copy.deepcopy(d)
    e["sequence_length"] = struct.pack("<d", struct.unpack("<d", bytes.fromhex(d["sequence_length"]))[0] * 3 + 1).hex()
    e["metadata"] = rbytes(rng, len(d["metadata"]) // 2).hex()
    for name in TABLE_ORDER:
        fixed, ragged, _ = TABLES[name]
        t = e["tables"][name]
        for c, dt in fixed:
            t["cols"][c] = rand_col(rng, dt, t["n"])
        for c, dt in ragged:
            data, offs = t["ragged"][c]
            t["ragged"][c] = [rand_col(rng, dt, offs[-1]), offs]
    if e["refseq"] is not None:
        rs = e["refseq"]
        rs["metadata"] = rbytes(rng, len(rs["metadata"]) // 2).hex()
        rs["data"] = "".join(rng.choice("ACGT") if ch in "ACGTN" else ch for ch in rs["data"])
    return e


def desc_from_tc(tc):
    """Column-level description of an existing table collection (used for the valid
    tree sequences of harness/gen_ts.py)."""
    return desc_from_canon(canon_dict(tc.asdict()))


# ---------------------------------------------------------------------------
# Canonical form: {path: hex | str | list of ints}; every optional entry defaulted,
# offsets as integer lists (independent of the 32/64-bit representation).
# ---------------------------------------------------------------------------

def canon_from_desc(d):
    c = {"sequence_length": d["sequence_length"], "time_units": d["time_units"],
         "metadata": d["metadata"], "metadata_schema": d["metadata_schema"]}
    for name in TABLE_ORDER:
        fixed, ragged, has_schema = TABLES[name]
        t = d["tables"][name]
        for col, _dt in fixed:
            c[name + "/" + col] = t["cols"][col]
        for col, _dt in ragged:
            c[name + "/" + col] = t["ragged"][col][0]
            c[name + "/" + col + "_offset"] = list(t["ragged"][col][1])
        if has_schema:
            c[name + "/metadata_schema"] = t["metadata_schema"]
    c["indexes"] = None if d["indexes"] is None else list(d["indexes"])
    rs = d["refseq"]
    c["refseq"] = None if rs is None else {k: rs[k] for k in ("data", "url", "metadata", "metadata_schema")}
    return c


def canon_dict(ad):
    """Canonical form of TableCollection.asdict() output."""
    import numpy as np
    c = {"sequence_length": struct.pack("<d", ad["sequence_length"]).hex(),
         "time_units": ad.get("time_units", "<absent>"),
         "metadata": bytes(ad.get("metadata", b"")).hex(),
         "metadata_schema": ad.get("metadata_schema", "")}
    for name in TABLE_ORDER:
        fixed, ragged, has_schema = TABLES[name]
        t = ad[name]
        for col, dt in fixed:
            a = t[col]
            if a.dtype != np.dtype(dt):
                c[name + "/" + col] = "dtype:" + str(a.dtype)
            else:
                c[name + "/" + col] = a.tobytes().hex()
        for col, dt in ragged:
            a = t[col]
            c[name + "/" + col] = a.tobytes().hex() if a.dtype == np.dtype(dt) else "dtype:" + str(a.dtype)
            o = t[col + "_offset"]
            c[name + "/" + col + "_offset"] = [int(x) for x in o] if o.dtype.kind == "u" else "dtype:" + str(o.dtype)
        if has_schema:
            c[name + "/metadata_schema"] = t.get("metadata_schema", "")
    ix = ad.get("indexes", {})
    if "edge_insertion_order" in ix or "edge_removal_order" in ix:
        c["indexes"] = [ix["edge_insertion_order"].astype("<i4").tobytes().hex(),
                        ix["edge_removal_order"].astype("<i4").tobytes().hex()]
    else:
        c["indexes"] = None
    rs = ad.get("reference_sequence")
    if rs is None:
        c["refseq"] = None
    else:
        c["refseq"] = {"data": rs.get("data", ""), "url": rs.get("url", ""),
                       "metadata": bytes(rs.get("metadata", b"")).hex(),
                       "metadata_schema": rs.get("metadata_schema", "")}
    return c


def desc_from_canon(c):
    d = {k: c[k] for k in ("sequence_length", "time_units", "metadata", "metadata_schema")}
    d["tables"] = {}
    for name in TABLE_ORDER:
        fixed, ragged, has_schema = TABLES[name]
        t = {"cols": {col: c[name + "/" + col] for col, _ in fixed},
             "ragged": {col: [c[name + "/" + col], list(c[name + "/" + col + "_offset"])] for col, _ in ragged}}
        t["n"] = len(t["ragged"][ragged[0][0]][1]) - 1
        if has_schema:
            t["metadata_schema"] = c[name + "/metadata_schema"]
        d["tables"][name] = t
    d["indexes"] = c["indexes"]
    d["refseq"] = c["refseq"]
    return d


def canon_diff(a, b, limit=6):
    out = []
    for k in sorted(set(a) | set(b)):
        if a.get(k, "<absent>") != b.get(k, "<absent>"):
            out.append([k, _short(a.get(k, "<absent>")), _short(b.get(k, "<absent>"))])
            if len(out) >= limit:
                break
    return out


def _short(x):
    s = json.dumps(x, ensure_ascii=True)
    return s if len(s) < 160 else s[:150] + "...(%d)" % len(s)


# ---------------------------------------------------------------------------
# Building the collection through the public API
# ---------------------------------------------------------------------------

LAYOUT = "contig"      # how _arr hands arrays to the API: contig | strided | reversed


def _lay(a):
    """The same values as a non-contiguous view (every 2nd element of a larger buffer / negative
    stride); the API must give the result it gives for the contiguous copy."""
    import numpy as np
    if LAYOUT == "strided":
        big = np.zeros(2 * len(a) + 1, dtype=a.dtype)
        big[1::2] = a
        big[0::2] = a[:1] if len(a) else 0
        return big[1::2]
    if LAYOUT == "reversed":
        return a[::-1].copy()[::-1]
    return a


def _arr(hexs, dt):
    import numpy as np
    return _lay(np.frombuffer(bytes.fromhex(hexs), dtype=dt).copy())


def dict_from_desc(d, offset64=False):
    import numpy as np
    out = {"encoding_version": (1, 6),
           "sequence_length": struct.unpack("<d", bytes.fromhex(d["sequence_length"]))[0],
           "time_units": d["time_units"]}
    if d["metadata"] or True:
        out["metadata"] = bytes.fromhex(d["metadata"])
    out["metadata_schema"] = d["metadata_schema"]
    for name in TABLE_ORDER:
        fixed, ragged, has_schema = TABLES[name]
        t = d["tables"][name]
        td = {}
        for col, dt in fixed:
            td[col] = _arr(t["cols"][col], dt)
        for col, dt in ragged:
            td[col] = _arr(t["ragged"][col][0], dt)
            td[col + "_offset"] = _lay(np.array(t["ragged"][col][1], dtype=np.uint64 if offset64 else np.uint32))
        if has_schema:
            td["metadata_schema"] = t["metadata_schema"]
        out[name] = td
    if d["indexes"] is not None:
        out["indexes"] = {"edge_insertion_order": _arr(d["indexes"][0], "<i4"),
                          "edge_removal_order": _arr(d["indexes"][1], "<i4")}
    if d["refseq"] is not None:
        rs = d["refseq"]
        out["reference_sequence"] = {"data": rs["data"], "url": rs["url"],
                                     "metadata": bytes.fromhex(rs["metadata"]),
                                     "metadata_schema": rs["metadata_schema"]}
    return out


def build_tc(d, how="fromdict"):
    global LAYOUT
    if "_" in how:          # fromdict_strided, fromdict_reversed, setcols_strided, ...
        base, LAYOUT = how.split("_")
        try:
            return build_tc(d, base)
        finally:
            LAYOUT = "contig"
    import tskit
    if how in ("fromdict", "fromdict64"):
        return tskit.TableCollection.fromdict(dict_from_desc(d, offset64=(how == "fromdict64")))
    # column setters of the Python table classes
    import numpy as np
    tc = tskit.TableCollection(struct.unpack("<d", bytes.fromhex(d["sequence_length"]))[0])
    tc.time_units = d["time_units"]
    tc._ll_tables.metadata = bytes.fromhex(d["metadata"])
    tc._ll_tables.metadata_schema = d["metadata_schema"]
    for name in TABLE_ORDER:
        fixed, ragged, has_schema = TABLES[name]
        t = d["tables"][name]
        kw = {}
        for col, dt in fixed:
            kw[col] = _arr(t["cols"][col], dt)
        for col, dt in ragged:
            kw[col] = _arr(t["ragged"][col][0], dt)
            kw[col + "_offset"] = _lay(np.array(t["ragged"][col][1], dtype=np.uint64))
        table = getattr(tc, name)
        table.set_columns(**kw)
        if has_schema:
            table.ll_table.metadata_schema = t["metadata_schema"]
    if d["indexes"] is not None:
        tc.indexes = tskit.TableCollectionIndexes(edge_insertion_order=_arr(d["indexes"][0], "<i4"),
                                                  edge_removal_order=_arr(d["indexes"][1], "<i4"))
    if d["refseq"] is not None:
        rs = d["refseq"]
        tc.reference_sequence.data = rs["data"]
        tc.reference_sequence.url = rs["url"]
        tc._ll_tables.reference_sequence.metadata = bytes.fromhex(rs["metadata"])
        tc._ll_tables.reference_sequence.metadata_schema = rs["metadata_schema"]
    return tc


# ---------------------------------------------------------------------------
# Independent parser of the kastore container (format as documented in kastore's
# docs: 64-byte header, 64-byte descriptors, keys, 8-byte aligned arrays).
# ---------------------------------------------------------------------------
KAS_SIZE = [1, 1, 2, 2, 4, 4, 8, 8, 4, 8]


def kas_parse(b):
    """-> dict(num_items, file_size, items=[(key bytes, type, array_start, array_len, key_start, key_len)])"""
    n = struct.unpack("<I", b[12:16])[0]
    fs = struct.unpack("<Q", b[16:24])[0]
    items = []
    for j in range(n):
        ds = b[64 + 64 * j:128 + 64 * j]
        ks, kl, as_, al = struct.unpack("<QQQQ", ds[8:40])
        items.append({"key": bytes(b[ks:ks + kl]), "type": ds[0], "array_start": as_, "array_len": al,
                      "key_start": ks, "key_len": kl})
    return {"num_items": n, "file_size": fs, "items": items,
            "major": struct.unpack("<H", b[8:10])[0], "minor": struct.unpack("<H", b[10:12])[0]}


def kas_items_of(b):
    """[(key, type, array_len, data bytes)] in file order."""
    p = kas_parse(b)
    out = []
    for it in p["items"]:
        sz = it["array_len"] * KAS_SIZE[it["type"]]
        out.append((it["key"], it["type"], it["array_len"], bytes(b[it["array_start"]:it["array_start"] + sz])))
    return out


# ---------------------------------------------------------------------------
# Forked batch runner: fn(item) -> JSON-able; a crash/hang of the C library while
# processing one item becomes {"crash": ...} / {"hang": true} for that item only.
# ---------------------------------------------------------------------------

def forked_map(fn, items, per_item_timeout=10.0, nproc=6):
    """Order-preserving map in `nproc` forked children (round-robin split)."""
    n = len(items)
    if n == 0:
        return []
    nproc = max(1, min(nproc, n // 50 + 1))
    res = [None] * n
    lanes = [list(range(k, n, nproc)) for k in range(nproc)]
    state = []

    def spawn(lane, at):
        r, w = os.pipe()
        pid = os.fork()
        if pid == 0:
            try:
                os.close(r)
                signal.signal(signal.SIGINT, signal.SIG_DFL)
                out = os.fdopen(w, "w")
                for i in lane[at:]:
                    try:
                        o = fn(items[i])
                    except BaseException as e:   # noqa: B036 - adapter bug, reported
                        o = {"adapter_exception": "%s: %s" % (type(e).__name__, e)}
                    out.write(json.dumps([i, o]) + "\n")
                    out.flush()
                out.close()
            finally:
                os._exit(0)
        os.close(w)
        return {"pid": pid, "fd": r, "buf": b"", "lane": lane, "at": at, "last": time.time()}

    for lane in lanes:
        state.append(spawn(lane, 0))
    while state:
        rl, _, _ = select.select([s["fd"] for s in state], [], [], 0.25)
        now = time.time()
        for s in list(state):
            died = hung = False
            if s["fd"] in rl:
                data = os.read(s["fd"], 1 << 16)
                if data:
                    s["buf"] += data
                    while b"\n" in s["buf"]:
                        line, s["buf"] = s["buf"].split(b"\n", 1)
                        i, o = json.loads(line)
                        res[i] = o
                        s["at"] += 1
                        s["last"] = now
                    continue
                died = True
            elif now - s["last"] > per_item_timeout:
                os.kill(s["pid"], signal.SIGKILL)
                hung = True
            else:
                continue
            os.close(s["fd"])
            _, status = os.waitpid(s["pid"], 0)
            state.remove(s)
            if s["at"] < len(s["lane"]):
                i = s["lane"][s["at"]]
                if hung:
                    res[i] = {"hang": True}
                else:
                    sig = os.WTERMSIG(status) if os.WIFSIGNALED(status) else None
                    res[i] = {"crash": {"signal": sig,
                                        "exit": os.WEXITSTATUS(status) if os.WIFEXITED(status) else None}}
                if s["at"] + 1 < len(s["lane"]):
                    state.append(spawn(s["lane"], s["at"] + 1))
    return res


def exc_name(e):
    """Exception class + the library's error identifier when there is one."""
    import re
    m = re.search(r"\((TSK_ERR_[A-Z0-9_]+)\)", str(e))
    return type(e).__name__ + (":" + m.group(1) if m else "")


class Scratch:
    def __enter__(self):
        base = os.environ.get("VERIF_SCRATCH", "/var/tmp/tskit-verif")
        os.makedirs(os.path.join(base, "tmp"), exist_ok=True)
        self.d = tempfile.mkdtemp(prefix="c05-", dir=os.path.join(base, "tmp"))
        return self.d

    def __exit__(self, *a):
        shutil.rmtree(self.d, ignore_errors=True)


def fd_pos(f):
    return os.lseek(f.fileno(), 0, os.SEEK_CUR)


# ---------------------------------------------------------------------------
# Coq term printers for the shared model (coq/theories/C05)
# ---------------------------------------------------------------------------

def cbytes_hex(h):
    return clist(bytes.fromhex(h))


def cstr(s):
    return clist(s.encode("utf8"))


_SCHEMA = None


def model_schema():
    """The schema lists of Gen/Generated.v as Python objects (same extractor, same source)."""
    global _SCHEMA
    if _SCHEMA is None:
        import importlib.util
        from harness import common
        path = os.path.join(common.VERIF, "translator", "facts_c05.py")
        spec = importlib.util.spec_from_file_location("facts_c05", path)
        mod = importlib.util.module_from_spec(spec)
        spec.loader.exec_module(mod)

        def die(msg):
            raise RuntimeError(msg)
        _SCHEMA = mod.schema(lambda rel: open(os.path.join(common.REPO, rel)).read(), die)
    return _SCHEMA


def coq_tc(d, uuid):
    """Coq term of type C05.TskFile.tcoll for a description (tables and columns in the order of
    Generated.tsk_table_schemas = the read schema of tables.c)."""
    sc = model_schema()

    def tab(t):
        ts = sc["tables"][t]
        keys = [k for k, _, _ in ts["read_cols"]] + [k for k, _, _ in ts["read_ragged"]]
        name = keys[0].split("/")[0]
        td = d["tables"][name]
        cols = "[" + "; ".join(cbytes_hex(td["cols"][k.split("/")[1]]) for k, _, _ in ts["read_cols"]) + "]"
        rag = "[" + "; ".join("(%s, %s)" % (cbytes_hex(td["ragged"][k.split("/")[1]][0]),
                                            clist(td["ragged"][k.split("/")[1]][1]))
                              for k, _, _ in ts["read_ragged"]) + "]"
        sch = cstr(td["metadata_schema"]) if ts["read_props"] else "[]"
        return "(mk_table %s %s %s %s)" % (cz(td["n"]), cols, rag, sch)
    ix = "None" if d["indexes"] is None else "(Some (%s, %s))" % (cbytes_hex(d["indexes"][0]), cbytes_hex(d["indexes"][1]))
    rs = d["refseq"]
    rst = "None" if rs is None else "(Some (%s, %s, %s, %s))" % (
        cstr(rs["data"]), cstr(rs["url"]), cbytes_hex(rs["metadata"]), cstr(rs["metadata_schema"]))
    return "(mk_tcoll %s %s %s %s %s [%s] %s %s)" % (
        cbytes_hex(d["sequence_length"]), clist(uuid), cstr(d["time_units"]), cbytes_hex(d["metadata"]),
        cstr(d["metadata_schema"]), "; ".join(tab(t) for t in sc["load_order"]), ix, rst)


PRELUDE = ("From TskVerif Require Import Base.Common Gen.Generated C05.Bytes C05.Kastore C05.TskFile C10.Corrupt.\n"
           "Open Scope Z_scope.")


# ---------------------------------------------------------------------------
# Family: roundtrip
# ---------------------------------------------------------------------------

def valid_ts_desc(rng, rich=False):
    """rich: every id column of every table is non-empty (migrations between >= 2 populations, individuals
    with parents, nodes with individuals and populations, >= 2 edges, a mutation with a parent mutation)."""
    from harness import gen_ts
    for _ in range(400 if rich else 1):
        g = gen_ts.random_desc(rng, max_nodes=6, max_L=5, migrations=(True if rich else rng.random() < 0.3))
        if not rich:
            break
        if g["migrations"] and any(i[2] for i in g["individuals"]) and any(n[2] >= 0 for n in g["nodes"]) \
                and any(n[3] >= 0 for n in g["nodes"]) and len(g["edges"]) >= 2 and any(m[3] >= 0 for m in g["mutations"]):
            break
    tc = gen_ts.build_tables(g)
    tc.time_units = rng.choice(TIME_UNITS)
    if rng.random() < 0.5:
        tc.reference_sequence.data = "ACGT"
    if rng.random() < 0.5:
        tc._ll_tables.metadata_schema = '{"codec":"json"}'
        tc._ll_tables.metadata = b'{"a":1}'
    if rng.random() < 0.4:
        tc.provenances.add_row(record='{"x":"é"}', timestamp="2020-01-01T00:00:00")
    return desc_from_tc(tc)


class Roundtrip(Family):
    name = "roundtrip"
    prelude = PRELUDE
    timeout = 60.0
    shard = 13
    workers = 8

    def generate(self, rng, tier):
        n_any, n_valid = (90, 30) if tier == "quick" else (800, 200)
        # a few fixed corner cases first
        empty = gen_desc(rng, tiny=True)
        for t in empty["tables"].values():
            t["n"] = 0
            t["cols"] = {c: "" for c in t["cols"]}
            t["ragged"] = {c: ["", [0]] for c in t["ragged"]}
        empty["indexes"] = None
        yield {"descs": [empty], "build": "fromdict", "buffered": True, "valid": False}
        for i in range(n_any):
            k = rng.choice([1, 1, 1, 2, 3])
            descs = [gen_desc(rng, maxrows=rng.choice([1, 2, 4, 6]), tiny=rng.random() < 0.2) for _ in range(k)]
            if i % 4 == 1:      # objects that share their layout but differ in content, and one that differs in layout
                base = gen_desc(rng, maxrows=3, minrows=1)
                descs = [base, vary_same_layout(rng, base)] + ([gen_desc(rng, maxrows=2)] if i % 8 == 1 else [])
            yield {"descs": descs, "build": rng.choice(["fromdict", "fromdict64", "setcols", "fromdict_strided",
                                                         "fromdict_reversed", "setcols_strided", "setcols_reversed"]),
                   "buffered": rng.random() < 0.5, "valid": False, "tail_k": rng.choice([0, 1, 1, 2])}
        for i in range(n_valid):
            k = rng.choice([1, 1, 2])
            yield {"descs": [valid_ts_desc(rng) for _ in range(k)], "build": "fromdict",
                   "buffered": rng.random() < 0.5, "valid": True, "tail_k": rng.choice([0, 1, 2])}

    # -- implementation side -------------------------------------------------
    def observe(self, case):
        import tskit
        obs = {"built": [], "routes": {}, "stream": None, "file": None}
        tcs = []
        for d in case["descs"]:
            tc = build_tc(d, case["build"])
            tcs.append(tc)
            obs["built"].append(canon_dict(tc.asdict()))
        tc0, c0 = tcs[0], obs["built"][0]
        R = obs["routes"]

        def rec(name, f):
            try:
                got = f()
                if not isinstance(got, dict):       # a collection: equals() must hold as well
                    if not tc0.equals(got):
                        R[name + ":equals"] = "the result is not equals() to the original"
                    if got.has_index() != tc0.has_index():
                        R[name + ":has_index"] = "has_index() %s -> %s" % (tc0.has_index(), got.has_index())
                    got = canon_dict(got.asdict())
                R[name] = canon_diff(c0, got)
            except Exception as e:
                R[name] = "raised " + exc_name(e) + ": " + str(e)[:200]

        with Scratch() as tmp:
            p = os.path.join(tmp, "a.trees")
            tc0.dump(p)
            fb = open(p, "rb").read()
            obs["file"] = fb.hex()
            rec("path", lambda: tskit.TableCollection.load(p))
            import pathlib
            rec("pathlib", lambda: canon_dict(tskit.TableCollection.load(pathlib.Path(p)).asdict()))

            def fileobj():
                q = os.path.join(tmp, "b.trees")
                with open(q, "wb") as f:
                    tc0.dump(f)
                with open(q, "rb") as f:
                    return canon_dict(tskit.TableCollection.load(f).asdict())
            rec("fileobj", fileobj)
            rec("dict", lambda: tskit.TableCollection.fromdict(tc0.asdict()))
            rec("dict64", lambda: canon_dict(tskit.TableCollection.fromdict(tc0.asdict(force_offset_64=True)).asdict()))
            for proto in (2, pickle.HIGHEST_PROTOCOL):
                rec("pickle%d" % proto, lambda: pickle.loads(pickle.dumps(tc0, protocol=proto)))
            rec("copy", lambda: tc0.copy())
            rec("deepcopy", lambda: canon_dict(copy.deepcopy(tc0).asdict()))

            # error then reuse: a failing fromdict / load INTO an existing low-level object, followed by
            # the valid call on the same object, must give what a fresh object gives
            def reuse(bad_kind):
                import _tskit
                good = tc0.asdict()
                bad = dict(good)
                if bad_kind == "offset":
                    t = dict(good["mutations"])
                    o = t["metadata_offset"].astype("uint64").copy()
                    o[0] = 1                                  # offsets must start at 0: rejected late
                    t["metadata_offset"] = o
                    bad["mutations"] = t
                elif bad_kind == "missing":
                    del bad["provenances"]
                elif bad_kind == "length":
                    t = dict(good["provenances"])
                    t["record_offset"] = t["record_offset"][:-1] if len(t["record_offset"]) > 1 else t["record_offset"].astype("int8").view("int8")[:0]
                    bad["provenances"] = t
                # (fromdict into an object that already holds other data keeps that object's optional
                # fields when the dict omits them - "leave the default" - so the object is fresh here, as in
                # TableCollection.fromdict / __setstate__)
                ll = _tskit.TableCollection(1.0)
                try:
                    ll.fromdict(bad)
                    return [["reuse", "the malformed dict was accepted", bad_kind]]
                except Exception:
                    pass
                ll.fromdict(good)
                return canon_dict(ll.asdict())
            tc_other = tcs[-1] if len(tcs) > 1 else build_tc(case["descs"][0], "fromdict")
            for kind in ("offset", "missing", "length"):
                rec("reuse-fromdict-" + kind, lambda kind=kind: reuse(kind))

            def reuse_load():
                import _tskit
                ll = _tskit.TableCollection(1.0)
                ll.fromdict(tc_other.asdict())
                bad = os.path.join(tmp, "bad.trees")
                with open(bad, "wb") as f:
                    f.write(fb[:len(fb) - 9])
                with open(bad, "rb") as f:
                    try:
                        ll.load(f)
                        return [["reuse", "truncated file accepted", ""]]
                    except Exception:
                        pass
                with open(p, "rb") as f:
                    ll.load(f)
                return canon_dict(ll.asdict())
            rec("reuse-load", reuse_load)

            def skip_tables():
                got = canon_dict(tskit.TableCollection.load(p, skip_tables=True).asdict())
                exp = dict(c0)
                blank = canon_dict(tskit.TableCollection(1).asdict())
                for k in exp:
                    if "/" in k and not k.endswith("metadata_schema"):
                        exp[k] = blank[k]
                    elif "/" in k:
                        exp[k] = blank[k]
                exp["indexes"] = got["indexes"]       # an index is built over the empty edge table
                return canon_diff(exp, got)
            try:
                R["skip_tables"] = skip_tables()
            except Exception as e:
                R["skip_tables"] = "raised " + exc_name(e)

            def skip_ref():
                got = canon_dict(tskit.TableCollection.load(p, skip_reference_sequence=True).asdict())
                exp = dict(c0)
                exp["refseq"] = None
                return canon_diff(exp, got)
            try:
                R["skip_refseq"] = skip_ref()
            except Exception as e:
                R["skip_refseq"] = "raised " + exc_name(e)

            # k objects back to back on one stream, read until EOFError
            q = os.path.join(tmp, "s.trees")
            sizes = []
            with open(q, "wb", **({} if case["buffered"] else {"buffering": 0})) as f:
                for tc in tcs:
                    tc.dump(f)
                    f.flush()
                    sizes.append(os.path.getsize(q))
            st = {"sizes": sizes, "loads": [], "end": None, "end2": None}
            with open(q, "rb", **({} if case["buffered"] else {"buffering": 0})) as f:
                for k in range(len(tcs)):
                    try:
                        got = tskit.TableCollection.load(f)
                        st["loads"].append({"diff": canon_diff(obs["built"][k], canon_dict(got.asdict())),
                                            "pos": fd_pos(f)})
                    except Exception as e:
                        st["loads"].append({"raised": exc_name(e), "pos": fd_pos(f)})
                for fld in ("end", "end2"):
                    try:
                        tskit.TableCollection.load(f)
                        st[fld] = "loaded"
                    except Exception as e:
                        st[fld] = exc_name(e)
            # the same stream read with the skip_* options
            st["skip"] = {}
            for kwname, kw in (("skip_tables", {"skip_tables": True}),
                               ("skip_reference_sequence", {"skip_reference_sequence": True})):
                with open(q, "rb") as f:
                    r = []
                    for k in range(len(tcs)):
                        try:
                            tskit.TableCollection.load(f, **kw)
                            r.append(["ok", fd_pos(f)])
                        except Exception as e:
                            r.append([exc_name(e), fd_pos(f)])
                    try:
                        tskit.TableCollection.load(f, **kw)
                        r.append(["loaded", fd_pos(f)])
                    except Exception as e:
                        r.append([exc_name(e), fd_pos(f)])
                st["skip"][kwname] = r
            # mixed reads at store offsets > 0: j eager loads, then object j with a skip_* option (lazy
            # kastore path); the content must be object j's (restricted by the option), also reached by seeking
            blank = canon_dict(tskit.TableCollection(1).asdict())
            mixed = []
            for j in range(1, len(tcs)):
                for kwname, kw in (("skip_tables", {"skip_tables": True}),
                                   ("skip_reference_sequence", {"skip_reference_sequence": True}),
                                   ("both", {"skip_tables": True, "skip_reference_sequence": True})):
                    for how in ("eager-then-lazy", "seek"):
                        try:
                            with open(q, "rb", **({} if case["buffered"] else {"buffering": 0})) as f:
                                if how == "seek":
                                    f.seek(sizes[j - 1])
                                else:
                                    for _ in range(j):
                                        tskit.TableCollection.load(f)
                                got = canon_dict(tskit.TableCollection.load(f, **kw).asdict())
                            exp = dict(obs["built"][j])
                            if "skip_tables" in kw:
                                for key in exp:
                                    if "/" in key:
                                        exp[key] = blank[key]
                                exp["indexes"] = got["indexes"]
                            if "skip_reference_sequence" in kw:
                                exp["refseq"] = None
                            mixed.append([j, kwname, how, canon_diff(exp, got)])
                        except Exception as e:
                            mixed.append([j, kwname, how, "raised " + exc_name(e)])
            st["mixed"] = mixed
            obs["files"] = []
            off = 0
            allb = open(q, "rb").read()
            for sz in sizes:
                obs["files"].append(allb[off:sz].hex())
                off = sz
            # truncated tail: after k complete objects the stream ends inside a further object (every
            # header offset 1..16, then a grid up to 65, descriptor/key/array cuts).  Only a stream that
            # ends exactly at an object boundary may give EOFError.
            cuts = sorted(set(list(range(1, 17)) + [20, 24, 31, 32, 33, 40, 48, 56, 62, 63, 64, 65, 100, 128, 129,
                                                    len(fb) // 2, len(fb) - 37, len(fb) - 9, len(fb) - 1]))
            cuts = [c for c in cuts if 0 < c < len(fb)]
            tails = []

            def outcome_of(fn):
                try:
                    fn()
                    return "loaded"
                except Exception as e:
                    return exc_name(e)
            tq = os.path.join(tmp, "tail.trees")
            nfull = case.get("tail_k", 1)
            for c in cuts:
                # (A) file object, eager: nfull complete objects, then the cut one
                with open(tq, "wb") as f:
                    for _ in range(nfull):
                        f.write(fb)
                    f.write(fb[:c])
                with open(tq, "rb", **({} if case["buffered"] else {"buffering": 0})) as f:
                    okc = 0
                    for _ in range(nfull):
                        okc += outcome_of(lambda: tskit.TableCollection.load(f)) == "loaded"
                    o = outcome_of(lambda: tskit.TableCollection.load(f))
                    tails.append(["fileobj", c, o if okc == nfull else "complete objects did not load"])
                if case["valid"] and c in (1, 7, 8, 9, 16, 63, 64, 65, cuts[-1], cuts[-3]):
                    with open(tq, "rb") as f:
                        okc = 0
                        for _ in range(nfull):
                            okc += outcome_of(lambda: tskit.load(f)) == "loaded"
                        o = outcome_of(lambda: tskit.load(f))
                        tails.append(["tskit.load", c, o if okc == nfull else "complete objects did not load"])
                # (B) a file that consists of the cut object only: path, eager and skip_* read paths
                if c <= 16 or c in (63, 64, 65, cuts[-1], cuts[-2], cuts[-3]):
                    with open(tq, "wb") as f:
                        f.write(fb[:c])
                    tails.append(["path", c, outcome_of(lambda: tskit.TableCollection.load(tq))])
                    tails.append(["path:skip_tables", c, outcome_of(lambda: tskit.TableCollection.load(tq, skip_tables=True))])
                    tails.append(["path:skip_reference_sequence", c,
                                  outcome_of(lambda: tskit.TableCollection.load(tq, skip_reference_sequence=True))])
                # (C) a pipe (not seekable): one complete object, then the cut one
                if c in (1, 8, 9, 15, 16, 63, 64, cuts[-1]) and len(fb) + c < 60000:
                    # everything fits into the pipe buffer: write, close the write end, then read
                    # (a feeder thread would deadlock: the C reader blocks while holding the GIL)
                    r, w = os.pipe()
                    with os.fdopen(w, "wb") as wf:
                        wf.write(fb)
                        wf.write(fb[:c])
                    with os.fdopen(r, "rb", buffering=0) as rf:
                        first = outcome_of(lambda: tskit.TableCollection.load(rf))
                        o = outcome_of(lambda: tskit.TableCollection.load(rf))
                    tails.append(["pipe", c, o if first == "loaded" else "complete object did not load: " + first])
            st["tails"] = tails
            # a file that is not a kastore at all must give a *different* exception
            junk = os.path.join(tmp, "junk")
            with open(junk, "wb") as f:
                f.write(b"x" * 70)
            try:
                tskit.TableCollection.load(junk)
                st["junk"] = "loaded"
            except Exception as e:
                st["junk"] = exc_name(e)
            obs["stream"] = st

            if case["valid"]:
                def ts_route():
                    ts = tc0.tree_sequence()
                    q2 = os.path.join(tmp, "t.trees")
                    ts.dump(q2)
                    a = canon_dict(tskit.load(q2).dump_tables().asdict())
                    with open(q2, "ab") as f:
                        ts.dump(f)
                    with open(q2, "rb") as f:
                        b1 = canon_dict(tskit.load(f).dump_tables().asdict())
                        b2 = canon_dict(tskit.load(f).dump_tables().asdict())
                        try:
                            tskit.load(f)
                            end = "loaded"
                        except Exception as e:
                            end = exc_name(e)
                    c = canon_dict(pickle.loads(pickle.dumps(ts)).dump_tables().asdict())
                    d = canon_diff(c0, a) + canon_diff(c0, b1) + canon_diff(c0, b2) + canon_diff(c0, c)
                    if end != "EOFError":
                        d.append(["ts-stream-end", "EOFError", end])
                    return d
                try:
                    R["treeseq"] = ts_route()
                except Exception as e:
                    R["treeseq"] = "raised " + exc_name(e) + ": " + str(e)[:200]
        return obs

    # -- property oracle -------------------------------------------------------
    def oracle(self, case, obs):
        out = []
        for k, d in enumerate(case["descs"]):
            diff = canon_diff(canon_from_desc(d), obs["built"][k])
            if diff:
                out.append(("build-%s" % case["build"], "asdict() of the built collection differs from the columns given: %s" % diff))
        for name, r in obs["routes"].items():
            if r:
                out.append(("route-" + name, "not lossless via %s: %s" % (name, r)))
        st = obs["stream"]
        for k, ld in enumerate(st["loads"]):
            if "raised" in ld:
                out.append(("stream-load", "object %d on the stream raised %s" % (k, ld["raised"])))
                continue
            if ld["diff"]:
                out.append(("stream-content", "object %d on the stream differs: %s" % (k, ld["diff"])))
            if ld["pos"] != st["sizes"][k]:
                out.append(("stream-consumed", "after object %d the stream is at %d, object ends at %d" % (k, ld["pos"], st["sizes"][k])))
        for kwname, r in st["skip"].items():
            exp = [["ok", sz] for sz in st["sizes"]] + [["EOFError", st["sizes"][-1]]]
            if r != exp:
                out.append(("stream-consumed:" + kwname, "loads with %s=True on a stream of %d objects gave %s, expected %s" % (kwname, len(st["sizes"]), r, exp)))
        for j, kwname, how, r in st.get("mixed", []):
            if r:
                out.append(("stream-mixed-lazy:" + kwname, "object %d of the stream read with %s after %s is not the %d-th dumped object: %s"
                            % (j, kwname, how, j, r)))
        for via, c, o in st.get("tails", []):
            if o == "EOFError":
                out.append(("stream-truncated-tail:eof:" + via.split(":")[0],
                            "a stream ending %d bytes into a further object was reported as a clean end-of-stream (EOFError) via %s" % (c, via)))
            elif o == "loaded":
                out.append(("stream-truncated-tail:loaded:" + via.split(":")[0], "a trailing object cut after %d bytes was loaded via %s" % (c, via)))
            elif o.startswith("complete object"):
                out.append(("stream-tail-setup", "%s (%s, cut %d)" % (o, via, c)))
            elif o.split(":")[0] not in ("FileFormatError", "LibraryError", "VersionTooOldError", "VersionTooNewError", "OSError"):
                out.append(("stream-truncated-tail:exception:" + o.split(":")[0], "cut %d via %s: %s" % (c, via, o)))
        if st["end"] != "EOFError" or st["end2"] != "EOFError":
            out.append(("stream-eof", "end of stream gave %s / %s, expected EOFError" % (st["end"], st["end2"])))
        if st["junk"] == "EOFError" or st["junk"] == "loaded":
            out.append(("eof-not-distinct", "a 70-byte non-kastore file gave %s" % st["junk"]))
        return out

    # -- model correspondence ----------------------------------------------------
    def coq_check(self, case, obs):
        fb = bytes.fromhex(obs["file"])
        if len(fb) > 9000:
            return None
        items = {k: v for (k, _t, _n, v) in kas_items_of(fb)}
        uuid = items[b"uuid"]
        d = case["descs"][0]
        tc = coq_tc(d, uuid)
        # model dump = file bytes; model load of the file = the same collection
        from harness.props import c10
        tl = []
        for via, c, o in obs["stream"].get("tails", []):
            if via.startswith("path") and o not in ("loaded",) and not o.startswith("complete"):
                sk = "true" if via == "path:skip_tables" else "false"
                sr = "true" if via == "path:skip_reference_sequence" else "false"
                tl.append("verdict_agrees (load_verdict %s %s (firstn (Z.to_nat %d) f)) %s" % (sk, sr, c, c10.vcode(o, "tc")))
        tails_term = " && ".join(tl) if tl else "true"
        # object 1 of the stream, followed by more bytes, read lazily: the model returns object 1's
        # content restricted by the option (tied to the implementation by the stream-mixed-lazy oracle)
        if len(case["descs"]) > 1 and len(obs.get("files", [])) > 1 and len(bytes.fromhex(obs["files"][1])) <= 9000:
            f1 = bytes.fromhex(obs["files"][1])
            uuid1 = {k: v for (k, _t, _n, v) in kas_items_of(f1)}[b"uuid"]
            tails_term += (" && (let f1 := %s in let t1 := tc_normalise %s in "
                           "match tsk_load_bytes false true (f1 ++ f) with Ok (x, _) => tcoll_eqb x "
                           "(mk_tcoll (tc_L t1) (tc_uuid t1) (tc_time_units t1) (tc_metadata t1) (tc_metadata_schema t1) (tc_tables t1) (tc_index t1) None) | _ => false end"
                           " && match tsk_load_bytes true false (f1 ++ f) with Ok (x, _) => zlist_eqb (tc_L x) (tc_L t1) && zlist_eqb (tc_metadata x) (tc_metadata t1)"
                           " && zlist_eqb (tc_time_units x) (tc_time_units t1) && zlist_eqb (tc_uuid x) (tc_uuid t1)"
                           " && tcoll_eqb (mk_tcoll [] [] [] [] [] [] None (tc_refseq x)) (mk_tcoll [] [] [] [] [] [] None (tc_refseq t1)) | _ => false end)"
                           % (clist(f1), coq_tc(case["descs"][1], uuid1)))
        return ("(let f := " + clist(fb) + " in let tc := " + tc + " in "
                "(" + tails_term + ") && "
                "zlist_eqb (tsk_dump_bytes tc) f && "
                "match tsk_load_bytes false false f with Ok (tc', rest) => tcoll_eqb tc' (tc_normalise tc) && zlist_eqb rest [] | _ => false end)")

    def nontrivial(self, case, obs):
        return any(t["n"] > 0 for d in case["descs"] for t in d["tables"].values())

    def describe(self, case, obs):
        d = case["descs"][0]
        return {"build": case["build"], "k_stream": len(case["descs"]), "valid_ts": case["valid"],
                "refseq": d["refseq"] is not None, "indexes": d["indexes"] is not None,
                "rows": min(sum(t["n"] for t in d["tables"].values()) // 5, 6)}

    def shrink(self, case):
        if len(case["descs"]) > 1:
            for k in range(len(case["descs"])):
                c = copy.deepcopy(case)
                del c["descs"][k]
                yield c
        d = case["descs"][0]
        for name in TABLE_ORDER:
            t = d["tables"][name]
            if t["n"] > 0 and not (name == "edges" and d["indexes"] is not None):
                c = copy.deepcopy(case)
                c["descs"][0]["tables"][name] = drop_last_row(name, t)
                yield c
        for fld in ("refseq", "indexes"):
            if d[fld] is not None:
                c = copy.deepcopy(case)
                c["descs"][0][fld] = None
                yield c


def drop_last_row(name, t):
    fixed, ragged, _ = TABLES[name]
    t = copy.deepcopy(t)
    n = t["n"] - 1
    for c, dt in fixed:
        t["cols"][c] = t["cols"][c][:2 * WIDTH[dt] * n]
    for c, dt in ragged:
        data, offs = t["ragged"][c]
        offs = offs[:n + 1]
        t["ragged"][c] = [data[:2 * WIDTH[dt] * offs[-1]], offs]
    t["n"] = n
    return t


# ---------------------------------------------------------------------------
# Family: equals / assert_equals
# ---------------------------------------------------------------------------
OPTS = ["ignore_metadata", "ignore_ts_metadata", "ignore_provenance", "ignore_timestamps", "ignore_tables",
        "ignore_reference_sequence"]


def flip_hex(h, rng):
    b = bytearray(bytes.fromhex(h))
    i = rng.randrange(len(b))
    b[i] ^= rng.choice([1, 0x80, 0xFF])
    return bytes(b).hex()


def make_edit(rng, d, kinds=None):
    """-> (component tag, edited copy) or None.  Tags name the *documented* component."""
    e = copy.deepcopy(d)
    kind = rng.choice(kinds) if kinds else rng.choice(["none", "ts_metadata", "ts_schema", "time_units", "L", "table_col", "table_col",
                       "offset_shift", "offset_shift", "offset_shift",
                       "table_md", "table_schema", "prov_ts", "prov_rec", "ref_data", "ref_url", "ref_md",
                       "ref_schema", "index", "addrow", "ref_presence"])
    if kind == "none":
        return "none", e
    if kind == "ts_metadata":
        e["metadata"] = (bytes.fromhex(e["metadata"]) + b"\x00").hex()
        return "ts_metadata", e
    if kind == "ts_schema":
        e["metadata_schema"] = e["metadata_schema"] + " "
        return "ts_metadata", e
    if kind == "time_units":
        e["time_units"] = e["time_units"] + "s"
        return "top", e
    if kind == "L":
        e["sequence_length"] = struct.pack("<d", struct.unpack("<d", bytes.fromhex(e["sequence_length"]))[0] * 2).hex()
        return "top", e
    if kind == "offset_shift":
        # same flattened data, one row boundary moved (later boundaries preferred): only the offset
        # column differs
        cands = []
        for name in TABLE_ORDER:
            t = e["tables"][name]
            for c, _dt in TABLES[name][1]:
                offs = t["ragged"][c][1]
                for j in range(1, len(offs) - 1):
                    if offs[j - 1] < offs[j] or offs[j] < offs[j + 1]:
                        cands.append((name, c, j))
        if not cands:
            return None
        late = [x for x in cands if x[2] >= (len(e["tables"][x[0]]["ragged"][x[1]][1]) + 1) // 2]
        name, c, j = rng.choice(late or cands)
        offs = e["tables"][name]["ragged"][c][1]
        offs[j] = offs[j] + 1 if offs[j] < offs[j + 1] else offs[j] - 1
        if name == "provenances":
            return ("prov_timestamp" if c == "timestamp" else "provenance"), e
        return ("table_metadata" if c == "metadata" else "table"), e
    if kind in ("table_col", "table_md", "table_schema", "addrow"):
        names = [n for n in TABLE_ORDER if n != "provenances"]
        rng.shuffle(names)
        for name in names:
            fixed, ragged, has_schema = TABLES[name]
            t = e["tables"][name]
            if kind == "table_schema":
                t["metadata_schema"] = t["metadata_schema"] + "x"
                return "table_metadata", e
            if kind == "table_md" and t["n"] > 0:
                data, offs = t["ragged"]["metadata"]
                if data:
                    t["ragged"]["metadata"][0] = flip_hex(data, rng)
                else:
                    t["ragged"]["metadata"] = ["00", offs[:-1] + [offs[-1] + 1]]
                return "table_metadata", e
            if kind == "table_col" and t["n"] > 0:
                cands = [c for c, _ in fixed if t["cols"][c]] + [c for c, _ in ragged if c != "metadata" and t["ragged"][c][0]]
                if not cands:
                    continue
                c = rng.choice(cands)
                if c in t["cols"]:
                    t["cols"][c] = flip_hex(t["cols"][c], rng)
                else:
                    t["ragged"][c][0] = flip_hex(t["ragged"][c][0], rng)
                return "table", e
            if kind == "addrow" and not (name == "edges" and e["indexes"] is not None):
                for c, dt in fixed:
                    t["cols"][c] += "00" * WIDTH[dt]
                for c, dt in ragged:
                    t["ragged"][c][1] = t["ragged"][c][1] + [t["ragged"][c][1][-1]]
                t["n"] += 1
                return "table", e
        return None
    if kind in ("prov_ts", "prov_rec"):
        t = e["tables"]["provenances"]
        col = "timestamp" if kind == "prov_ts" else "record"
        if t["n"] == 0:
            return None
        data, offs = t["ragged"][col]
        if data:
            t["ragged"][col][0] = flip_hex(data, rng)
        else:
            t["ragged"][col] = ["41", offs[:-1] + [offs[-1] + 1]]
        return ("prov_timestamp" if kind == "prov_ts" else "provenance"), e
    if kind.startswith("ref_"):
        if kind == "ref_presence":
            if e["refseq"] is None:
                e["refseq"] = {"data": "A", "url": "", "metadata": "", "metadata_schema": ""}
                return "refseq", e
            e["refseq"] = None
            # dropping a reference sequence that only had metadata is a metadata-only change
            rs = d["refseq"]
            return ("refseq" if (rs["data"] or rs["url"]) else "refseq_metadata"), e
        if e["refseq"] is None:
            return None
        rs = e["refseq"]
        if kind == "ref_data":
            rs["data"] += "T"
            return "refseq", e
        if kind == "ref_url":
            rs["url"] += "/"
            return "refseq", e
        if kind == "ref_md":
            rs["metadata"] += "07"
            return "refseq_metadata", e
        rs["metadata_schema"] += " "
        return "refseq_metadata", e
    if kind == "index":
        ne = e["tables"]["edges"]["n"]
        if e["indexes"] is None:
            z = "".join(struct.pack("<i", x).hex() for x in range(ne))
            e["indexes"] = [z, z]
        else:
            e["indexes"] = None
        return "index", e
    return None


def expected_equal(tag, o):
    """The documented definition: equal iff every non-ignored component is byte-equal."""
    if tag in ("none", "index"):
        return True
    if tag == "top":
        return False
    if tag == "ts_metadata":
        return o["ignore_metadata"] or o["ignore_ts_metadata"]
    if tag == "table":
        return o["ignore_tables"]
    if tag == "table_metadata":
        return o["ignore_tables"] or o["ignore_metadata"]
    if tag == "provenance":
        return o["ignore_tables"] or o["ignore_provenance"]
    if tag == "prov_timestamp":
        return o["ignore_tables"] or o["ignore_provenance"] or o["ignore_timestamps"]
    if tag == "refseq":
        return o["ignore_reference_sequence"]
    if tag == "refseq_metadata":
        return o["ignore_reference_sequence"] or o["ignore_metadata"]
    raise ValueError(tag)


TEXT_COLS = [("provenances", "timestamp"), ("provenances", "record"), ("sites", "ancestral_state"),
             ("mutations", "derived_state")]


def is_clean(d):
    if d["metadata_schema"] or any(t.get("metadata_schema") for t in d["tables"].values()):
        return False
    if d["refseq"] is not None and d["refseq"]["metadata_schema"]:
        return False
    return all(b < 0x80 for tname, col in TEXT_COLS for b in bytes.fromhex(d["tables"][tname]["ragged"][col][0]))


def clean_desc(d):
    """Make every metadata value decodable (empty schemas = raw bytes, ASCII provenance text),
    so that assert_equals can render its message: then AssertionError exactly is demanded."""
    d["metadata_schema"] = ""
    for name, t in d["tables"].items():
        if "metadata_schema" in t:
            t["metadata_schema"] = ""
    for tname, col in TEXT_COLS:
        data, offs = d["tables"][tname]["ragged"][col]
        d["tables"][tname]["ragged"][col] = [bytes((b & 0x3F) + 0x30 for b in bytes.fromhex(data)).hex(), offs]
    if d["refseq"] is not None:
        d["refseq"]["metadata_schema"] = ""
        if not (d["refseq"]["data"] or d["refseq"]["url"] or d["refseq"]["metadata"]):
            d["refseq"] = None
    return d


class Equals(Family):
    name = "equals"
    prelude = PRELUDE + "\nFrom TskVerif Require Import C05.Equals."
    timeout = 60.0
    shard = 30
    workers = 8

    def coq_check(self, case, obs):
        # the model of tsk_table_collection_equals on the same two collections, all 64 option sets
        uuid = [48] * 36
        exp = "[" + "; ".join("true" if r[0] else "false" for r in obs["rows"]) + "]"
        return "list_eqb Bool.eqb (equals_matrix %s %s) %s" % (coq_tc(case["a"], uuid), coq_tc(case["b"], uuid), exp)

    def generate(self, rng, tier):
        n = 150 if tier == "quick" else 2000
        # every table that has a metadata schema, empty and non-empty: pairs that differ ONLY in that schema
        for name in TABLE_ORDER:
            if not TABLES[name][2]:
                continue
            for empty in (True, False):
                d = gen_desc(rng, maxrows=3, minrows=1)
                if empty:
                    t = d["tables"][name]
                    t["n"] = 0
                    t["cols"] = {c: "" for c in t["cols"]}
                    t["ragged"] = {c: ["", [0]] for c in t["ragged"]}
                    if name == "edges":
                        d["indexes"] = None
                e = copy.deepcopy(d)
                e["tables"][name]["metadata_schema"] = rng.choice(SCHEMAS[3:6]) + " "
                if e["tables"][name]["metadata_schema"] == d["tables"][name]["metadata_schema"]:
                    e["tables"][name]["metadata_schema"] += " "
                yield {"a": d, "b": e, "tag": "table_metadata", "clean": False}
        # valid tree sequences: the same comparison through TreeSequence.equals / .tables.equals
        nv, k = (30 if tier == "quick" else 300), 0
        keep = ("none", "ts_metadata", "top", "table_metadata", "provenance", "prov_timestamp", "refseq",
                "refseq_metadata", "index")
        while k < nv:
            d = valid_ts_desc(rng)
            if k % 3 and d["tables"]["provenances"]["n"] == 0:
                d["tables"]["provenances"] = {"n": 2, "cols": {}, "ragged": {"timestamp": ["32303231", [0, 2, 4]], "record": ["7b7d7b7d", [0, 2, 4]]}}
            for _ in range(40):
                ed = make_edit(rng, d, kinds=("prov_ts", "prov_ts", "prov_rec", "none", "ts_metadata", "time_units", "table_md",
                                              "ref_data", "ref_md", "index", "ref_presence"))
                if ed is not None and ed[0] in keep:
                    break
            else:
                continue
            k += 1
            yield {"a": d, "b": ed[1], "tag": ed[0], "clean": False, "valid": True}
        k = 0
        while k < n:
            d = gen_desc(rng, maxrows=rng.choice([3, 4, 6]))
            if rng.random() < 0.5 and d["tables"]["provenances"]["n"] == 0:
                d["tables"]["provenances"] = {"n": 1, "cols": {}, "ragged": {"timestamp": ["3230", [0, 2]], "record": ["7b7d", [0, 2]]}}
            clean = rng.random() < 0.5
            if clean:
                clean_desc(d)
            ed = make_edit(rng, d)
            if ed is None:
                continue
            if clean and not is_clean(ed[1]):
                continue
            k += 1
            yield {"a": d, "b": ed[1], "tag": ed[0], "clean": clean}

    def observe(self, case):
        a, b = build_tc(case["a"]), build_tc(case["b"])
        rows = []
        for m in range(64):
            o = {name: bool(m >> i & 1) for i, name in enumerate(OPTS)}
            r = []
            for x, y in ((a, b), (b, a)):
                eq = x.equals(y, **o)
                try:
                    x.assert_equals(y, **o)
                    ae = "ok"
                except AssertionError:
                    ae = "AssertionError"
                except Exception as e:
                    ae = exc_name(e)
                r += [eq, ae]
            rows.append(r)
        ts_rows = None
        if case.get("valid"):
            try:
                tsa, tsb = a.tree_sequence(), b.tree_sequence()
                ts_rows = []
                for m in range(64):
                    o = {name: bool(m >> i & 1) for i, name in enumerate(OPTS)}
                    ts_rows.append([tsa.equals(tsb, **o), tsa.tables.equals(tsb.tables, **o),
                                    tsb.equals(tsa, **o), tsa.dump_tables().equals(tsb.dump_tables(), **o)])
            except Exception as e:
                ts_rows = "raised " + exc_name(e)
        other = a.equals("not a table collection")
        a2, b2 = build_tc(case["a"]), build_tc(case["b"])
        return {"rows": rows, "other_type": other, "dunder": [a == b, a != b], "ts_rows": ts_rows,
                "reflexive": [a.equals(a2), b.equals(b2), a.equals(a.copy()), a.equals(a)]}

    def oracle(self, case, obs):
        out = []
        for m, (eq1, ae1, eq2, ae2) in enumerate(obs["rows"]):
            o = {name: bool(m >> i & 1) for i, name in enumerate(OPTS)}
            on = "+".join(n[7:] for n in OPTS if o[n]) or "default"
            for eq, ae in ((eq1, ae1), (eq2, ae2)):
                if ae not in ("ok", "AssertionError") and case.get("clean"):
                    out.append(("assert-equals-raises-%s" % ae.split(":")[0], "assert_equals raised %s under %s (tag %s)" % (ae, on, case["tag"])))
                if eq != (ae == "ok"):
                    out.append(("equals-vs-assert", "equals=%s but assert_equals %s under %s (tag %s)" % (eq, ae, on, case["tag"])))
            if eq1 != eq2:
                out.append(("equals-asymmetric", "a.equals(b)=%s, b.equals(a)=%s under %s" % (eq1, eq2, on)))
            exp = expected_equal(case["tag"], o)
            if eq1 != exp:
                out.append(("equals-definition:%s" % case["tag"], "equals=%s under %s, but the differing component is %s" % (eq1, on, case["tag"])))
        tr = obs.get("ts_rows")
        if isinstance(tr, str):
            out.append(("adapter", "valid pair did not build tree sequences: " + tr))
        elif tr:
            for m, r in enumerate(tr):
                if any(x != obs["rows"][m][0] for x in r):
                    on = "+".join(nm[7:] for i, nm in enumerate(OPTS) if m >> i & 1) or "default"
                    out.append(("treesequence-equals-disagrees", "under %s: TableCollection.equals=%s but [ts.equals, ts.tables.equals, "
                                "reverse, dump_tables().equals] = %s (tag %s)" % (on, obs["rows"][m][0], r, case["tag"])))
                    break
        if not all(obs.get("reflexive", [True])):
            out.append(("equals-not-reflexive", "a collection is not equals() to an identical one / its copy / itself: %r" % obs["reflexive"]))
        if obs["other_type"] is not False:
            out.append(("equals-other-type", "equals(non table collection) = %r" % obs["other_type"]))
        if obs["dunder"][0] != obs["rows"][0][0] or obs["dunder"][1] == obs["dunder"][0]:
            out.append(("eq-operator", "==/!= disagree with equals(): %r" % obs["dunder"]))
        # report each key once
        seen, uniq = set(), []
        for k, m in out:
            if k not in seen:
                seen.add(k)
                uniq.append((k, m))
        return uniq

    def nontrivial(self, case, obs):
        return case["tag"] != "none"

    def describe(self, case, obs):
        other = sorted({r[1].split(":")[0] for r in obs["rows"]} - {"ok", "AssertionError"})
        return {"tag": case["tag"], "clean": case.get("clean"),
                "assert_equals_other_exception": "+".join(other) or "-"}


FAMILIES = [Roundtrip, Equals]
NOT_COVERED = [
    "assert_equals (Python) is tied to equals by the oracle only; the dict codec (asdict/fromdict/pickle/copy) has no Coq model",
    "offset columns above 2^32 elements are exercised only in the model (Theorems offsets_narrow_widen*), not by dumping >4 GiB files",
    "zlib_compression / legacy HDF5 paths of TreeSequence.dump, the tskit CLI",
    "numpy dtype coercions inside parse_table_collection_dict beyond uint32/uint64 offsets",
]
