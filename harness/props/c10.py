"""C10 — truncated or corrupted files are rejected, never loaded as something else.

Families (all on files written by dump() from small generated table collections; the
column-level generator, the canonical forms and the forked batch runner come from c05):
  truncate   EVERY proper prefix of the file (and of the 2nd object on a stream) must raise;
             n = 0 gives EOFError, every other n a tskit exception that is not EOFError.
  subst      every single-byte substitution (several values) in header / descriptors /
             key region must raise.
  multi      multi-byte structural edits: whole-field rewrites of header and descriptor
             fields (boundary values, wrap-around values), random byte bursts, swapped
             descriptors, crafted minimal containers.
  data       substitutions in the array (data) region: load raises, or returns an object
             that re-dumps and re-loads equal (and for tskit.load passes an independent
             validity check).
Both the eager and the skip_tables / skip_reference_sequence read paths, path and stream.

Oracle failure keys (the input class of the *altered bytes*; see findings/C10.json):
  reserved-bytes:header | reserved-bytes:descriptor | minor-version | padding-bytes
  key-bytes:<key name>          bytes of that key's name altered and the file still loads
  array-len-wrap:<key name>     descriptor array_len altered so that array_len*size wraps mod 2^64
  structural:<field>            any other structural field altered and the file still loads
  truncated:<n-class>           a proper prefix loads / gives EOF / wrong class
  crash:<class> / hang:<class>  the library died or did not return
  data:<what>                   data-region edit loaded something that is not well-formed
"""
import copy
import os
import struct

from harness.runner import Family
from harness.common import cz, clist
from harness.props import c05
from harness.props.c05 import (Scratch, forked_map, exc_name, kas_parse, canon_dict, canon_diff, build_tc,
                               gen_desc, valid_ts_desc, KAS_SIZE)

MODES = ["path", "file", "stream2", "stream1"]
# stream2: the (possibly corrupted) object is the 2nd of two on an open file, positioned by an eager load of the
# intact 1st; stream1: it is the 1st, followed by the intact object (a corrupted length must not swallow bytes of
# the next object: after an eager load the next object must still load, equal to the original).


def loader(api, skip_tables, skip_ref):
    import tskit
    f = tskit.TableCollection.load if api == "tc" else tskit.load
    kw = {}
    if skip_tables:
        kw["skip_tables"] = True
    if skip_ref:
        kw["skip_reference_sequence"] = True
    return lambda x: f(x, **kw)


class Env:
    """One base file + the way it is presented to load()."""

    def __init__(self, tmp, base, mode, api, skip_tables, skip_ref):
        self.tmp, self.base, self.mode, self.api = tmp, base, mode, api
        self.skip_tables, self.skip_ref = skip_tables, skip_ref
        self.load = loader(api, skip_tables, skip_ref)
        self.orig = None

    @property
    def p(self):
        return os.path.join(self.tmp, "m%d.trees" % os.getpid())

    def present(self, data):
        """Load `data` (bytes of the possibly corrupted object) -> (object | None, exc name | None)."""
        self.next = None
        with open(self.p, "wb") as f:
            if self.mode == "stream2":
                f.write(self.base)
            f.write(data)
            if self.mode == "stream1":
                f.write(self.base)
        try:
            if self.mode == "path":
                return self.load(self.p), None
            with open(self.p, "rb") as f:
                if self.mode == "stream2":
                    # position the stream at the 2nd object with an eager load: the skip_* paths
                    # do not leave the stream at the end of the object (finding C05 stream-consumed:skip)
                    loader(self.api, False, False)(f)
                obj = self.load(f)
                if self.mode == "stream1" and not (self.skip_tables or self.skip_ref) and self.orig is not None:
                    try:
                        nxt = self.canon(loader(self.api, False, False)(f))
                        d = canon_diff(self.orig, nxt, limit=2)
                        self.next = "same" if not d else "differs: %s" % d
                    except Exception as e:
                        self.next = "raised " + exc_name(e)
                return obj, None
        except Exception as e:
            return None, exc_name(e)

    def canon(self, obj):
        tc = obj if self.api == "tc" else obj.dump_tables()
        try:
            return canon_dict(tc.asdict())
        except UnicodeDecodeError:
            # text fields (time_units, schemas, reference sequence) that are no longer UTF-8 cannot
            # be exported by asdict(); fall back to the stored items of a fresh dump
            q = os.path.join(self.tmp, "cn%d.trees" % os.getpid())
            tc.dump(q)
            with open(q, "rb") as f:
                items = c05.kas_items_of(f.read())
            c = {"undecodable-text": True}
            for k, t, n, data in items:
                if k != b"uuid":
                    c["item:" + k.decode("latin1")] = [t, data.hex()]
            return c

    def outcome(self, data):
        """'<ExcName>' | {'loaded': 'same' | [[path, before, after]...], 'rt': bool, 'valid': ...}"""
        obj, err = self.present(data)
        nxt = self.next
        if err is not None:
            return err
        try:
            c = self.canon(obj)
        except Exception as e:
            # an object was returned but cannot even be exported (e.g. a negative length)
            return {"loaded": "unusable object: asdict()/dump() raised " + exc_name(e)}
        diff = canon_diff(self.orig, c, limit=4)
        out = {"loaded": "same" if not diff else [[k, a[:60], b[:60]] for k, a, b in diff]}
        if diff:
            out["optdef"] = "undecodable-text" not in c and \
                all(is_default(k, c[k], c, self.orig[k]) for k in c if c[k] != self.orig[k])
        # what loaded must round-trip (C05) and, for tskit.load, be a valid tree sequence
        q = os.path.join(self.tmp, "rt%d.trees" % os.getpid())
        for attempt in (0, 1):      # an OSError of the operating system (not of the library) is retried once
            try:
                obj.dump(q)
                again = self.canon(loader(self.api, self.skip_tables, self.skip_ref)(q))
                out["rt"] = canon_diff(c, again, limit=2)
                break
            except OSError as e:
                out["rt"] = "raised " + exc_name(e) + ": " + str(e)[:120]
            except Exception as e:
                out["rt"] = "raised " + exc_name(e) + ": " + str(e)[:120]
                break
        if self.api == "ts":
            out["valid"] = validity_problems(obj.dump_tables())
        wf = wf_problems(c)
        if wf:
            out["wf"] = wf
        if nxt is not None and nxt != "same":
            out["next"] = nxt
        return out


def wf_problems(c):
    """Table invariant on a canonical form: every column of a table has num_rows entries, every
    offset column starts at 0, is non-decreasing and ends at the length of its data column."""
    if "undecodable-text" in c:
        return []
    P = []
    L = struct.unpack("<d", bytes.fromhex(c["sequence_length"]))[0]
    if not L > 0:       # load itself promises a positive sequence length (NaN is not)
        P.append("sequence_length %r is not positive" % L)
    for name in c05.TABLE_ORDER:
        fixed, ragged, _ = c05.TABLES[name]
        n = len(c[name + "/" + ragged[0][0] + "_offset"]) - 1
        for col, dt in fixed:
            if len(c[name + "/" + col]) != 2 * c05.WIDTH[dt] * n:
                P.append("%s/%s has %d bytes for %d rows" % (name, col, len(c[name + "/" + col]) // 2, n))
        for col, dt in ragged:
            offs = c[name + "/" + col + "_offset"]
            if len(offs) != n + 1 or offs[0] != 0 or any(a > b for a, b in zip(offs, offs[1:])) or \
                    offs[-1] * 2 * c05.WIDTH[dt] != len(c[name + "/" + col]):
                P.append("%s/%s offsets %s for %d data bytes" % (name, col, offs[:6], len(c[name + "/" + col]) // 2))
    if c["indexes"] is not None:
        ne = len(c["edges/left"]) // 16
        if any(len(x) != 8 * ne for x in c["indexes"]):
            P.append("index length != number of edges")
    return P


def is_default(path, v, c, before=None):
    """Is canonical entry `path` at the value an absent *optional* key gives?"""
    if path in ("metadata", "metadata_schema") or path.endswith("/metadata_schema"):
        return v == ""
    if path == "time_units":
        return v == "unknown"
    if path == "indexes":
        return v is None
    if path == "refseq":
        return v is None or (isinstance(before, dict) and all(v[k] == "" for k in v if v[k] != before[k]))
    if path == "mutations/time":
        return v == c05.UNKNOWN_TIME_HEX * (len(c["mutations/site"]) // 8)
    if path in ("edges/metadata", "migrations/metadata", "individuals/parents"):
        return v == ""
    if path in ("edges/metadata_offset", "migrations/metadata_offset", "individuals/parents_offset"):
        return all(x == 0 for x in v)
    return False


# ---------------------------------------------------------------------------
# Independent validity check of a tree sequence's tables (requirements as documented in
# the data model: "Valid tree sequence requirements"), used for tskit.load results.
# ---------------------------------------------------------------------------

def validity_problems(tc):
    import math
    import numpy as np
    P = []
    L = tc.sequence_length
    if math.isnan(L):
        P.append("sequence_length_nan")
    elif not L > 0:         # the documented requirement is only "> 0": +inf passes
        P.append("sequence_length")
    n = tc.nodes
    N = n.num_rows
    if not np.all(np.isfinite(n.time)):
        P.append("node time not finite")
    for col, top in ((n.population, tc.populations.num_rows), (n.individual, tc.individuals.num_rows)):
        if np.any((col < -1) | (col >= top)):
            P.append("node reference out of bounds")
    e = tc.edges
    if e.num_rows:
        if np.any((e.parent < 0) | (e.parent >= N) | (e.child < 0) | (e.child >= N)):
            P.append("edge node out of bounds")
        else:
            if not np.all(n.time[e.parent] > n.time[e.child]):
                P.append("edge parent not older than child")
            # data model: non-decreasing parent TIME; all edges of a parent adjacent (parents of equal
            # time in either id order); within a parent by child id, then left
            pt = [float(n.time[p]) for p in e.parent]
            if any(a > b for a, b in zip(pt, pt[1:])):
                P.append("edges not sorted by parent time")
            seen_parents, prev = set(), None
            for p in e.parent:
                if p != prev:
                    if p in seen_parents:
                        P.append("edges of a parent not adjacent")
                    seen_parents.add(p)
                    prev = p
            within = list(zip(e.parent, e.child, e.left))
            if any(a[0] == b[0] and (a[1], a[2]) > (b[1], b[2]) for a, b in zip(within, within[1:])):
                P.append("edges of a parent not sorted by child, left")
            seen = {}
            for l, r, c in zip(e.left, e.right, e.child):
                for (l2, r2) in seen.get(c, []):
                    if l < r2 and l2 < r:
                        P.append("child has two parents on an interval")
                seen.setdefault(c, []).append((l, r))
        if not (np.all(np.isfinite(e.left)) and np.all(np.isfinite(e.right))) or \
                np.any(e.left < 0) or np.any(e.right > L) or np.any(e.left >= e.right):
            P.append("edge interval")
    s = tc.sites
    if s.num_rows:
        if not np.all(np.isfinite(s.position)) or np.any(s.position < 0) or np.any(s.position >= L):
            P.append("site position")
        if np.any(np.diff(s.position) <= 0):
            P.append("sites not sorted/unique")
    m = tc.mutations
    if m.num_rows:
        if np.any((m.site < 0) | (m.site >= s.num_rows)) or np.any((m.node < 0) | (m.node >= N)):
            P.append("mutation reference out of bounds")
        else:
            if np.any(np.diff(m.site) < 0):
                P.append("mutations not sorted by site")
            unknown = np.array([np.array([t]).tobytes().hex() == c05.UNKNOWN_TIME_HEX for t in m.time])
            if np.any(np.isnan(m.time) & ~unknown):
                P.append("mutation time NaN")
            for j in range(m.num_rows):
                p = m.parent[j]
                if p < -1 or p >= m.num_rows:
                    P.append("mutation parent out of bounds")
                elif p != -1:
                    if p >= j:
                        P.append("mutation parent after child")
                    if m.site[p] != m.site[j]:
                        P.append("mutation parent at different site")
                if not unknown[j] and m.time[j] < n.time[m.node[j]]:
                    P.append("mutation younger than its node")
    g = tc.migrations
    if g.num_rows:
        if np.any((g.node < 0) | (g.node >= N)):
            P.append("migration node")
        if np.any((g.source < 0) | (g.source >= tc.populations.num_rows) | (g.dest < 0) | (g.dest >= tc.populations.num_rows)):
            P.append("migration population")
        if not np.all(np.isfinite(g.time)) or np.any(np.diff(g.time) < 0):
            P.append("migration time")
        if np.any(g.left < 0) or np.any(g.right > L) or np.any(g.left >= g.right):
            P.append("migration interval")
    ix = tc.indexes
    if ix.edge_insertion_order is not None and ix.edge_removal_order is not None:
        E = e.num_rows
        I, O = [int(x) for x in ix.edge_insertion_order], [int(x) for x in ix.edge_removal_order]
        if len(I) != E or len(O) != E or any(not 0 <= x < E for x in I + O):
            P.append("index entries out of range")
        else:
            if sorted(I) != list(range(E)):
                P.append("insertion index is not a permutation of the edges")
            if sorted(O) != list(range(E)):
                P.append("removal index is not a permutation of the edges")
            if any(e.left[a] > e.left[b] for a, b in zip(I, I[1:])):
                P.append("insertion index not sorted by left")
            if any(e.right[a] > e.right[b] for a, b in zip(O, O[1:])):
                P.append("removal index not sorted by right")
    i = tc.individuals
    if i.num_rows and np.any((i.parents < -1) | (i.parents >= i.num_rows)):
        P.append("individual parents out of bounds")
    return sorted(set(P))


# ---------------------------------------------------------------------------
# Regions of a dumped file (from the ORIGINAL bytes, independent parser)
# ---------------------------------------------------------------------------
HEADER_FIELDS = [(0, 8, "magic"), (8, 10, "version-major"), (10, 12, "minor-version"), (12, 16, "num-items"),
                 (16, 24, "file-size"), (24, 64, "reserved-bytes:header")]
DESC_FIELDS = [(0, 1, "type"), (1, 8, "reserved-bytes:descriptor"), (8, 16, "key-start"), (16, 24, "key-len"),
               (24, 32, "array-start"), (32, 40, "array-len"), (40, 64, "reserved-bytes:descriptor")]


class Layout:
    def __init__(self, b):
        self.p = kas_parse(b)
        self.n = self.p["num_items"]
        self.desc_end = 64 + 64 * self.n
        self.keys_end = self.desc_end + sum(it["key_len"] for it in self.p["items"])
        self.data_start = self.p["items"][0]["array_start"] if self.n else len(b)
        self.size = len(b)

    def classify(self, pos):
        """-> (class, item name or None)"""
        if pos < 64:
            for a, z, name in HEADER_FIELDS:
                if a <= pos < z:
                    return name, None
        if pos < self.desc_end:
            j, off = divmod(pos - 64, 64)
            key = self.p["items"][j]["key"].decode("latin1")
            for a, z, name in DESC_FIELDS:
                if a <= off < z:
                    return name, key
        if pos < self.keys_end:
            for it in self.p["items"]:
                if it["key_start"] <= pos < it["key_start"] + it["key_len"]:
                    return "key-bytes", it["key"].decode("latin1")
        if pos < self.data_start:
            return "padding-bytes", None
        for it in self.p["items"]:
            sz = it["array_len"] * KAS_SIZE[it["type"]]
            if it["array_start"] <= pos < it["array_start"] + sz:
                return "data", it["key"].decode("latin1")
        return "data-padding", None


TABLE_PREFIXES = tuple(t + "/" for t in c05.TABLE_ORDER) + ("indexes/",)


def unread_under(key, skips):
    """Is the item `key` outside what the read path looks at under the skip_* options?"""
    if key is None:
        return None
    if skips[0] and key.startswith(TABLE_PREFIXES):
        return "skip_tables"
    if skips[1] and key.startswith("reference_sequence/"):
        return "skip_reference_sequence"
    return None


def align8(x):
    return (x + 7) // 8 * 8


def failure_key(cls, key, data_before, data_after, layout, skips=(False, False), outcome=None):
    """Oracle key for a structural edit that did NOT raise: names the class of the altered bytes.
    -> (key, does this class explain a change of the loaded content?)"""
    names = [it["key"].decode("latin1") for it in layout.p["items"]]
    optdef = bool(isinstance(outcome, dict) and outcome.get("optdef"))
    u = unread_under(key, skips)
    M = 2 ** 64
    if cls in ("array-len", "type"):
        j = names.index(key)
        it = layout.p["items"][j]
        d = 64 + 64 * j
        new_len = struct.unpack("<Q", data_after[d + 32:d + 40])[0]
        new_type = data_after[d]
        old_end = it["array_start"] + it["array_len"] * KAS_SIZE[it["type"]]
        if new_type < len(KAS_SIZE):
            nsz = new_len * KAS_SIZE[new_type]
            overflow = nsz >= M or it["array_start"] + nsz >= M
            new_end = (it["array_start"] + nsz) % M
            last = j + 1 == len(names)
            passes = (new_end == old_end) if last else (align8(new_end) % M == align8(old_end))
            if passes and overflow:
                return "array-len-wrap:" + key, True
            if passes and nsz != it["array_len"] * KAS_SIZE[it["type"]]:
                what = "array-len-slack" if cls == "array-len" else "type-slack"
                if u:
                    return "unread-item:%s:%s" % (u, what), False
                return what + ":" + key, cls == "array-len"
        if u and cls == "type":
            return "unread-item:%s:type" % u, False
        return "structural:%s:%s" % (cls, key), False
    if cls == "key-bytes":
        if u:
            return "unread-item:%s:key-bytes" % u, optdef
        return "key-bytes:" + key, optdef
    if cls in ("minor-version", "padding-bytes") or cls.startswith("reserved-bytes"):
        return cls, False
    return "structural:" + cls + (":" + key if key else ""), False


OPTIONAL_KEYS = set(["time_units", "metadata", "metadata_schema", "mutations/time", "edges/metadata",
                     "edges/metadata_offset", "migrations/metadata", "migrations/metadata_offset",
                     "individuals/parents", "individuals/parents_offset", "indexes/edge_insertion_order",
                     "indexes/edge_removal_order", "reference_sequence/data", "reference_sequence/url",
                     "reference_sequence/metadata", "reference_sequence/metadata_schema"]
                    + [t + "/metadata_schema" for t in c05.TABLE_ORDER if t != "provenances"])


def _kcmp(a, b):
    n = min(len(a), len(b))
    if a[:n] != b[:n]:
        return -1 if a[:n] < b[:n] else 1
    return (len(a) > len(b)) - (len(a) < len(b))


def key_lookup_failures(layout, after, skips):
    """The file loaded although key bytes were altered.  Independent lookup (binary search as the C
    library does it, over the keys as they now stand): a required key that cannot be found, or one
    half of a pair (data/offset column, the two index arrays) that cannot be found while the other
    can, must have made load fail."""
    items = layout.p["items"]
    now = [bytes(after[it["key_start"]:it["key_start"] + it["key_len"]]) for it in items]

    def found(k):
        lo, hi = 0, len(now)
        while lo < hi:
            mid = (lo + hi) // 2
            c = _kcmp(k, now[mid])
            if c == 0:
                return True
            if c < 0:
                hi = mid
            else:
                lo = mid + 1
        return False
    out = []
    wanted = [it["key"] for it in items]
    have = {k.decode("latin1"): found(k) for k in wanted}
    for k, ok in have.items():
        if unread_under(k, skips):
            continue
        if not ok and k not in OPTIONAL_KEYS:
            out.append(("key-lookup:required-missing:" + k, "required key %s cannot be found any more, yet the file loads" % k))
        partner = k[:-7] if k.endswith("_offset") else None
        if k == "indexes/edge_insertion_order":
            partner = "indexes/edge_removal_order"
        if partner in have and have[partner] != ok:
            out.append(("key-lookup:half-pair:" + (partner if k.endswith("_offset") else "indexes"),
                        "only one of %s / %s can be found, yet the file loads" % (partner, k)))
    return out


IGNORABLE = ("minor-version", "padding-bytes", "reserved-bytes:header", "reserved-bytes:descriptor")


def judge_structural(edit_classes, outcome, before, after, layout, skips=(False, False)):
    """edit_classes: set of (class, key) of all altered bytes.  -> list of (key, msg)."""
    out = []
    if isinstance(outcome, str):
        if outcome == "EOFError":
            out.append(("eof-for-corruption", "a corrupted, non-empty file was reported as end-of-stream"))
        elif outcome.split(":")[0] in BAD_EXC:
            out.append(("exception:" + outcome.split(":")[0], "unexpected exception class %s" % outcome))
        return out
    if "crash" in outcome or "hang" in outcome:
        what = "crash" if "crash" in outcome else "hang"
        for cls, key in sorted(edit_classes, key=str):
            fk, _ = failure_key(cls, key, before, after, layout, skips, outcome)
            out.append(("%s:%s" % (what, fk), "load %s: %r" % (what, outcome)))
        return out
    if "adapter_exception" in outcome:
        return [("adapter", outcome["adapter_exception"])]
    # loaded
    explained = outcome["loaded"] == "same"
    for cls, key in sorted(edit_classes, key=str):
        fk, ex = failure_key(cls, key, before, after, layout, skips, outcome)
        explained = explained or ex
        out.append((fk, "file with altered %s%s still loads (%s)" % (cls, " of " + key if key else "", str(outcome["loaded"])[:200])))
    if not explained:
        out.append(("unexplained-content-change", "altered %s; what loaded differs from the original beyond defaulted optional columns: %s"
                    % (sorted(edit_classes, key=str), outcome["loaded"])))
    if outcome.get("next"):
        out.append(("stream-desync", "altered %s: the object loads but the NEXT object on the stream no longer does (%s)"
                    % (sorted(edit_classes, key=str), outcome["next"])))
    if all(cls == "key-bytes" or cls in IGNORABLE for cls, _ in edit_classes):
        out += key_lookup_failures(layout, after, skips)
    if outcome.get("wf"):
        out.append(("loaded-not-well-formed", "what loaded violates the table invariant: %s" % (outcome["wf"],)))
    if outcome.get("rt"):
        out.append(("loaded-not-roundtrip", "what loaded does not round-trip: %s" % (outcome["rt"],)))
    if outcome.get("valid"):
        out.append(("loaded-invalid-ts", "tskit.load returned an invalid tree sequence: %s" % outcome["valid"]))
    return out


# exception classes that are not an orderly rejection by the library
BAD_EXC = {"SystemError", "TypeError", "AttributeError", "RuntimeError",
           "UnicodeDecodeError", "OverflowError", "IndexError", "KeyError", "AssertionError"}


def rle(xs):
    out = []
    for x in xs:
        if out and out[-1][1] == x:
            out[-1][0] += 1
        else:
            out.append([1, x])
    return out


def unrle(r):
    out = []
    for k, x in r:
        out += [x] * k
    return out


def base_cases(rng, n_any, n_valid, tiny_p=0.5, rich_every=0):
    for k in range(n_any):
        if rich_every and k % rich_every == 0:      # every table has 2..4 rows, a reference sequence is present
            d = gen_desc(rng, maxrows=4, minrows=2)
            if d["refseq"] is None:
                d["refseq"] = {"data": "ACGT", "url": "u", "metadata": "7b7d", "metadata_schema": ""}
            yield d, False
            continue
        yield gen_desc(rng, maxrows=rng.choice([1, 2, 3]), tiny=rng.random() < tiny_p), False
    for k in range(n_valid):
        # the first valid bases are "rich": no id column of any table is empty (migrations, individual
        # parents, node individual / population, mutation parents, >= 2 edges)
        d = valid_ts_desc(rng, rich=(k < 4))
        yield d, True


READ_PATHS = [(False, False), (False, False), (True, False), (False, True), (False, False), (True, True)]


def pick_env(rng, valid, k=None):
    """k: position of the case in its family: the read path and the presentation are cycled so that
    every seed covers eager and skip paths, single files and both stream positions."""
    api = "ts" if (valid and rng.random() < 0.5) else "tc"
    if k is not None and valid:
        api = "ts" if k % 2 == 0 else "tc"
    if k is None:
        r = rng.random()
        skip_tables, skip_ref = (r < 0.2), (0.15 < r < 0.35)
        mode = rng.choice(MODES)
    else:
        skip_tables, skip_ref = READ_PATHS[k % len(READ_PATHS)]
        mode = ["stream1", "path", "file", "stream2"][k % 4]
        if k % 12 == 8:
            api = "tc"
    return {"api": api, "skip_tables": skip_tables, "skip_ref": skip_ref, "mode": mode}


def stream_term(env, inner):
    """Coq term of the stream the reader sees for the corrupted object [inner] (base file = f)."""
    return "(%s ++ f)" % inner if env["mode"] == "stream1" else inner


def dump_base(case, tmp):
    tc = build_tc(case["desc"])
    p = os.path.join(tmp, "base.trees")
    tc.dump(p)
    with open(p, "rb") as f:
        return f.read()


def env_of(case, tmp, base):
    e = case["env"]
    env = Env(tmp, base, e["mode"], e["api"], e["skip_tables"], e["skip_ref"])
    o, err = env.present(base)
    if err is not None:
        raise RuntimeError("intact base file does not load: " + err)
    env.orig = env.canon(o)
    return env


def verdict_code(outcome):
    """Coarse verdict compared with the model: exception name, or 'loaded'."""
    if isinstance(outcome, str):
        return outcome
    if "loaded" in outcome:
        return "loaded"
    return "crash" if "crash" in outcome else ("hang" if "hang" in outcome else "adapter")


class CorruptFamily(Family):
    prelude = c05.PRELUDE + "\nFrom TskVerif Require Import C10.Corrupt."
    timeout = 600.0
    shard = 1
    workers = 8
    coq_timeout = 1500

    def describe(self, case, obs):
        e = case["env"]
        d = {"api": e["api"], "mode": e["mode"], "skip": "%d%d" % (e["skip_tables"], e["skip_ref"])}
        for k, v in (obs.get("hist") or {}).items():
            d["outcome:" + k] = v
        d["mutated_files_per_base_file"] = obs.get("n", obs.get("ns"))
        return d

    def shrink(self, case):
        # no minimisation: re-observing one candidate costs thousands of loads (+ a Coq run for a
        # disagreement), and the failing edit is already named in the failure message
        return []


# ---------------------------------------------------------------------------
class Truncate(CorruptFamily):
    name = "truncate"

    def generate(self, rng, tier):
        n_any, n_valid = (4, 2) if tier == "quick" else (30, 10)
        # every read path is covered whatever the seed: eager, skip_tables, skip_reference_sequence,
        # both; path / file object / 2nd object on a stream
        paths = [(False, False), (True, False), (False, True), (True, True)]
        for k, (desc, valid) in enumerate(base_cases(rng, n_any, n_valid, tiny_p=0.7)):
            env = pick_env(rng, valid)
            env["skip_tables"], env["skip_ref"] = paths[k % 4]
            env["mode"] = MODES[(k // 2) % 3]
            yield {"desc": desc, "env": env, "step": 1, "coq_stride": 7 if tier == "quick" else 1}

    def observe(self, case):
        with Scratch() as tmp:
            base = dump_base(case, tmp)
            env = env_of(case, tmp, base)
            ns = list(range(0, len(base), case.get("step", 1)))
            res = forked_map(lambda n: env.outcome(base[:n]), ns)
            codes = [verdict_code(o) for o in res]
            hist = {}
            for c in codes:
                hist[c] = hist.get(c, 0) + 1
            bad = [[n, o] for n, o in zip(ns, res) if not isinstance(o, str)]
            full = env.outcome(base)
            return {"size": len(base), "ns": len(ns), "codes": rle(codes), "hist": hist, "bad": bad[:20],
                    "full": full if isinstance(full, str) else full["loaded"], "file": base.hex()}

    def oracle(self, case, obs):
        out = []
        step = case.get("step", 1)
        codes = unrle(obs["codes"])
        if len(codes) != len(range(0, obs["size"], step)):
            out.append(("adapter", "not every prefix length was observed"))
        if obs["full"] != "same":
            out.append(("intact-file-rejected", "the complete file gives %s" % (obs["full"],)))
        for k, c in enumerate(codes):
            n = k * step
            if n == 0:
                if c != "EOFError":
                    out.append(("truncated:empty", "the empty prefix gives %s, expected EOFError" % c))
                continue
            if c == "loaded":
                out.append(("truncated:loads", "prefix of %d of %d bytes loads" % (n, obs["size"])))
            elif c in ("crash", "hang", "adapter"):
                out.append(("%s:truncated" % c, "prefix of %d of %d bytes: %s" % (n, obs["size"], c)))
            elif c == "EOFError":
                out.append(("truncated:eof", "non-empty prefix of %d bytes reported as end-of-stream" % n))
            elif c.split(":")[0] in BAD_EXC:
                out.append(("truncated:exception:" + c.split(":")[0], "prefix of %d bytes: %s" % (n, c)))
        seen, uniq = set(), []
        for k, m in out:
            if k not in seen:
                seen.add(k)
                uniq.append((k, m))
        return uniq

    def coq_check(self, case, obs):
        e = case["env"]
        fb = bytes.fromhex(obs["file"])
        if len(fb) > 9000:
            return None
        step = case.get("step", 1)
        codes = unrle(obs["codes"])
        # the model is evaluated on: every prefix of the first 200 and the last 300 bytes, every
        # boundary of the 64-byte header/descriptor grid +-1, and a stride over the rest
        # (every prefix in the thorough tier); a prefix of the 2nd object on a stream is the same
        # reader started at the object's first byte.
        stride = case.get("coq_stride", 1)
        keep = []
        for k, c in enumerate(codes):
            n = k * step
            if c in ("hang", "adapter"):
                continue
            if n < 200 or n >= len(fb) - 300 or n % 64 in (0, 1, 63) or n % stride == 0 or c in ("crash", "loaded"):
                keep.append("(%d, %s)" % (n, vcode(c, e["api"])))
        return ("(let f := %s in forallb (fun e : Z * Z => verdict_agrees (load_verdict %s %s (firstn (Z.to_nat (fst e)) f)) (snd e)) [%s])"
                % (clist(fb), cb(e["skip_tables"]), cb(e["skip_ref"]), "; ".join(keep)))


def cb(b):
    return "true" if b else "false"


TSK_CODES = {"TSK_ERR_FILE_FORMAT": 10, "TSK_ERR_FILE_VERSION_TOO_OLD": 11, "TSK_ERR_FILE_VERSION_TOO_NEW": 12,
             "TSK_ERR_BAD_COLUMN_TYPE": 13, "TSK_ERR_REQUIRED_COL_NOT_FOUND": 14,
             "TSK_ERR_BOTH_COLUMNS_REQUIRED": 15, "TSK_ERR_BAD_OFFSET": 16, "TSK_ERR_BAD_SEQUENCE_LENGTH": 17}


def vcode(c, api="tc"):
    """Verdict class shared with the model (C10/Corrupt.v load_verdict, C05/TskFile.v T_ codes)."""
    if c == "loaded":
        return "0%Z"
    if c == "crash":
        return "98%Z"
    name, _, tid = c.partition(":")
    if tid in TSK_CODES:
        return "%d%%Z" % TSK_CODES[tid]
    if tid == "TSK_ERR_NO_MEMORY":
        return "98%Z"       # only explained by a wrapped length in the model
    if tid == "" and name == "EOFError":
        return "1%Z"
    if tid == "" and name == "FileFormatError":
        return "2%Z"
    if name == "OSError":
        return "6%Z"
    if api == "ts" and name == "LibraryError":
        return "0%Z"        # validity gate of tskit.load (C02): the table-level load succeeded
    return "99%Z"


# ---------------------------------------------------------------------------
class Subst(CorruptFamily):
    name = "subst"

    def generate(self, rng, tier):
        n_any, n_valid = (2, 1) if tier == "quick" else (16, 6)
        for k, (desc, valid) in enumerate(base_cases(rng, n_any, n_valid, tiny_p=0.7)):
            vals = [rng.choice([1, 2, 0x80, 0xFF, 0x40, 0x20]), 0x80 if rng.random() < 0.5 else 0xFF, rng.randrange(1, 256)]
            if tier == "quick":
                vals = vals[:1] + vals[2:]      # two values per position in the quick tier
            yield {"desc": desc, "env": pick_env(rng, valid, k + 1), "vals": vals,
                   "stride": 1, "coq_stride": 20 if tier == "quick" else 6}

    def edits(self, case, base):
        lay = Layout(base)
        out = []
        for pos in range(0, lay.data_start, case.get("stride", 1)):
            for v in case["vals"]:
                out.append((pos, base[pos] ^ v))
        return lay, out

    def observe(self, case):
        with Scratch() as tmp:
            base = dump_base(case, tmp)
            env = env_of(case, tmp, base)
            lay, eds = self.edits(case, base)

            def one(ed):
                pos, val = ed
                b = bytearray(base)
                b[pos] = val
                return env.outcome(bytes(b))
            res = forked_map(one, eds, per_item_timeout=90.0)
            codes = [verdict_code(o) for o in res]
            hist = {}
            for c in codes:
                hist[c] = hist.get(c, 0) + 1
            notraise = [[pos, val, o] for (pos, val), o in zip(eds, res) if not isinstance(o, str)]
            return {"size": len(base), "n": len(eds), "codes": rle(codes), "hist": hist,
                    "notraise": notraise, "file": base.hex()}

    def oracle(self, case, obs):
        base = bytes.fromhex(obs["file"])
        lay, eds = self.edits(case, base)
        out = []
        if obs["n"] != len(eds):
            out.append(("adapter", "edit list mismatch"))
        codes = unrle(obs["codes"])
        bad = {(p, v): o for p, v, o in obs["notraise"]}
        for (pos, val), c in zip(eds, codes):
            o = bad.get((pos, val), c)
            b = bytearray(base)
            b[pos] = val
            out += judge_structural({lay.classify(pos)}, o, base, bytes(b), lay, (case["env"]["skip_tables"], case["env"]["skip_ref"]))
        seen, uniq = set(), []
        for k, m in out:
            if k not in seen:
                seen.add(k)
                uniq.append((k, m))
        return uniq

    def coq_check(self, case, obs):
        e = case["env"]
        base = bytes.fromhex(obs["file"])
        if len(base) > 9000:
            return None
        lay, eds = self.edits(case, base)
        codes = unrle(obs["codes"])
        # the model is evaluated on a sample of the edits (every edit in header + first and last
        # two descriptors + a stride over the rest) to keep vm_compute time bounded
        keep = []
        for k, ((pos, val), c) in enumerate(zip(eds, codes)):
            if c in ("hang", "adapter"):
                continue
            if c == "crash" or pos < 64 + 128 or lay.desc_end - 128 <= pos < lay.desc_end or \
                    (pos * 7 + val) % case.get("coq_stride", 8) == 0:
                keep.append("(%d, %d, %s)" % (pos, val, vcode(c, e["api"])))
        return ("(let f := %s in forallb (fun e => match e with (p, v, c) => "
                "verdict_agrees (load_verdict %s %s %s) c end) [%s])"
                % (clist(base), cb(e["skip_tables"]), cb(e["skip_ref"]), stream_term(e, "(subst_byte f p v)"), "; ".join(keep)))


# ---------------------------------------------------------------------------
class Multi(CorruptFamily):
    """Whole-field rewrites and multi-byte structural edits."""
    name = "multi"

    def generate(self, rng, tier):
        n_any, n_valid = (6, 2) if tier == "quick" else (60, 20)
        for k, (desc, valid) in enumerate(base_cases(rng, n_any, n_valid, tiny_p=0.6, rich_every=3)):
            if k % 2 == 0 and desc["indexes"] is None:      # every other base file carries an index
                ne = desc["tables"]["edges"]["n"]
                z = "".join(struct.pack("<i", x).hex() for x in range(ne))
                desc["indexes"] = [z, z]
            yield {"desc": desc, "env": pick_env(rng, valid, k), "seed": rng.randrange(2 ** 30),
                   "n_random": 60 if tier == "quick" else 400}

    def edits(self, case, base):
        """-> (layout, [ [ (pos, bytes) ... ] ... ]) : each edit is a list of (offset, replacement)."""
        import random
        rng = random.Random(case["seed"])
        lay = Layout(base)
        items = lay.p["items"]
        eds = []
        M = 2 ** 64

        def field(off, width, v):
            return (off, (v % (2 ** (8 * width))).to_bytes(width, "little"))
        # header fields: boundary values
        for v in (0, 1, 2, 0xFFFF):
            eds.append([field(8, 2, v)])
            eds.append([field(10, 2, v)])
        n = lay.n
        for v in (0, 1, n - 1, n + 1, 2 * n, 2 ** 32 - 1, 2 ** 26):
            eds.append([field(12, 4, v)])
        fs = lay.size
        for v in (0, 63, 64, fs - 1, fs + 1, fs - 8, fs + 8, 2 * fs, M - 1, 2 ** 63, 64 + 64 * n):
            eds.append([field(16, 8, v)])
        # consistent num_items/file_size rewrite: an empty container
        eds.append([field(12, 4, 0), field(16, 8, 64)])
        # descriptor fields of a sample of items (+ every item for the wrap-around values)
        sample = set(rng.sample(range(n), min(n, 12)))
        for j, it in enumerate(items):
            d = 64 + 64 * j
            sz = KAS_SIZE[it["type"]]
            wraps = [it["array_len"] + k * (M // sz) for k in (1, 2, 3) if sz > 1 and k < sz]
            for v in wraps:
                eds.append([field(d + 32, 8, v)])
            if j not in sample:
                continue
            for t in range(0, 12):
                if t != it["type"]:
                    eds.append([field(d, 1, t)])
            eds.append([field(d, 1, 255)])
            for off, cur in ((8, it["key_start"]), (16, it["key_len"]), (24, it["array_start"]), (32, it["array_len"])):
                for v in (0, cur - 1, cur + 1, cur + 8, cur - 8, M - 1, 2 ** 63, cur + 2 ** 32, fs, M - cur):
                    if v % M != cur and 0 <= v % M:
                        eds.append([field(d + off, 8, v)])
        # the type byte of EVERY item replaced by each other type of the same element size
        same = {0: [1], 1: [0], 2: [3], 3: [2], 4: [5, 8], 5: [4, 8], 8: [4, 5], 6: [7, 9], 7: [6, 9], 9: [6, 7]}
        for j, it in enumerate(items):
            for t in same.get(it["type"], []):
                eds.append([field(64 + 64 * j, 1, t)])
        # coherent GROUP rewrites of array_len (+1 / -1 / +2 entries, every member of the group alike): both index
        # arrays; every per-row column and offset column of a table; a ragged data column alone and with
        # its offsets.  Packing often stays valid because the extra / missing entry lies in the alignment
        # padding; the table layer's cross-checks (row counts, index length = number of edges, last
        # offset = data length) must then reject.
        by_key = {it["key"].decode("latin1"): (j, it) for j, it in enumerate(items)}
        groups = [[k for k in by_key if k.startswith("indexes/")]]
        for tname in c05.TABLE_ORDER:
            fixed, ragged, _ = c05.TABLES[tname]
            groups.append([tname + "/" + c for c, _ in fixed if tname + "/" + c in by_key]
                          + [tname + "/" + c + "_offset" for c, _ in ragged if tname + "/" + c + "_offset" in by_key])
            for c, _ in ragged:
                if tname + "/" + c in by_key:
                    groups.append([tname + "/" + c])
        for g in groups:
            if not g:
                continue
            for dl in (1, -1, 2):
                ed = []
                for k in g:
                    j, it = by_key[k]
                    if it["array_len"] + dl >= 0:
                        ed.append(field(64 + 64 * j + 32, 8, it["array_len"] + dl))
                if len(ed) == len(g):
                    eds.append(ed)
        # all fixed-width columns of one table wrapped consistently (k * 2^62 more rows)
        for tname in ("nodes", "edges", "sites", "mutations", "migrations", "individuals", "populations",
                      "provenances"):
            ed = []
            for j, it in enumerate(items):
                key = it["key"].decode("latin1")
                if key.startswith(tname + "/") and not key.endswith("metadata_schema") and KAS_SIZE[it["type"]] >= 4 \
                        and not (key.count("/") == 1 and key.split("/")[1] in ("location", "parents")):
                    ed.append(field(64 + 64 * j + 32, 8, it["array_len"] + 2 ** 62))
            if ed:
                eds.append(ed)
        # last byte of every key +1 / -1 (usually keeps the keys sorted: only that key disappears)
        for it in items:
            p_last = it["key_start"] + it["key_len"] - 1
            eds.append([(p_last, bytes([(base[p_last] + 1) % 256]))])
            eds.append([(p_last, bytes([(base[p_last] - 1) % 256]))])
        # swap two adjacent descriptors (keys and arrays then no longer match / order broken)
        for _ in range(6):
            j = rng.randrange(n - 1)
            a, b = base[64 + 64 * j:128 + 64 * j], base[128 + 64 * j:192 + 64 * j]
            eds.append([(64 + 64 * j, b), (128 + 64 * j, a)])
        # swap two keys of equal length in the key region (descriptors unchanged)
        bylen = {}
        for it in items:
            bylen.setdefault(it["key_len"], []).append(it)
        pairs = [(x, y) for v in bylen.values() for x in v for y in v if x["key_start"] < y["key_start"]]
        for x, y in rng.sample(pairs, min(8, len(pairs))):
            eds.append([(x["key_start"], y["key"]), (y["key_start"], x["key"])])
        # random bursts of 2..8 bytes anywhere in the structural region
        for _ in range(case["n_random"]):
            k = rng.randrange(2, 9)
            if rng.random() < 0.5:
                pos = rng.randrange(0, lay.data_start - k)
                eds.append([(pos, bytes(rng.randrange(256) for _ in range(k)))])
            else:
                eds.append([(rng.randrange(0, lay.data_start), bytes([rng.randrange(256)])) for _ in range(k)])
        # crafted containers that replace the whole file
        magic = base[:8]

        def hdr(nit, fsz, major=1):
            return magic + struct.pack("<HHIQ", major, 0, nit, fsz) + bytes(40)

        def desc(t, ks, kl, as_, al):
            return bytes([t]) + bytes(7) + struct.pack("<QQQQ", ks % M, kl % M, as_ % M, al % M) + bytes(24)
        crafted = [hdr(0, 64), hdr(0, 65) + b"\0", hdr(1, 128) + desc(0, 128, 0, 128, 0),
                   hdr(1, 136) + desc(0, 128, 1, 136, 0) + b"a" + bytes(7),
                   hdr(1, 128), hdr(2 ** 32 - 1, 64), hdr(1, 64),
                   hdr(1, 136) + desc(6, 128, 1, 136, 2 ** 61) + b"a" + bytes(7),
                   hdr(1, 136) + desc(0, M - 1, 2, 136, 0) + b"a" + bytes(7)]
        for c in crafted:
            eds.append([("replace", c)])
        # drop edits that do not change anything
        out = []
        for ed in eds:
            if ed[0][0] == "replace" or apply_edit(base, ed) != base:
                out.append(ed)
        return lay, out

    def observe(self, case):
        with Scratch() as tmp:
            base = dump_base(case, tmp)
            env = env_of(case, tmp, base)
            lay, eds = self.edits(case, base)
            res = forked_map(lambda ed: env.outcome(apply_edit(base, ed)), eds, per_item_timeout=90.0)
            codes = [verdict_code(o) for o in res]
            hist = {}
            for c in codes:
                hist[c] = hist.get(c, 0) + 1
            notraise = [[k, o] for k, o in enumerate(res) if not isinstance(o, str)]
            return {"size": len(base), "n": len(eds), "codes": rle(codes), "hist": hist,
                    "notraise": notraise, "file": base.hex()}

    def oracle(self, case, obs):
        base = bytes.fromhex(obs["file"])
        lay, eds = self.edits(case, base)
        out = []
        if obs["n"] != len(eds):
            return [("adapter", "edit list mismatch")]
        codes = unrle(obs["codes"])
        bad = {k: o for k, o in obs["notraise"]}
        for k, (ed, c) in enumerate(zip(eds, codes)):
            o = bad.get(k, c)
            after = apply_edit(base, ed)
            if ed[0][0] == "replace":
                classes = {("crafted-container", None)}
                if isinstance(o, str):
                    if len(after) > 0 and o == "EOFError":
                        out.append(("eof-for-corruption", "crafted container reported as end of stream"))
                    elif o.split(":")[0] in BAD_EXC:
                        out.append(("exception:" + o.split(":")[0], "crafted container %s: %s" % (after[:80].hex(), o)))
                    continue
                out.append(("structural:crafted-container", "crafted container %s: %r" % (after[:80].hex(), o)))
                continue
            classes = {lay.classify(p) for p in range(lay.data_start) if after[p] != base[p]}
            out += judge_structural(classes, o, base, after, lay, (case["env"]["skip_tables"], case["env"]["skip_ref"]))
        seen, uniq = set(), []
        for k, m in out:
            if k not in seen:
                seen.add(k)
                uniq.append((k, m))
        return uniq

    def coq_check(self, case, obs):
        e = case["env"]
        base = bytes.fromhex(obs["file"])
        if len(base) > 9000:
            return None
        lay, eds = self.edits(case, base)
        codes = unrle(obs["codes"])
        terms = []
        for ed, c in zip(eds, codes):
            if c in ("hang", "adapter"):
                continue
            if ed[0][0] == "replace":
                terms.append("verdict_agrees (load_verdict %s %s %s) %s" % (cb(e["skip_tables"]), cb(e["skip_ref"]), stream_term(e, clist(ed[0][1])), vcode(c, e["api"])))
            else:
                subs = "[" + "; ".join("(%d, %s)" % (p, clist(bs)) for p, bs in ed) + "]"
                terms.append("verdict_agrees (load_verdict %s %s %s) %s" % (cb(e["skip_tables"]), cb(e["skip_ref"]), stream_term(e, "(subst_many f %s)" % subs), vcode(c, e["api"])))
        return "(let f := %s in forallb (fun b : bool => b) [%s])" % (clist(base), "; ".join(terms))


def apply_edit(base, ed):
    if ed[0][0] == "replace":
        return ed[0][1]
    b = bytearray(base)
    for pos, bs in ed:
        b[pos:pos + len(bs)] = bs
    return bytes(b[:len(base)]) if len(b) > len(base) else bytes(b)


# ---------------------------------------------------------------------------
class Data(CorruptFamily):
    name = "data"

    def generate(self, rng, tier):
        n_any, n_valid = (8, 8) if tier == "quick" else (70, 70)
        for k, (desc, valid) in enumerate(base_cases(rng, n_any, n_valid, tiny_p=0.2, rich_every=2)):
            yield {"desc": desc, "env": pick_env(rng, valid, k + 2), "seed": rng.randrange(2 ** 30),
                   "n": 250 if tier == "quick" else 400}

    def edits(self, case, base):
        import random
        rng = random.Random(case["seed"])
        lay = Layout(base)
        eds = []
        span = lay.size - lay.data_start
        if span <= 0:
            return lay, eds
        # offset columns: every entry raised above its successor / lowered below its predecessor,
        # first entry non-zero, last entry off by one (whole-entry rewrites)
        for it in lay.p["items"]:
            key = it["key"].decode("latin1")
            if not key.endswith("_offset") or it["type"] not in (5, 7):
                continue
            w = 4 if it["type"] == 5 else 8
            a0 = it["array_start"]
            vals = [int.from_bytes(base[a0 + w * j:a0 + w * (j + 1)], "little") for j in range(it["array_len"])]
            n = len(vals) - 1

            def put(j, v):
                if 0 <= v < 2 ** (8 * w) and v != vals[j]:
                    eds.append([(a0 + w * j, v.to_bytes(w, "little"))])
            for j in range(n + 1):
                if j < n:
                    put(j, vals[j + 1] + 1)
                    put(j, vals[j + 1] + 3)
                    put(j, vals[-1] + 1)
                if j > 0:
                    put(j, vals[j - 1] - 1)
            put(0, 1)
            put(n, vals[n] + 1)
            put(n, vals[n] - 1)
        # index arrays: every entry replaced by OTHER in-range edge ids (successor, first, last entry's id)
        for it in lay.p["items"]:
            if it["key"].startswith(b"indexes/") and it["type"] == 4 and it["array_len"] >= 2:
                a0, E = it["array_start"], it["array_len"]
                vals = [int.from_bytes(base[a0 + 4 * j:a0 + 4 * j + 4], "little", signed=True) for j in range(E)]
                for j in range(E):
                    for v in {(vals[j] + 1) % E, vals[0], vals[-1], vals[(j + 1) % E]}:
                        if v != vals[j]:
                            eds.append([(a0 + 4 * j, int(v).to_bytes(4, "little", signed=True))])
        # id columns: one cell set to a boundary-equal value: its own row index, the number of rows of
        # its own / of every other table, that minus one, -1, -2
        nrows = {}
        for it in lay.p["items"]:
            k = it["key"].decode("latin1")
            if k.endswith("_offset") and it["array_len"] >= 1:
                nrows.setdefault(k.split("/")[0], it["array_len"] - 1)
        id_cols = ["nodes/population", "nodes/individual", "edges/parent", "edges/child", "mutations/site",
                   "mutations/node", "mutations/parent", "migrations/node", "migrations/source", "migrations/dest",
                   "individuals/parents"]
        for it in lay.p["items"]:
            k = it["key"].decode("latin1")
            if k in id_cols and it["type"] == 4 and it["array_len"]:
                a0, E = it["array_start"], it["array_len"]
                vals = [int.from_bytes(base[a0 + 4 * j:a0 + 4 * j + 4], "little", signed=True) for j in range(E)]
                cands = {-1, -2} | set(nrows.values()) | {v - 1 for v in nrows.values()}
                for j in range(min(E, 6)):
                    for v in sorted(cands | {j, j + 1, j - 1}):
                        if v != vals[j] and -2 ** 31 <= v < 2 ** 31:
                            eds.append([(a0 + 4 * j, int(v).to_bytes(4, "little", signed=True))])
        # coordinate / time columns: cells set to 0, -1, L, the double after L, NaN, +inf, the neighbouring cell
        Lb = None
        for it in lay.p["items"]:
            if it["key"] == b"sequence_length" and it["array_len"] == 1:
                Lb = base[it["array_start"]:it["array_start"] + 8]
        if Lb is not None:
            Lv = struct.unpack("<d", Lb)[0]
            import math
            specials = [0.0, -1.0, Lv, math.nextafter(Lv, math.inf) if Lv == Lv and Lv != math.inf else 1.0, float("nan"), math.inf]
            for it in lay.p["items"]:
                k = it["key"].decode("latin1")
                if k in ("edges/left", "edges/right", "sites/position", "migrations/left", "migrations/right",
                         "migrations/time", "nodes/time", "mutations/time") and it["type"] == 9:
                    a0, E = it["array_start"], it["array_len"]
                    for j in range(min(E, 3)):
                        cur = base[a0 + 8 * j:a0 + 8 * j + 8]
                        cands = [struct.pack("<d", v) for v in specials]
                        if E > 1:
                            jn = (j + 1) % E
                            cands.append(base[a0 + 8 * jn:a0 + 8 * jn + 8])
                        for b8 in cands:
                            if b8 != cur:
                                eds.append([(a0 + 8 * j, b8)])
        # sequence_length: special doubles (NaN, -NaN, +-inf, +-0, negative, denormal)
        for it in lay.p["items"]:
            if it["key"] == b"sequence_length" and it["array_len"] == 1:
                for hx in ("000000000000f87f", "010000000000f0ff", "000000000000f07f", "000000000000f0ff",
                           "0000000000000000", "0000000000000080", "000000000000f0bf", "0100000000000000"):
                    if bytes.fromhex(hx) != base[it["array_start"]:it["array_start"] + 8]:
                        eds.append([(it["array_start"], bytes.fromhex(hx))])
        # every data byte once (for small files), then random multi-byte edits
        nsys = len(eds)
        for pos in range(lay.data_start, lay.size):
            if len(eds) - nsys < case["n"] // 2:
                eds.append([(pos, bytes([base[pos] ^ rng.choice([1, 0x80, 0xFF, 0x10])]))])
        while len(eds) - nsys < case["n"]:
            k = rng.randrange(1, 6)
            eds.append([(rng.randrange(lay.data_start, lay.size), bytes([rng.randrange(256)])) for _ in range(k)])
        return lay, [e for e in eds if apply_edit(base, e) != base]

    def observe(self, case):
        with Scratch() as tmp:
            base = dump_base(case, tmp)
            env = env_of(case, tmp, base)
            lay, eds = self.edits(case, base)
            res = forked_map(lambda ed: env.outcome(apply_edit(base, ed)), eds, per_item_timeout=90.0)
            codes = [verdict_code(o) for o in res]
            hist = {}
            for c in codes:
                hist[c] = hist.get(c, 0) + 1
            prob = [[k, o] for k, o in enumerate(res)
                    if not isinstance(o, str) and (o.get("rt") or o.get("valid") or o.get("wf") or o.get("next") or "loaded" not in o)]
            return {"size": len(base), "n": len(eds), "codes": rle(codes), "hist": hist, "problems": prob,
                    "file": base.hex()}

    def oracle(self, case, obs):
        base = bytes.fromhex(obs["file"])
        lay, eds = self.edits(case, base)
        if obs["n"] != len(eds):
            return [("adapter", "edit list mismatch")]
        out = []
        codes = unrle(obs["codes"])
        for k, c in enumerate(codes):
            if c == "EOFError":
                out.append(("eof-for-corruption", "data edit reported as end of stream"))
            elif c.split(":")[0] in BAD_EXC:
                out.append(("data:exception:" + c.split(":")[0], "data edit %r: %s" % (eds[k], c)))
        for k, o in obs["problems"]:
            cls = sorted({lay.classify(p)[1] or "padding" for p, _ in eds[k]})
            if "crash" in o or "hang" in o:
                out.append(("crash:data:" + "+".join(cls), "data edit %r: %r" % (eds[k], o)))
            elif "adapter_exception" in o:
                out.append(("adapter", o["adapter_exception"]))
            else:
                if o.get("next"):
                    out.append(("data:stream-desync", "edit %r loads but the next object on the stream no longer does: %s" % (eds[k], o["next"])))
                if o.get("wf"):
                    out.append(("data:not-well-formed", "edit %r loaded an object violating the table invariant: %s" % (eds[k], o["wf"])))
                if o.get("rt"):
                    out.append(("data:not-roundtrip", "edit %r loaded but does not round-trip: %s" % (eds[k], o["rt"])))
                if o.get("valid"):
                    out.append(("data:invalid-ts:" + "+".join(x.replace(" ", "_") for x in o["valid"]),
                                "edit %r (items %s): tskit.load returned an invalid tree sequence: %s" % (eds[k], "+".join(cls), o["valid"])))
        seen, uniq = set(), []
        for k, m in out:
            if k not in seen:
                seen.add(k)
                uniq.append((k, m))
        return uniq

    def coq_check(self, case, obs):
        e = case["env"]
        if e["api"] == "ts":
            return None     # the tree-sequence validity gate belongs to C02's model
        base = bytes.fromhex(obs["file"])
        if len(base) > 9000:
            return None
        lay, eds = self.edits(case, base)
        codes = unrle(obs["codes"])
        terms = []
        for k, (ed, c) in enumerate(zip(eds, codes)):
            if c in ("hang", "adapter") or (k % 4 and c != "crash" and k >= 40):
                continue
            subs = "[" + "; ".join("(%d, %s)" % (p, clist(bs)) for p, bs in ed) + "]"
            terms.append("verdict_agrees (load_verdict %s %s %s) %s" % (cb(e["skip_tables"]), cb(e["skip_ref"]), stream_term(e, "(subst_many f %s)" % subs), vcode(c, e["api"])))
        return "(let f := %s in forallb (fun b : bool => b) [%s])" % (clist(base), "; ".join(terms))


FAMILIES = [Truncate, Subst, Multi, Data]
NOT_COVERED = [
    "I/O errors of the operating system (short reads that are not end-of-file, EIO)",
    "files larger than a few KB (every theorem is size-independent; the enumeration is over small files)",
    "the validity gate of tskit.load is checked by an independent Python validity check here, its model belongs to C02",
]
