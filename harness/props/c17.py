"""C17 — text table dumps reload to the same tree sequence.

Families
  roundtrip  valid tree sequences with schema-less binary metadata (incl. empty, NUL,
             0xFF, TAB/NL bytes), non-trivial individuals and migrations x precision:
             dump_text -> load_text (Base64 metadata, strict tab mode); every table is
             compared row by row with the original (edges and migrations as multisets:
             load_text sorts).  The dumped text is also compared with the Coq model of
             dump_text (rows -> text) and parsed by the Coq model of parse_*.
  parsers    parse_nodes/edges/sites/mutations/individuals/populations/migrations on
             hand-printed tables: shuffled column order, unknown extra columns, omitted
             optional columns (= documented defaults), ragged rows without the trailing
             metadata token, comma-separated children.
  b64        base64.b64encode / b64decode (as called by text_formats / parse_*) against
             the Coq model on arbitrary byte strings and on damaged encodings.
"""
import io
import math

from harness import gen_ts
from harness.common import cbool
from harness.runner import Family


def cz(n):
    """case files open Z_scope: plain numerals parse much faster than n%Z"""
    n = int(n)
    return "(%d)" % n if n < 0 else "%d" % n


def clist(xs, f=cz):
    return "[" + "; ".join(f(x) for x in xs) + "]"


NULL = -1
ALLELES = ("A", "C", "G", "T", "", "AC", "a b", "é", "GATTACA", " ", "0", "unknown")
SPECIAL_MD = ["", "00", "ff", "00ff00", "090a", "3d", "0d0a09", "ffffff", "000000", "2b2f", "41", "4142"]
B64_ALPHABET = "ABCDEFGHIJKLMNOPQRSTUVWXYZabcdefghijklmnopqrstuvwxyz0123456789+/"
TABLES = ("nodes", "edges", "sites", "mutations", "individuals", "populations", "migrations")


def own_b64(bs):
    """Independent Base64 encoder (RFC 4648), used to print metadata in the parser family."""
    out = []
    for k in range(0, len(bs), 3):
        chunk = bs[k:k + 3]
        n = int.from_bytes(chunk + b"\0" * (3 - len(chunk)), "big")
        cs = [B64_ALPHABET[(n >> s) & 63] for s in (18, 12, 6, 0)]
        if len(chunk) < 3:
            cs[3] = "="
        if len(chunk) < 2:
            cs[2] = "="
        out += cs
    return "".join(out)


def fhex(x):
    x = float(x)
    if x != x:
        return "nan"
    return x.hex()


def unhex(s):
    return float("nan") if s == "nan" else float.fromhex(s)


# ----------------------------------------------------------------------------------
# roundtrip
# ----------------------------------------------------------------------------------

LOCS = [0.0, -0.0, 1.0, -3.0, 0.1, 1 / 3, 1e-300, 1e22, 123456789.125, float("inf"), float("-inf"), 2.5e-7]


def gen_roundtrip(rng):
    desc = gen_ts.random_desc(rng, max_nodes=8, max_L=6, max_sites=rng.choice([4, 4, 6]), max_muts=4, metadata=True,
                              individuals=True, populations=True, migrations=True, alleles=ALLELES,
                              unknown_times=False,
                              scale=rng.choice([1, 1, 0.5, 0.25, 2.5, 0.125, 1024.0, 0.0009765625]))
    # mutation times are known or unknown PER SITE (the validity rule is per site): all known,
    # all unknown, or a mix across sites in either order
    mode = rng.choice(["known", "unknown", "mix", "mix", "mix"])
    for j in range(len(desc["sites"])):
        blank = mode == "unknown" or (mode == "mix" and rng.random() < 0.5)
        if blank:
            for m in desc["mutations"]:
                if m[0] == j:
                    m[4] = None
    # class 11: ids with two / three digits — extra isolated nodes, and rows at 63/64/65, 127..129
    if rng.random() < 0.03:
        target = rng.choice([63, 64, 65, 100, 127, 128, 129])
        while len(desc["nodes"]) < target:
            desc["nodes"].append([rng.choice([0, 0, 1]), 0, NULL, NULL, ""])
    # class 1: node ids need not follow time order (edges / mutations / migrations are remapped,
    # the node rows carry their individual / population with them)
    desc, _pi = gen_ts.permute_node_ids(rng, desc, p=0.5)
    # application-defined flag bits on top of the sample flag
    for nd in desc["nodes"]:
        if rng.random() < 0.2:
            nd[0] |= rng.choice([1 << 16, 1 << 19, 1 << 31])
    if rng.random() < 0.5 and len(desc["populations"]) < 2 and desc["nodes"]:
        # make migrations possible more often
        while len(desc["populations"]) < 2:
            desc["populations"].append([gen_ts.hx(rng)])
        L = desc["L"]
        tmax = max(nd[1] for nd in desc["nodes"])
        for _ in range(rng.randrange(1, 4)):
            a = rng.randrange(0, L)
            desc["migrations"].append([a, rng.randrange(a + 1, L + 1), rng.randrange(len(desc["nodes"])),
                                       rng.randrange(2), rng.randrange(2), rng.randrange(0, tmax + 2), gen_ts.hx(rng)])
        desc["migrations"].sort(key=lambda m: m[5])
    desc["tscale"] = rng.choice([1, 1, 0.5, 0.125, 1.5, 3.0, 1e-3 * 1.024])  # last one: needs many digits
    # metadata: sprinkle the special byte strings over every table
    for tab, col in (("nodes", 4), ("edges", 4), ("sites", 2), ("mutations", 5), ("individuals", 3),
                     ("populations", 0), ("migrations", 6)):
        for row in desc[tab]:
            r = rng.random()
            if r < 0.35:
                row[col] = rng.choice(SPECIAL_MD)
            elif r < 0.45:
                row[col] = bytes(rng.randrange(256) for _ in range(rng.randrange(4, 40))).hex()
    for row in desc["individuals"]:
        row[0] = rng.choice([0, 1, 2, 3, 65536, 2 ** 31, 2 ** 32 - 1])
        row[1] = [fhex(rng.choice(LOCS) if rng.random() < 0.7 else rng.uniform(-1e6, 1e6))
                  for _ in range(rng.choice([0, 0, 1, 2, 3]))]
    desc["provenances"] = [[rng.choice(["2024-01-01T00:00:00", "", "t 1", "1999-12-31T23:59:59.999999"]),
                            rng.choice(['{"software": {"name": "x"}}', "", "free text, with = and spaces", "{}", "é"])]
                           for _ in range(rng.choice([0, 1, 1, 2]))]
    # class 8: one ragged column all-empty beside non-empty siblings
    for tab, col, empty in rng.sample([("individuals", 1, []), ("individuals", 2, []), ("individuals", 3, ""),
                                       ("nodes", 4, ""), ("sites", 1, ""), ("sites", 2, ""), ("mutations", 2, ""),
                                       ("mutations", 5, ""), ("populations", 0, ""), ("migrations", 6, ""),
                                       ("edges", 4, "")], rng.choice([0, 0, 1, 1, 2])):
        for row in desc[tab]:
            row[col] = type(empty)()
    # class 11: metadata lengths around the Base64 / line-length boundaries
    if rng.random() < 0.12:
        for tab, col in (("nodes", 4), ("sites", 2), ("mutations", 5), ("individuals", 3), ("populations", 0)):
            for row in desc[tab]:
                if rng.random() < 0.3:
                    n = rng.choice([47, 48, 49, 62, 63, 64, 65, 66, 95, 96, 97, 190, 191, 192, 193])
                    row[col] = bytes(rng.randrange(256) for _ in range(n)).hex()
    if rng.random() < 0.04:
        for row in desc["individuals"]:
            row[1] = [fhex(rng.choice(LOCS)) for _ in range(rng.choice([63, 64, 65]))]
    case = {"desc": desc, "extra_precision": rng.choice([0, 0, 0, 1, 3, 10]), "default_precision": rng.random() < 0.3}
    return case


def build_ts(desc):
    import tskit
    s, ts_ = desc.get("scale", 1), desc.get("tscale", 1)
    tc = tskit.TableCollection(desc["L"] * s)
    for m, in desc["populations"]:
        tc.populations.add_row(metadata=bytes.fromhex(m))
    for fl, loc, par, m in desc["individuals"]:
        tc.individuals.add_row(flags=fl, location=[unhex(x) for x in loc], parents=par, metadata=bytes.fromhex(m))
    for fl, t, p, i, m in desc["nodes"]:
        tc.nodes.add_row(flags=fl, time=t * ts_, population=p, individual=i, metadata=bytes.fromhex(m))
    for l, r, p, c, m in desc["edges"]:
        tc.edges.add_row(l * s, r * s, p, c, metadata=bytes.fromhex(m))
    for pos, a, m in desc["sites"]:
        tc.sites.add_row(pos * s, a, metadata=bytes.fromhex(m))
    for site, node, d, par, t, m in desc["mutations"]:
        tc.mutations.add_row(site, node, d, parent=par, time=tskit.UNKNOWN_TIME if t is None else t * ts_,
                             metadata=bytes.fromhex(m))
    for l, r, node, src, dst, t, m in desc["migrations"]:
        tc.migrations.add_row(l * s, r * s, node, src, dst, t * ts_, metadata=bytes.fromhex(m))
    for stamp, rec in desc.get("provenances", []):
        tc.provenances.add_row(record=rec, timestamp=stamp)
    tc.sort()
    return tc.tree_sequence()


def table_rows(ts):
    import tskit
    t = ts.tables
    out = {}
    out["nodes"] = [[int(r.flags & 1), fhex(r.time), int(r.population), int(r.individual), r.metadata.hex()] for r in t.nodes]
    out["node_flags"] = [int(r.flags) for r in t.nodes]
    out["edges"] = [[fhex(r.left), fhex(r.right), int(r.parent), int(r.child)] for r in t.edges]
    out["edge_metadata"] = [r.metadata.hex() for r in t.edges]
    out["sites"] = [[fhex(r.position), r.ancestral_state, r.metadata.hex()] for r in t.sites]
    out["mutations"] = [[int(r.site), int(r.node), "unknown" if tskit.is_unknown_time(r.time) else fhex(r.time),
                         r.derived_state, int(r.parent), r.metadata.hex()] for r in t.mutations]
    out["individuals"] = [[int(r.flags), [fhex(x) for x in r.location], [int(x) for x in r.parents], r.metadata.hex()]
                          for r in t.individuals]
    out["populations"] = [[r.metadata.hex()] for r in t.populations]
    out["migrations"] = [[fhex(r.left), fhex(r.right), int(r.node), int(r.source), int(r.dest), fhex(r.time),
                          r.metadata.hex()] for r in t.migrations]
    out["sequence_length"] = fhex(ts.sequence_length)
    return out


def needed_precision(xs):
    need = 0
    for x in xs:
        p = 0
        while p <= 40 and float("%.*f" % (p, x)) != x:
            p += 1
        if p > 40:
            return None
        need = max(need, p)
    return need


def observe_roundtrip(case):
    import tskit
    ts = build_ts(case["desc"])
    orig = table_rows(ts)
    t = ts.tables
    coords = list(t.nodes.time) + list(t.edges.left) + list(t.edges.right) + list(t.sites.position)
    need = needed_precision([float(x) for x in coords])
    if need is None:
        return {"skip": "no finite precision suffices"}
    prec = need + case["extra_precision"]
    if case["default_precision"] and need <= 6:
        prec = None
    bufs = {k: io.StringIO() for k in TABLES}
    kw = dict(bufs)
    if prec is not None:
        kw["precision"] = prec
    kw["base64_metadata"] = True
    obs = {"orig": orig, "precision": prec, "need": need}
    try:
        ts.dump_text(**kw)
    except Exception as e:
        obs["dump_err"] = "%s: %s" % (type(e).__name__, str(e)[:200])
        return obs
    texts = {k: bufs[k].getvalue() for k in TABLES}
    obs["text"] = texts
    pbuf = io.StringIO()
    ts.dump_text(provenances=pbuf)
    obs["provenance_text"] = pbuf.getvalue()
    obs["provenances"] = [[r.timestamp, r.record] for r in ts.tables.provenances]
    try:
        ts2 = tskit.load_text(**{k: io.StringIO(v) for k, v in texts.items()},
                              sequence_length=ts.sequence_length, strict=True, base64_metadata=True)
        obs["loaded"] = table_rows(ts2)
    except Exception as e:
        obs["load_err"] = "%s: %s" % (type(e).__name__, str(e)[:200])
    # load_text without a population file: the documented back-fill
    try:
        kw2 = {k: io.StringIO(v) for k, v in texts.items() if k != "populations"}
        ts3 = tskit.load_text(**kw2, sequence_length=ts.sequence_length, strict=True, base64_metadata=True)
        obs["backfill"] = [r.metadata.hex() for r in ts3.tables.populations]
    except Exception as e:
        obs["backfill"] = {"err": "%s: %s" % (type(e).__name__, str(e)[:200])}
    # the individual parsers on the same text (no sort in between)
    parsed = {}
    for k in TABLES:
        fn = getattr(tskit, "parse_" + k)
        try:
            tab = fn(io.StringIO(texts[k]), strict=True) if k == "edges" else \
                fn(io.StringIO(texts[k]), strict=True, base64_metadata=True)
            parsed[k] = rows_of_table(k, tab)
        except Exception as e:
            parsed[k] = {"err": "%s: %s" % (type(e).__name__, str(e)[:200])}
    obs["parsed"] = parsed
    return obs


def rows_of_table(kind, tab):
    import tskit
    if kind == "nodes":
        return [[int(r.flags), fhex(r.time), int(r.population), int(r.individual), r.metadata.hex()] for r in tab]
    if kind == "edges":
        return [[fhex(r.left), fhex(r.right), int(r.parent), int(r.child)] for r in tab]
    if kind == "sites":
        return [[fhex(r.position), r.ancestral_state, r.metadata.hex()] for r in tab]
    if kind == "mutations":
        return [[int(r.site), int(r.node), "unknown" if tskit.is_unknown_time(r.time) else fhex(r.time),
                 r.derived_state, int(r.parent), r.metadata.hex()] for r in tab]
    if kind == "individuals":
        return [[int(r.flags), [fhex(x) for x in r.location], [int(x) for x in r.parents], r.metadata.hex()] for r in tab]
    if kind == "populations":
        return [[r.metadata.hex()] for r in tab]
    if kind == "migrations":
        return [[fhex(r.left), fhex(r.right), int(r.node), int(r.source), int(r.dest), fhex(r.time), r.metadata.hex()]
                for r in tab]
    raise ValueError(kind)


FIELDS = {
    "nodes": ["is_sample", "time", "population", "individual", "metadata"],
    "edges": ["left", "right", "parent", "child"],
    "sites": ["position", "ancestral_state", "metadata"],
    "mutations": ["site", "node", "time", "derived_state", "parent", "metadata"],
    "individuals": ["flags", "location", "parents", "metadata"],
    "populations": ["metadata"],
    "migrations": ["left", "right", "node", "source", "dest", "time", "metadata"],
}
MULTISET = ("edges", "migrations")


def compare_tables(a, b, prefix):
    out = []
    for k in TABLES:
        ra, rb = a[k], b[k]
        if isinstance(rb, dict):
            out.append(("%s-%s-error" % (prefix, k), rb["err"]))
            continue
        if k in MULTISET:
            ra, rb = sorted(ra, key=repr), sorted(rb, key=repr)
        if len(ra) != len(rb):
            out.append(("%s-%s-rowcount" % (prefix, k), "%d rows became %d" % (len(ra), len(rb))))
            continue
        for i, (x, y) in enumerate(zip(ra, rb)):
            if x != y:
                f = next(n for n, u, v in zip(FIELDS[k], x, y) if u != v)
                out.append(("%s-%s-%s" % (prefix, k, f), "row %d: %r became %r" % (i, x, y)))
                break
    return out


# dumped text, token by token, against the original rows (own Base64, float(token) == value)
DUMP_COLS = {
    "nodes": ["id", "is_sample", "time", "population", "individual", "metadata"],
    "edges": ["left", "right", "parent", "child", "metadata"],
    "sites": ["position", "ancestral_state", "metadata"],
    "mutations": ["site", "node", "time", "derived_state", "parent", "metadata"],
    "individuals": ["id", "flags", "location", "parents", "metadata"],
    "populations": ["id", "metadata"],
    "migrations": ["left", "right", "node", "source", "dest", "time", "metadata"],
}


def dump_tokens_ok(kind, col, tok, i, row, edge_md):
    """row is in table_rows layout"""
    val = dict(zip(FIELDS[kind], row))
    if col == "id":
        return tok == str(i)
    if col == "metadata":
        md = edge_md if kind == "edges" else val["metadata"]
        return tok == own_b64(bytes.fromhex(md))
    v = val[col]
    if col in ("left", "right", "position", "time"):
        if v == "unknown":
            return tok == "unknown"
        try:
            return tok != "unknown" and fhex(float(tok)) == v
        except ValueError:
            return False
    if col == "location":
        toks = tok.split(",") if tok else []
        try:
            return [fhex(float(t)) for t in toks] == v
        except ValueError:
            return False
    if col == "parents":
        return tok == ",".join(str(x) for x in v)
    return tok == str(v)


def check_dump_text(obs):
    out = []
    for kind in TABLES:
        lines = obs["text"][kind].split("\n")
        rows = obs["orig"][kind]
        cols = DUMP_COLS[kind]
        trailing = 1 if kind == "migrations" else 0
        if lines[0].split("\t") != cols or lines[-1] != "" or len(lines) != len(rows) + 2:
            out.append(("dump-%s-shape" % kind, "header %r, %d lines for %d rows" % (lines[0], len(lines) - 2, len(rows))))
            continue
        for i, (ln, row) in enumerate(zip(lines[1:-1], rows)):
            toks = ln.split("\t")
            if len(toks) != len(cols) + trailing or (trailing and toks[-1] != ""):
                out.append(("dump-%s-fieldcount" % kind, "row %d: %r" % (i, ln)))
                break
            emd = obs["orig"]["edge_metadata"][i] if kind == "edges" else None
            badc = [c for c, t in zip(cols, toks) if not dump_tokens_ok(kind, c, t, i, row, emd)]
            if badc:
                out.append(("dump-%s-%s" % (kind, badc[0]), "row %d: %r for %r" % (i, ln, row)))
                break
    return out


def oracle_roundtrip(case, obs):
    if "skip" in obs:
        return []
    if "dump_err" in obs:
        return [("dump-error", obs["dump_err"])]
    out = check_dump_text(obs)
    if "load_err" in obs:
        out.append(("load-error", obs["load_err"]))
    else:
        out += compare_tables(obs["orig"], obs["loaded"], "reload")
        if obs["loaded"]["sequence_length"] != obs["orig"]["sequence_length"]:
            out.append(("reload-sequence-length", "%s vs %s" % (obs["loaded"]["sequence_length"], obs["orig"]["sequence_length"])))
    # provenances: id, timestamp, record, every row closed by a TAB (no reader exists)
    if "provenance_text" in obs and not out:
        want = "id\ttimestamp\trecord\n" + "".join("%d\t%s\t%s\t\n" % (i, a, b) for i, (a, b) in enumerate(obs["provenances"]))
        if obs["provenance_text"] != want:
            out.append(("dump-provenances", "%r, expected %r" % (obs["provenance_text"], want)))
    # edge metadata is written by dump_text and has no reader: reloaded edges carry none
    if "loaded" in obs and not out and any(obs["loaded"]["edge_metadata"]):
        out.append(("reload-edges-metadata-appeared", repr(obs["loaded"]["edge_metadata"])))
    # no population file: "a minimal set of rows are added" for the populations the nodes refer to
    if "backfill" in obs and not out:
        pops = [r[2] for r in obs["orig"]["nodes"]] + [-1]
        want = [""] * (max(pops) + 1)
        if obs["backfill"] != want and not (isinstance(obs["backfill"], dict) and obs["orig"]["migrations"]):
            out.append(("load-text-population-backfill", "expected %d empty populations, got %r" % (len(want), obs["backfill"])))
    # parse_* directly: same rows in the same order (flags reduced to the sample flag)
    o2 = dict(obs["orig"])
    o2["nodes"] = [[r[0]] + r[1:] for r in obs["orig"]["nodes"]]
    p2 = dict(obs["parsed"])
    out += [(k.replace("reload", "parse"), m) for k, m in compare_tables_ordered(o2, p2)]
    # one key per case (the first), so that ./check groups equal failures into one replay
    return out[:1]


def compare_tables_ordered(a, b):
    out = []
    for k in TABLES:
        ra, rb = a[k], b[k]
        if isinstance(rb, dict):
            out.append(("parse-%s-error" % k, rb["err"]))
            continue
        if ra != rb:
            if len(ra) != len(rb):
                out.append(("parse-%s-rowcount" % k, "%d rows became %d" % (len(ra), len(rb))))
                continue
            i = next(i for i in range(len(ra)) if ra[i] != rb[i])
            f = next(n for n, u, v in zip(FIELDS[k], ra[i], rb[i]) if u != v)
            out.append(("parse-%s-%s" % (k, f), "row %d: %r became %r" % (i, ra[i], rb[i])))
    return out


class Roundtrip(Family):
    name = "roundtrip"
    shard = 100
    workers = 8
    timeout = 60.0
    prelude = "From Coq Require Import String.\nFrom TskVerif Require Import Base.Common C17.Model.\nOpen Scope Z_scope."

    def generate(self, rng, tier):
        n = 400 if tier == "quick" else 4000
        for _ in range(n):
            yield gen_roundtrip(rng)

    def observe(self, case):
        return observe_roundtrip(case)

    def oracle(self, case, obs):
        return oracle_roundtrip(case, obs)

    def coq_check(self, case, obs):
        return coq_roundtrip(case, obs)

    def nontrivial(self, case, obs):
        o = obs.get("orig")
        return bool(o) and len(o["nodes"]) > 1 and (len(o["edges"]) > 0 or len(o["sites"]) > 0)

    def describe(self, case, obs):
        o = obs.get("orig") or {}
        mds = [r[-1] for k in ("nodes", "sites", "mutations", "individuals", "populations", "migrations") for r in o.get(k, [])]
        return {
            "precision": obs.get("precision"),
            "migrations": min(len(o.get("migrations", [])), 3),
            "individuals": min(len(o.get("individuals", [])), 3),
            "mutations": min(len(o.get("mutations", [])), 8),
            "unknown_times": any(r[2] == "unknown" for r in o.get("mutations", [])),
            "time_mix_across_sites": len({(r[0], r[2] == "unknown") for r in o.get("mutations", [])}) > 1
            and len({r[2] == "unknown" for r in o.get("mutations", [])}) > 1,
            "empty_state": any(r[3] == "" for r in o.get("mutations", [])) or any(r[1] == "" for r in o.get("sites", [])),
            "md_empty": any(m == "" for m in mds), "md_nul": any("00" in m for m in mds),
            "md_ff": any("ff" in m for m in mds),
            "edge_metadata_dropped_by_design": any(o.get("edge_metadata", [])),
        }

    def shrink(self, case):
        import copy
        d = case["desc"]
        for tab in ("migrations", "mutations", "sites"):
            if d[tab] and tab != "sites":
                c = copy.deepcopy(case)
                c["desc"][tab] = []
                yield c
        if d["sites"]:
            c = copy.deepcopy(case)
            c["desc"]["sites"], c["desc"]["mutations"] = [], []
            yield c


# ----------------------------------------------------------------------------------
# parsers
# ----------------------------------------------------------------------------------

# kind -> (required columns, optional columns with documented default, minimum tokens per row)
SCHEMA = {
    "nodes": (["is_sample", "time"], {"population": NULL, "individual": NULL, "metadata": ""}),
    "edges": (["left", "right", "parent", "child"], {}),
    "sites": (["position", "ancestral_state"], {"metadata": ""}),
    "mutations": (["site", "node", "derived_state"], {"time": "unknown", "parent": NULL, "metadata": ""}),
    "individuals": (["flags"], {"location": [], "parents": [], "metadata": ""}),
    "populations": (["metadata"], {}),
    "migrations": (["left", "right", "node", "source", "dest", "time"], {"metadata": ""}),
}
EXTRA_NAMES = ["id", "ID", "comment", "x", "Time", "meta data", "is_sample ", "", "flags2", "left_", "node_id"]
FLOATS = [0.0, 1.0, 2.5, 0.1, 1 / 3, 1e-9, 123456.789, 1e15, 7.0, 0.125]


def rnd_float(rng):
    return rng.choice(FLOATS) if rng.random() < 0.7 else rng.uniform(0, 100)


def rnd_md(rng):
    r = rng.random()
    if r < 0.3:
        return ""
    if r < 0.6:
        return rng.choice(SPECIAL_MD)
    return bytes(rng.randrange(256) for _ in range(rng.choice([1, 2, 3, 4, 5, 6, 8, 9, 11, 1, 2, 3, 5, 7, 47, 48, 49, 96]))).hex()


def rnd_value(rng, kind, col):
    """A logical value for (table kind, column)."""
    if col == "metadata":
        return rnd_md(rng)
    if col in ("left", "right", "position"):
        return fhex(rnd_float(rng))
    if col == "time":
        if kind == "mutations" and rng.random() < 0.4:
            return "unknown"
        return fhex(rnd_float(rng))
    if col == "is_sample":
        return rng.choice([0, 1, 1, 2, -1])
    if col in ("population", "individual", "parent", "source", "dest"):
        return rng.choice([NULL, 0, 1, 2, 7])
    if col in ("site", "node"):
        return rng.randrange(0, 6)
    if col == "child":
        return [rng.randrange(0, 9) for _ in range(rng.choice([1, 1, 1, 2, 3]))]
    if col == "flags":
        return rng.choice([0, 1, 2, 3, 2 ** 32 - 1])
    if col in ("ancestral_state", "derived_state"):
        return rng.choice(ALLELES)
    if col == "location":
        return [fhex(rnd_float(rng)) for _ in range(rng.choice([0, 0, 0, 1, 1, 2, 2, 3, 3, 3, 3, 1, 64, 65]))]
    if col == "parents":
        return [rng.choice([NULL, 0, 1, 5, 100, 65536]) for _ in range(rng.choice([0, 0, 0, 1, 1, 2, 2, 2, 1, 0, 1, 2, 63, 64]))]
    raise ValueError(col)


def token_of(col, v):
    if col == "metadata":
        return own_b64(bytes.fromhex(v))
    if col in ("left", "right", "position", "time"):
        return "unknown" if v == "unknown" else repr(unhex(v))
    if col == "location":
        return ",".join(repr(unhex(x)) for x in v)
    if col in ("parents", "child"):
        return ",".join(str(x) for x in v)
    return str(v)


WS_GAPS = [" ", "\t", "  ", " \t ", "\r", "\x0b", "\x0c", "\x1c", "\x1f ", "\t\t"]


def nonempty_value(rng, kind, col):
    """strict=False cannot represent empty tokens (documented): draw values until the token is a word."""
    for _ in range(50):
        v = rnd_value(rng, kind, col)
        t = token_of(col, v)
        if t and not any(ch.isspace() for ch in t):
            return v
    raise RuntimeError("no word value for %s/%s" % (kind, col))


def gen_ws_case(rng, kind=None):
    """A table for the relaxed mode: words separated by arbitrary whitespace runs."""
    kind = kind or rng.choice(TABLES)
    req, opt = SCHEMA[kind]
    present = [c for c in opt if rng.random() < 0.6]
    extras = rng.sample([e for e in EXTRA_NAMES if e and not any(ch.isspace() for ch in e)], rng.randrange(0, 3))
    cols = req + present + extras
    if rng.random() < 0.8:
        rng.shuffle(cols)
    rows = []
    for _ in range(rng.randrange(0, 5)):
        rec = {c: nonempty_value(rng, kind, c) for c in req + present}
        for e in extras:
            rec["x:" + e] = rng.choice(["0", "junk", "1.5", "unknown", "=", "AA=="])
        rows.append(rec)

    def line(toks):
        out = rng.choice(["", "", " ", "\t "])
        for k, t in enumerate(toks):
            out += (rng.choice(WS_GAPS) if k else "") + t
        return out + rng.choice(["", "", " ", "\t", " \r"])
    lines = [line(cols)]
    for rec in rows:
        lines.append(line([rec["x:" + c] if c in extras else token_of(c, rec[c]) for c in cols]))
    return {"kind": kind, "cols": cols, "present": sorted(present), "strict": False,
            "rows": [{k: v for k, v in r.items() if not k.startswith("x:")} for r in rows],
            "text": "\n".join(lines) + "\n"}


def gen_parser_case(rng, kind=None, minimal=False):
    kind = kind or rng.choice(TABLES)
    req, opt = SCHEMA[kind]
    present = [c for c in opt if (not minimal and rng.random() < 0.6)]
    extras = []
    if not minimal and rng.random() < 0.6:
        extras = rng.sample(EXTRA_NAMES, rng.randrange(1, 4))
    cols = req + present + extras
    if rng.random() < 0.8:
        rng.shuffle(cols)
    nrows = rng.randrange(0, 6)
    rows = []
    for _ in range(nrows):
        rec = {c: rnd_value(rng, kind, c) for c in req + present}
        for e in extras:
            rec["x:" + e] = rng.choice(["", "0", "junk", "1.5", "unknown", "a b", "=", "AA=="])
        rows.append(rec)
    ragged = bool(cols) and cols[-1] == "metadata" and kind != "populations" and rng.random() < 0.5
    lines = ["\t".join(cols)]
    for rec in rows:
        toks = [rec["x:" + c] if c in extras else token_of(c, rec[c]) for c in cols]
        if ragged and rec["metadata"] == "" and rng.random() < 0.7:
            toks = toks[:-1]
        lines.append("\t".join(toks))
    text = "\n".join(lines) + "\n"
    return {"kind": kind, "cols": cols, "present": sorted(present), "rows": [{k: v for k, v in r.items() if not k.startswith("x:")} for r in rows],
            "text": text}


def expected_rows(case):
    kind = case["kind"]
    req, opt = SCHEMA[kind]
    out = []
    for rec in case["rows"]:
        g = lambda c: rec[c] if c in rec else opt[c]       # noqa: E731
        if kind == "nodes":
            out.append([1 if rec["is_sample"] != 0 else 0, rec["time"], g("population"), g("individual"), g("metadata")])
        elif kind == "edges":
            for ch in rec["child"]:
                out.append([rec["left"], rec["right"], rec["parent"], ch])
        elif kind == "sites":
            out.append([rec["position"], rec["ancestral_state"], g("metadata")])
        elif kind == "mutations":
            out.append([rec["site"], rec["node"], g("time"), rec["derived_state"], g("parent"), g("metadata")])
        elif kind == "individuals":
            out.append([rec["flags"], g("location"), g("parents"), g("metadata")])
        elif kind == "populations":
            out.append([rec["metadata"]])
        elif kind == "migrations":
            out.append([rec["left"], rec["right"], rec["node"], rec["source"], rec["dest"], rec["time"], g("metadata")])
    return out


def observe_parser(case):
    import tskit
    fn = getattr(tskit, "parse_" + case["kind"])
    strict = case.get("strict", True)
    try:
        if case["kind"] == "edges":
            tab = fn(io.StringIO(case["text"]), strict=strict)
        else:
            tab = fn(io.StringIO(case["text"]), strict=strict, base64_metadata=True)
        return {"rows": rows_of_table(case["kind"], tab)}
    except Exception as e:
        return {"err": type(e).__name__, "msg": str(e)[:200]}


def oracle_parser(case, obs):
    kind = case["kind"]
    exp = expected_rows(case)
    if "err" in obs:
        return [("parse-%s-error" % kind, "%s: %s" % (obs["err"], obs["msg"]))]
    got = obs["rows"]
    if kind == "nodes":
        got = [[r[0] & 1] + r[1:] + [r[0]] for r in got]
        for r in got:
            if r[-1] not in (0, 1):
                return [("parse-nodes-flags", "flags %d is not 0 or NODE_IS_SAMPLE" % r[-1])]
        got = [r[:-1] for r in got]
    if len(got) != len(exp):
        return [("parse-%s-rowcount" % kind, "expected %d rows, got %d" % (len(exp), len(got)))]
    for i, (x, y) in enumerate(zip(exp, got)):
        if x != y:
            f = next(n for n, u, v in zip(FIELDS[kind], x, y) if u != v)
            tag = "default" if f in SCHEMA[kind][1] and f not in case["present"] else "value"
            return [("parse-%s-%s-%s" % (kind, f, tag), "row %d: expected %r got %r (columns %r)" % (i, x, y, case["cols"]))]
    return []


class Parsers(Family):
    name = "parsers"
    shard = 250
    workers = 8
    prelude = "From Coq Require Import String.\nFrom TskVerif Require Import Base.Common C17.Model.\nOpen Scope Z_scope."

    def generate(self, rng, tier):
        for kind in TABLES:
            for _ in range(6):
                yield gen_parser_case(rng, kind, minimal=True)
        n = 1200 if tier == "quick" else 12000
        for _ in range(n):
            yield gen_parser_case(rng)
        for kind in TABLES:
            yield gen_ws_case(rng, kind)
        for _ in range(300 if tier == "quick" else 4000):
            yield gen_ws_case(rng)

    def observe(self, case):
        return observe_parser(case)

    def oracle(self, case, obs):
        return oracle_parser(case, obs)

    def coq_check(self, case, obs):
        return coq_parser(case, obs)

    def nontrivial(self, case, obs):
        return len(case["rows"]) > 0 and "rows" in obs

    def describe(self, case, obs):
        req, opt = SCHEMA[case["kind"]]
        return {"kind": case["kind"], "strict": case.get("strict", True), "n_optional_present": len(case["present"]),
                "n_extra": len(case["cols"]) - len(req) - len(case["present"]),
                "shuffled": case["cols"][:len(req)] != req, "rows": len(case["rows"]),
                "error": obs.get("err", "none")}

    def shrink(self, case):
        import copy
        for k in range(len(case["rows"])):
            c = copy.deepcopy(case)
            del c["rows"][k]
            lines = c["text"].split("\n")
            del lines[k + 1]
            c["text"] = "\n".join(lines)
            yield c


# ----------------------------------------------------------------------------------
# base64
# ----------------------------------------------------------------------------------


def gen_b64(rng, tier):
    for n in range(0, 10):
        for _ in range(3):
            yield {"op": "roundtrip", "bytes": bytes(rng.randrange(256) for _ in range(n)).hex()}
    for b in (b"\x00", b"\xff", b"\x00\x00\x00", b"\xff\xff\xff", b"\xfb\xff", b"\t\n", bytes(range(256))):
        yield {"op": "roundtrip", "bytes": b.hex()}
    for _ in range(150 if tier == "quick" else 1500):
        yield {"op": "roundtrip", "bytes": bytes(rng.randrange(256) for _ in range(rng.randrange(0, 70))).hex()}
    # decoding of damaged text (the parser side accepts whatever b64decode accepts)
    for _ in range(250 if tier == "quick" else 2500):
        s = own_b64(bytes(rng.randrange(256) for _ in range(rng.randrange(0, 9))))
        s = list(s)
        for _k in range(rng.randrange(0, 4)):
            r = rng.random()
            pos = rng.randrange(0, len(s) + 1)
            if r < 0.3 and s:
                del s[min(pos, len(s) - 1)]
            elif r < 0.6:
                s.insert(pos, rng.choice("=AZaz09+/ -_\t.!"))
            elif s:
                s[min(pos, len(s) - 1)] = rng.choice("=Aa0+/*")
        yield {"op": "decode", "text": "".join(s)}


class B64(Family):
    name = "b64"
    workers = 4
    prelude = "From Coq Require Import String.\nFrom TskVerif Require Import Base.Common C17.Model.\nOpen Scope Z_scope."

    def generate(self, rng, tier):
        return gen_b64(rng, tier)

    def observe(self, case):
        import base64
        if case["op"] == "roundtrip":
            bs = bytes.fromhex(case["bytes"])
            enc = base64.b64encode(bs).decode("utf8")
            return {"enc": enc, "dec": base64.b64decode(enc.encode("utf8")).hex()}
        try:
            return {"dec": base64.b64decode(case["text"].encode("utf8")).hex()}
        except Exception as e:
            return {"err": type(e).__name__}

    def oracle(self, case, obs):
        if case["op"] != "roundtrip":
            return []
        out = []
        bs = bytes.fromhex(case["bytes"])
        if obs["enc"] != own_b64(bs):
            out.append(("b64-encode", "%r encodes to %r" % (bs, obs["enc"])))
        if obs["dec"] != case["bytes"]:
            out.append(("b64-roundtrip", "%r decodes to %r" % (bs, obs["dec"])))
        if any(c in obs["enc"] for c in "\t\n\r "):
            out.append(("b64-whitespace", repr(obs["enc"])))
        return out

    def coq_check(self, case, obs):
        return coq_b64(case, obs)

    def nontrivial(self, case, obs):
        return case["op"] == "decode" or len(case["bytes"]) > 0

    def describe(self, case, obs):
        if case["op"] == "roundtrip":
            return {"op": "roundtrip", "len_mod_3": (len(case["bytes"]) // 2) % 3}
        return {"op": "decode", "result": obs.get("err", "ok")}


# ----------------------------------------------------------------------------------
# Coq terms
# ----------------------------------------------------------------------------------

ERR_CODE = {"ValueError": 1, "IndexError": 2, "Error": 3}
EQB = {"nodes": "node_row_eqb", "edges": "edge_row_eqb", "sites": "site_row_eqb", "mutations": "mutation_row_eqb",
       "individuals": "individual_row_eqb", "populations": "bytes_eqb", "migrations": "migration_row_eqb"}


def cb(x):
    """bytes / str (utf-8) / hex-less list -> Coq list Z"""
    if isinstance(x, str):
        x = x.encode("utf8")
    return clist(list(x))


def ctext(t):
    """A text (str) as a Coq byte list through a string literal (fast to parse)."""
    if any(ord(ch) < 32 and ch not in "\t\n" for ch in t):
        return cb(t)
    return '(bs "%s"%%string)' % t.replace('"', '""')


def ctuple(xs):
    return "(" + ", ".join(xs) + ")"


def row_term(kind, r, ftok):
    """r: row in rows_of_table layout (nodes: sample flag first); ftok(field, value_hex) -> token str or None."""
    def f(v):
        t = ftok(v)
        if t is None:
            raise KeyError(v)
        return cb(t)
    if kind == "nodes":
        return ctuple([cbool(r[0] & 1), f(r[1]), cz(r[2]), cz(r[3]), cb(bytes.fromhex(r[4]))])
    if kind == "edges":
        return ctuple([f(r[0]), f(r[1]), cz(r[2]), cz(r[3])])
    if kind == "sites":
        return ctuple([f(r[0]), cb(r[1]), cb(bytes.fromhex(r[2]))])
    if kind == "mutations":
        t = "None" if r[2] == "unknown" else "(Some %s)" % f(r[2])
        return ctuple([cz(r[0]), cz(r[1]), t, cb(r[3]), cz(r[4]), cb(bytes.fromhex(r[5]))])
    if kind == "individuals":
        return ctuple([cz(r[0]), "[" + "; ".join(f(x) for x in r[1]) + "]", clist(r[2]), cb(bytes.fromhex(r[3]))])
    if kind == "populations":
        return cb(bytes.fromhex(r[0]))
    if kind == "migrations":
        return ctuple([f(r[0]), f(r[1]), cz(r[2]), cz(r[3]), cz(r[4]), f(r[5]), cb(bytes.fromhex(r[6]))])
    raise ValueError(kind)


FLOAT_COLS = ("left", "right", "position", "time", "location")


def float_tokens_of_text(text):
    """hex value -> a token in a float column of the text that converts to exactly that value."""
    out = {}
    lines = text.split("\n")
    header = lines[0].split("\t")
    for line in lines[1:]:
        for name, cell in zip(header, line.split("\t")):
            if name not in FLOAT_COLS:
                continue
            for tok in cell.split(","):
                try:
                    out.setdefault(fhex(float(tok)), tok)
                except ValueError:
                    pass
    return out


def rows_term(kind, rows, ftok):
    return "[" + "; ".join(row_term(kind, r, ftok) for r in rows) + "]"


def coq_parse_term(kind, text, result, ftok, tname=None, mode=""):
    """model parse of text = result (rows in rows_of_table layout, or {"err": class})."""
    if isinstance(result, dict):
        exp = "(Err %d)" % ERR_CODE.get(result["err"].split(":")[0], 99)
    else:
        try:
            exp = "(Ok %s)" % rows_term(kind, result, ftok)
        except KeyError:
            return "false"
    return "res_eqb (list_eqb %s) (c_parse_%s%s %s) %s" % (EQB[kind], kind, mode, tname or ctext(text), exp)


def coq_roundtrip(case, obs):
    if "text" not in obs:
        return None
    terms = []
    for k in TABLES:
        text = obs["text"][k]
        toks = float_tokens_of_text(text)
        ftok = toks.get
        rows = obs["orig"][k]
        try:
            if k == "edges":
                rt = "[" + "; ".join("(%s, %s)" % (row_term(k, r, ftok), cb(bytes.fromhex(m)))
                                     for r, m in zip(rows, obs["orig"]["edge_metadata"])) + "]"
            else:
                rt = rows_term(k, rows, ftok)
        except KeyError:
            terms.append("false")
            continue
        parsed = obs["parsed"][k]
        if k != "edges" and parsed == rows:
            terms.append("(let t := %s in let r := %s in bytes_eqb (c_dump_%s r) t && "
                         "res_eqb (list_eqb %s) (c_parse_%s t) (Ok r))" % (ctext(text), rt, k, EQB[k], k))
        else:
            terms.append("(let t := %s in bytes_eqb (c_dump_%s %s) t && %s)"
                         % (ctext(text), k, rt, coq_parse_term(k, text, parsed, ftok, tname="t")))
    if "provenance_text" in obs:
        terms.append("bytes_eqb (c_dump_provenances [%s]) %s"
                     % ("; ".join("(%s, %s)" % (cb(a), cb(b)) for a, b in obs["provenances"]), ctext(obs["provenance_text"])))
    if isinstance(obs.get("backfill"), list):
        terms.append("list_eqb bytes_eqb (backfill_populations %s) [%s]"
                     % (clist([r[2] for r in obs["orig"]["nodes"]]), "; ".join(cb(bytes.fromhex(m)) for m in obs["backfill"])))
    return "(" + " && ".join(terms) + ")"


def coq_parser(case, obs):
    kind = case["kind"]
    if not case.get("strict", True):
        # float tokens straight from the logical rows (the text is not TAB separated)
        toks = {}
        for rec in case["rows"]:
            for c, v in rec.items():
                if c in FLOAT_COLS:
                    for x in (v if isinstance(v, list) else [v]):
                        if x != "unknown":
                            toks.setdefault(x, repr(unhex(x)))
        res = obs if "err" in obs else obs["rows"]
        return coq_parse_term(kind, case["text"], res, toks.get, mode="_ws")
    toks = float_tokens_of_text(case["text"])
    if "err" in obs:
        return coq_parse_term(kind, case["text"], obs, toks.get)
    return coq_parse_term(kind, case["text"], obs["rows"], toks.get)


# ----------------------------------------------------------------------------------
# base64_metadata=False: the repr path (pinned behaviour, not a round trip)
# ----------------------------------------------------------------------------------


class Repr(Family):
    """dump_text(base64_metadata=False) writes repr(bytes); parse_nodes(base64_metadata=False)
    takes the token itself as metadata.  The suite pins this; the model states it."""
    name = "repr"
    workers = 4
    prelude = "From Coq Require Import String.\nFrom TskVerif Require Import Base.Common C17.Model.\nOpen Scope Z_scope."

    def generate(self, rng, tier):
        fixed = [b"", b"abc", b"'", b'"', b"'\"", b"it's", b'say "hi"', b"\\", b"\t\n\r", b"\x00\x1f\x7f\x80\xff", bytes(range(256))]
        for k in range(0, len(fixed), 3):
            yield {"metadata": [b.hex() for b in fixed[k:k + 3]]}
        for _ in range(120 if tier == "quick" else 3000):
            n = rng.randrange(1, 4)
            yield {"metadata": [bytes(rng.choice([39, 34, 92, 9, 10, 13, 32, 65, 97, 0, 127, 128, 255, rng.randrange(256)])
                                      for _ in range(rng.randrange(0, 12))).hex() for _ in range(n)]}

    def observe(self, case):
        import tskit
        tc = tskit.TableCollection(1)
        for m in case["metadata"]:
            tc.nodes.add_row(flags=1, time=0, metadata=bytes.fromhex(m))
        ts = tc.tree_sequence()
        buf = io.StringIO()
        ts.dump_text(nodes=buf, base64_metadata=False)
        text = buf.getvalue()
        try:
            tab = tskit.parse_nodes(io.StringIO(text), strict=True, base64_metadata=False)
            back = [r.metadata.hex() for r in tab]
        except Exception as e:
            back = {"err": type(e).__name__}
        return {"text": text, "back": back}

    def oracle(self, case, obs):
        lines = obs["text"].split("\n")
        want = ["id\tis_sample\ttime\tpopulation\tindividual\tmetadata"] + \
               ["%d\t1\t%s\t-1\t-1\t%r" % (i, "0.000000", bytes.fromhex(m)) for i, m in enumerate(case["metadata"])] + [""]
        if lines != want:
            return [("repr-dump", "%r, expected %r" % (lines, want))]
        if obs["back"] != [repr(bytes.fromhex(m)).encode().hex() for m in case["metadata"]]:
            return [("repr-parse", "parse_nodes(base64_metadata=False) gave %r" % (obs["back"],))]
        return []

    def coq_check(self, case, obs):
        toks = [ln.split("\t")[5] for ln in obs["text"].split("\n")[1:-1]]
        if len(toks) != len(case["metadata"]):
            return "false"
        return "(" + " && ".join("bytes_eqb (bytes_repr %s) %s" % (cb(bytes.fromhex(m)), cb(t))
                                 for m, t in zip(case["metadata"], toks)) + ")"

    def describe(self, case, obs):
        bs_ = b"".join(bytes.fromhex(m) for m in case["metadata"])
        return {"apostrophe": b"'" in bs_, "double_quote": b'"' in bs_, "control": any(c < 32 for c in bs_)}


def coq_b64(case, obs):
    if case["op"] == "roundtrip":
        b = cb(bytes.fromhex(case["bytes"]))
        return ("(bytes_eqb (b64encode %s) %s && res_eqb bytes_eqb (b64decode %s) (Ok %s))"
                % (b, cb(obs["enc"]), cb(obs["enc"]), cb(bytes.fromhex(obs["dec"]))))
    exp = "(Err 3)" if "err" in obs else "(Ok %s)" % cb(bytes.fromhex(obs["dec"]))
    return "res_eqb bytes_eqb (b64decode %s) %s" % (cb(case["text"]), exp)


FAMILIES = [B64, Repr, Parsers, Roundtrip]
NOT_COVERED = [
    "edge metadata: written by dump_text, but parse_edges/load_text have no metadata column reader (reported, not counted)",
    "non-utf8 encodings; non-ASCII whitespace (U+00A0, U+2000...) with strict=False; base64_metadata=False is modelled as pinned behaviour only (repr family)",
    "states / metadata-free tokens containing TAB, NL or CR; provenances",
    "float <-> decimal conversion is CPython's (checked per case: float(token) == value)",
]
