(* Totality: on valid input the full model returns a tree for every k < num_trees (no OOB, no
   fuel exhaustion, no assertion failure). *)
From Coq Require Import List ZArith Bool Lia Sorting.Sorted Permutation.
From TskVerif Require Import Base.Common.
From TskVerif Require Import C01.Model.
From TskVerif Require Import C01.ArrayLemmas.
From TskVerif Require Import C01.SpanProofs.
From TskVerif Require Import C01.SweepProofs.
From TskVerif Require Import C01.ParentProofs.
From TskVerif Require Import C01.ProjProofs.
From TskVerif Require Import C01.TreeProofs.
From TskVerif Require Import C01.InductProofs.
From TskVerif Require Import C01.CountProofs.
From TskVerif Require Import C01.QueryProofs.
From TskVerif Require Import C01.LinkProofs.
From TskVerif Require Import C01.RepProofs.
Import ListNotations.
Open Scope Z_scope.

(* all per-node arrays have n entries *)
Definition Lens (n : nat) (t : tree) : Prop :=
  length (t_parent t) = n /\ length (t_lc t) = n /\ length (t_rc t) = n /\ length (t_ls t) = n /\
  length (t_rs t) = n /\ length (t_nc t) = n /\ length (t_edge t) = n /\ length (t_ns t) = n /\
  length (t_nt t) = n.

Ltac setter_ok :=
  intros (L1 & L2 & L3 & L4 & L5 & L6 & L7 & L8 & L9) Hu;
  match goal with |- exists t', ?f ?t ?u ?v = Ok t' /\ _ => unfold f end;
  match goal with |- context [set ?l ?u ?v] =>
    destruct (set_ok l u v) as [a Sa]; [unfold zlen; lia|];
    rewrite Sa; cbn [bind]; eexists; split; [reflexivity|];
    pose proof (set_length _ _ _ _ Sa); unfold Lens; simpl; repeat split; congruence
  end.

Lemma s_parent_ok n t u v : Lens n t -> 0 <= u < Z.of_nat n -> exists t', s_parent t u v = Ok t' /\ Lens n t'. Proof. setter_ok. Qed.
Lemma s_lc_ok n t u v : Lens n t -> 0 <= u < Z.of_nat n -> exists t', s_lc t u v = Ok t' /\ Lens n t'. Proof. setter_ok. Qed.
Lemma s_rc_ok n t u v : Lens n t -> 0 <= u < Z.of_nat n -> exists t', s_rc t u v = Ok t' /\ Lens n t'. Proof. setter_ok. Qed.
Lemma s_ls_ok n t u v : Lens n t -> 0 <= u < Z.of_nat n -> exists t', s_ls t u v = Ok t' /\ Lens n t'. Proof. setter_ok. Qed.
Lemma s_rs_ok n t u v : Lens n t -> 0 <= u < Z.of_nat n -> exists t', s_rs t u v = Ok t' /\ Lens n t'. Proof. setter_ok. Qed.
Lemma s_nc_ok n t u v : Lens n t -> 0 <= u < Z.of_nat n -> exists t', s_nc t u v = Ok t' /\ Lens n t'. Proof. setter_ok. Qed.
Lemma s_edge_ok n t u v : Lens n t -> 0 <= u < Z.of_nat n -> exists t', s_edge t u v = Ok t' /\ Lens n t'. Proof. setter_ok. Qed.
Lemma s_ns_ok n t u v : Lens n t -> 0 <= u < Z.of_nat n -> exists t', s_ns t u v = Ok t' /\ Lens n t'. Proof. setter_ok. Qed.
Lemma s_nt_ok n t u v : Lens n t -> 0 <= u < Z.of_nat n -> exists t', s_nt t u v = Ok t' /\ Lens n t'. Proof. setter_ok. Qed.

Lemma Lens_get n t (f : tree -> list Z) u :
  length (f t) = n -> 0 <= u < Z.of_nat n -> exists v, get (f t) u = Ok v.
Proof. intros H Hu. apply get_ok. unfold zlen. lia. Qed.

(* run one setter at the head of a bind chain *)
Ltac step lem :=
  match goal with
  | HL : Lens ?n ?t |- context [bind (?s ?t ?u ?v) _] =>
      let t1 := fresh "t" in let E := fresh "E" in let HL1 := fresh "HL" in
      destruct (lem n t u v HL) as (t1 & E & HL1); [lia | rewrite E; cbn [bind]; clear HL]
  end.
Ltac last_step lem :=
  match goal with
  | HL : Lens ?n ?t |- exists t', ?s ?t ?u ?v = Ok t' /\ _ => apply (lem n t u v HL); lia
  end.

(* every stored link is NULL or a real node *)
Definition RngL (N : Z) (t : tree) : Prop :=
  forall y v, (get (t_lc t) y = Ok v \/ get (t_rc t) y = Ok v \/ get (t_ls t) y = Ok v \/ get (t_rs t) y = Ok v) ->
              v = NULL \/ 0 <= v < N.

Lemma RngL_same N t t' : same_links t t' -> RngL N t -> RngL N t'.
Proof. intros (A & B & C & D & _) R y v H. apply (R y v). rewrite <- A, <- B, <- C, <- D. exact H. Qed.

Ltac nc_step :=
  match goal with HL' : Lens ?n ?tt |- context [get (t_nc ?tt) ?p] =>
    let X := fresh "X" in pose proof HL' as (_ & _ & _ & _ & _ & X & _);
    let v := fresh "v" in let Gv := fresh "Gv" in
    destruct (Lens_get n tt t_nc p X ltac:(lia)) as [v Gv]; rewrite Gv; cbn [bind]
  end.

Section BranchOk.
  Variables (N : Z) (n : nat).
  Hypothesis Hn : Z.of_nat n = N + 1.
  Hypothesis HN : 0 <= N.

  Lemma remove_branch_ok t p c :
    Lens n t -> RngL N t -> 0 <= p <= N -> 0 <= c <= N ->
    exists t', remove_branch t p c = Ok t' /\ Lens n t'.
  Proof.
    intros HL R Hp Hc.
    pose proof HL as (_ & _ & _ & L4 & L5 & _).
    destruct (Lens_get n t t_ls c L4 ltac:(lia)) as [lsib G1].
    destruct (Lens_get n t t_rs c L5 ltac:(lia)) as [rsib G2].
    assert (LS : lsib = NULL \/ 0 <= lsib < N) by (apply (R c lsib); auto).
    assert (RS : rsib = NULL \/ 0 <= rsib < N) by (apply (R c rsib); auto).
    unfold remove_branch. rewrite G1, G2. cbn [bind].
    destruct (lsib =? NULL) eqn:E1; destruct (rsib =? NULL) eqn:E2;
      try (apply Z.eqb_neq in E1); try (apply Z.eqb_neq in E2);
      first [step s_lc_ok | step s_rs_ok]; first [step s_rc_ok | step s_ls_ok];
      step s_parent_ok; step s_ls_ok; step s_rs_ok; nc_step; last_step s_nc_ok.
  Qed.

  Lemma remove_branch_rng t p c t' : remove_branch t p c = Ok t' -> RngL N t -> RngL N t'.
  Proof.
    intros H R.
    destruct (remove_branch_spec _ _ _ _ H) as (lsib & rsib & nn & GL & GR & _ & LC & RS & RC & LS & _).
    assert (A : lsib = NULL \/ 0 <= lsib < N) by (apply (R c lsib); auto).
    assert (B : rsib = NULL \/ 0 <= rsib < N) by (apply (R c rsib); auto).
    intros y v [X|[X|[X|X]]].
    - rewrite LC in X. destruct ((lsib =? NULL) && (y =? p)); [inversion X; subst; exact B | apply (R y v); auto].
    - rewrite RC in X. destruct ((rsib =? NULL) && (y =? p)); [inversion X; subst; exact A | apply (R y v); auto].
    - rewrite LS in X. destruct (y =? c); [inversion X; left; reflexivity|].
      destruct (negb (rsib =? NULL) && (y =? rsib)); [inversion X; subst; exact A | apply (R y v); auto].
    - rewrite RS in X. destruct (y =? c); [inversion X; left; reflexivity|].
      destruct (negb (lsib =? NULL) && (y =? lsib)); [inversion X; subst; exact B | apply (R y v); auto].
  Qed.

  Lemma insert_branch_ok t p c :
    Lens n t -> RngL N t -> 0 <= p <= N -> 0 <= c <= N ->
    exists t', insert_branch t p c = Ok t' /\ Lens n t'.
  Proof.
    intros HL R Hp Hc.
    unfold insert_branch. step s_parent_ok.
    pose proof HL0 as (_ & _ & L3 & _).
    destruct (Lens_get n t0 t_rc p L3 ltac:(lia)) as [u G].
    assert (US : u = NULL \/ 0 <= u < N).
    { apply (R p u). right; left. rewrite <- G. f_equal. apply s_parent_l in E. destruct E as (_ & X & _). symmetry; exact X. }
    rewrite G. cbn [bind].
    destruct (u =? NULL) eqn:E1; try (apply Z.eqb_neq in E1).
    - step s_lc_ok. step s_ls_ok. step s_rs_ok. step s_rc_ok. nc_step. last_step s_nc_ok.
    - step s_rs_ok. step s_ls_ok. step s_rs_ok. step s_rc_ok. nc_step. last_step s_nc_ok.
  Qed.

  Lemma insert_branch_rng t p c t' : insert_branch t p c = Ok t' -> 0 <= c < N -> RngL N t -> RngL N t'.
  Proof.
    intros H Hc R.
    destruct (insert_branch_spec _ _ _ _ H) as (u & nn & GU & _ & LC & RS & RC & LS & _).
    assert (A : u = NULL \/ 0 <= u < N) by (apply (R p u); auto).
    intros y v [X|[X|[X|X]]].
    - rewrite LC in X. destruct ((u =? NULL) && (y =? p)); [inversion X; subst; right; exact Hc | apply (R y v); auto].
    - rewrite RC in X. destruct (y =? p); [inversion X; subst; right; exact Hc | apply (R y v); auto].
    - rewrite LS in X. destruct (y =? c); [inversion X; subst; exact A | apply (R y v); auto].
    - rewrite RS in X. destruct (y =? c); [inversion X; left; reflexivity|].
      destruct (negb (u =? NULL) && (y =? u)); [inversion X; subst; right; exact Hc | apply (R y v); auto].
  Qed.
End BranchOk.

Lemma propagate_ok n thr sign c : forall l fuel t u pe wr,
  Lens n t -> path (t_parent t) u l -> (forall x, In x l -> 0 <= x < Z.of_nat n) ->
  0 <= c < Z.of_nat n -> (length l <= fuel)%nat ->
  exists t' pe' wr', propagate fuel thr sign t c u pe wr = Ok (t', pe', wr') /\ Lens n t'.
Proof.
  induction l as [|u0 l IH]; intros fuel t u pe wr HL Pl R Hc HF.
  - inversion Pl; subst. destruct fuel; simpl; eauto.
  - inversion Pl as [|u1 p l1 NU G Pl' E1 E2]; subst.
    destruct fuel as [|f]; [simpl in HF; lia|]. simpl.
    replace (u0 =? NULL) with false by (symmetry; apply Z.eqb_neq; exact NU).
    assert (Hu : 0 <= u0 < Z.of_nat n) by (apply R; left; reflexivity).
    pose proof HL as (L1 & _ & _ & _ & _ & _ & _ & L8 & L9).
    destruct (Lens_get n t t_ns u0 L8 Hu) as [a Ga]. destruct (Lens_get n t t_ns c L8 Hc) as [b Gb].
    rewrite Ga, Gb. cbn [bind]. step s_ns_ok.
    pose proof HL0 as (_ & _ & _ & _ & _ & _ & _ & _ & L9').
    destruct (Lens_get n t0 t_nt u0 L9' Hu) as [a' Ga']. destruct (Lens_get n t0 t_nt c L9' Hc) as [b' Gb'].
    rewrite Ga', Gb'. cbn [bind]. step s_nt_ok.
    assert (PP : t_parent t1 = t_parent t).
    { apply s_ns_par in E. apply s_nt_par in E0. congruence. }
    rewrite PP, G. cbn [bind].
    apply IH; auto.
    + rewrite PP. exact Pl'.
    + intros x Hx. apply R. right; exact Hx.
    + simpl in HF. lia.
Qed.

Lemma path_length_le N tm P u l : Mono N tm P -> path P u l -> 0 <= u < N -> (length l <= Z.to_nat N)%nat.
Proof.
  intros MO Pl Hu. destruct (path_facts N tm P MO u l Pl Hu) as (ND & R & _).
  assert (length l <= length (zseq (Z.to_nat N)))%nat.
  { apply NoDup_incl_length; [exact ND|]. intros x Hx. apply In_zseq. destruct (R x Hx). lia. }
  unfold zseq in H. rewrite map_length, seq_length in H. exact H.
Qed.

Lemma Lens_num_edges n t v : Lens n t -> Lens n (w_num_edges t v).
Proof. intros H. exact H. Qed.
Lemma RngL_num_edges N t v : RngL N t -> RngL N (w_num_edges t v).
Proof. intros H. exact H. Qed.

Section EdgeOk.
  Variables (L : Z) (ns : list node) (es : list edge) (Ins Rem : list Z) (q : tseq).
  Hypothesis HV : valid_edges L ns es.
  Hypothesis HI : index_sorted es Ins Rem.
  Hypothesis HQ : mk_tseq L ns es Ins Rem = Ok q.
  Variable o : topts.
  Hypothesis Hlists : o_lists o = false.

  Let N := zlen ns.
  Let n := Z.to_nat (N + 1).
  Let thr := o_thr o.

  Lemma Hn : Z.of_nat n = N + 1.
  Proof. unfold n, N, zlen. lia. Qed.
  Lemma HN0 : 0 <= N.
  Proof. unfold N, zlen. lia. Qed.

  Definition Jtot (t : tree) : Prop := Jcnt ns q o t /\ Lens n t /\ RngL N t.

  Lemma insert_root_ok t r : Lens n t -> RngL N t -> 0 <= r < N ->
    exists t', insert_root N t r = Ok t' /\ Lens n t' /\ RngL N t'.
  Proof.
    intros HL R Hr. unfold insert_root.
    destruct (insert_branch_ok N n Hn t N r HL R ltac:(pose proof HN0; lia) ltac:(lia)) as (t1 & E & HL1).
    rewrite E. cbn [bind].
    pose proof (insert_branch_rng N t N r t1 E Hr R) as R1.
    destruct (s_parent_ok n t1 r NULL HL1 ltac:(pose proof Hn; lia)) as (t2 & E2 & HL2).
    exists t2. split; [exact E2|]. split; [exact HL2|]. eapply RngL_same; [eapply s_parent_l; eauto | exact R1].
  Qed.

  Lemma remove_edge_ok t e : Jtot t -> In e es ->
    get (t_parent t) (echild e) = Ok (eparent e) ->
    exists t', remove_edge q o t (eparent e) (echild e) = Ok t' /\ Lens n t' /\ RngL N t'.
  Proof.
    intros (JC & HL & R) He GP.
    destruct JC as (L0 & L1 & L2 & GV & MO & _).
    destruct (edge_tm L ns es HV e He) as (Hc & Hp & Ht). fold N in Hc, Hp.
    set (p := eparent e) in *. set (c := echild e) in *.
    pose proof Hn as Hn'. pose proof HN0 as HN'.
    destruct (remove_branch_ok N n Hn t p c HL R ltac:(lia) ltac:(lia)) as (t0 & E & HL0).
    pose proof (remove_branch_rng N t p c t0 E R) as R0.
    pose proof (remove_branch_par _ _ _ _ E) as P0.
    unfold remove_edge. rewrite (qN L ns es Ins Rem q HQ). fold N thr. rewrite E. cbn [bind].
    pose proof (Lens_num_edges n t0 (t_num_edges t0 - 1) HL0) as HLw.
    destruct (s_edge_ok n _ c NULL HLw ltac:(lia)) as (t1 & E0 & HL1). rewrite E0. cbn [bind].
    assert (R1 : RngL N t1).
    { eapply RngL_same; [eapply s_edge_l; exact E0|]. apply RngL_num_edges. exact R0. }
    pose proof (s_edge_par _ _ _ _ E0) as P1. simpl in P1.
    assert (MO0 : Mono N (tmf ns) (t_parent t0)) by (eapply Mono_set_null; eauto).
    assert (ZL0 : zlen (t_parent t0) = N + 1).
    { unfold zlen. rewrite (set_length _ _ _ _ P0), L0. fold N. lia. }
    destruct (path_exists N (tmf ns) (t_parent t0) ZL0 MO0 p ltac:(lia)) as [l Pl].
    destruct (path_facts N (tmf ns) (t_parent t0) MO0 p l Pl Hp) as (NDl & Rl & NEl).
    pose proof (path_length_le N (tmf ns) _ p l MO0 Pl Hp) as LL.
    rewrite <- P1 in Pl.
    destruct (propagate_ok n thr (-1) c l (chain_fuel t1) t1 p NULL false HL1 Pl) as (t2 & pe & wr & E1 & HL2).
    { intros x Hx. destruct (Rl x Hx). lia. }
    { lia. }
    { unfold chain_fuel. destruct HL1 as (X & _). rewrite X. unfold n. lia. }
    rewrite E1. cbn [bind].
    pose proof (RngL_same N _ _ (propagate_l _ _ _ _ _ _ _ _ _ _ _ E1) R1) as R2.
    pose proof (propagate_par _ _ _ _ _ _ _ _ _ _ _ E1) as (P2 & PEN & _).
    assert (PEr : 0 <= pe <= N).
    { specialize (PEN ltac:(unfold NULL; lia)). apply get_inv in PEN. unfold zlen in PEN.
      destruct HL1 as (X & _). rewrite X in PEN. lia. }
    (* conditional removal of path_end from the roots *)
    assert (exists t3, cond_remove_root_end N thr t2 wr pe = Ok t3 /\ Lens n t3 /\ RngL N t3) as (t3 & E2 & HL3 & R3).
    { unfold cond_remove_root_end. destruct wr; [|eauto].
      pose proof HL2 as (_ & _ & _ & _ & _ & _ & _ & X8 & _).
      destruct (Lens_get n t2 t_ns pe X8 ltac:(lia)) as [v Gv]. rewrite Gv. cbn [bind].
      destruct (negb (thr <=? v)); [|eauto].
      unfold remove_root.
      destruct (remove_branch_ok N n Hn t2 N pe HL2 R2 ltac:(lia) ltac:(lia)) as (t3 & E3 & HL3).
      exists t3. split; [exact E3|]. split; [exact HL3|]. eapply remove_branch_rng; eauto. }
    rewrite E2. cbn [bind].
    assert (exists t4, cond_insert_root_c N thr t3 c = Ok t4 /\ Lens n t4 /\ RngL N t4) as (t4 & E3 & HL4 & R4).
    { unfold cond_insert_root_c.
      pose proof HL3 as (_ & _ & _ & _ & _ & _ & _ & X8 & _).
      destruct (Lens_get n t3 t_ns c X8 ltac:(lia)) as [v Gv]. rewrite Gv. cbn [bind].
      destruct (thr <=? v); [|eauto]. apply insert_root_ok; auto. }
    rewrite E3. cbn [bind]. unfold cond_lists. rewrite Hlists. eauto.
  Qed.

  Lemma insert_edge_ok t e i : Jtot t -> In e es ->
    get (t_parent t) (echild e) = Ok NULL ->
    exists t', insert_edge q o t (eparent e) (echild e) i = Ok t' /\ Lens n t' /\ RngL N t'.
  Proof.
    intros (JC & HL & R) He GP.
    destruct JC as (L0 & L1 & L2 & GV & MO & _).
    destruct (edge_tm L ns es HV e He) as (Hc & Hp & Ht). fold N in Hc, Hp.
    set (p := eparent e) in *. set (c := echild e) in *.
    pose proof Hn as Hn'. pose proof HN0 as HN'.
    assert (ZL0 : zlen (t_parent t) = N + 1) by (unfold zlen; rewrite L0; fold N; lia).
    destruct (path_exists N (tmf ns) (t_parent t) ZL0 MO p ltac:(lia)) as [l Pl].
    destruct (path_facts N (tmf ns) (t_parent t) MO p l Pl Hp) as (NDl & Rl & NEl).
    pose proof (path_length_le N (tmf ns) _ p l MO Pl Hp) as LL.
    assert (NCl : ~ In c l) by (intros X; destruct (Rl c X); lia).
    unfold insert_edge. rewrite (qN L ns es Ins Rem q HQ). fold N thr.
    destruct (propagate_ok n thr 1 c l (chain_fuel t) t p NULL false HL Pl) as (t1 & pe & wr & E1 & HL1).
    { intros x Hx. destruct (Rl x Hx). lia. }
    { lia. }
    { unfold chain_fuel. rewrite L0. fold N. lia. }
    rewrite E1. cbn [bind].
    pose proof (RngL_same N _ _ (propagate_l _ _ _ _ _ _ _ _ _ _ _ E1) R) as R1.
    destruct (propagate_path thr 1 c l _ t p NULL false t1 pe wr Pl NDl NCl E1) as (_ & PE & _).
    destruct (PE NEl) as (EPE & _).
    assert (PEr : 0 <= pe < N).
    { assert (In pe l) by (rewrite EPE; apply last_In; exact NEl). destruct (Rl pe H). assumption. }
    assert (exists t2, cond_remove_root_c N thr t1 c = Ok t2 /\ Lens n t2 /\ RngL N t2) as (t2 & E2 & HL2 & R2).
    { unfold cond_remove_root_c.
      pose proof HL1 as (_ & _ & _ & _ & _ & _ & _ & X8 & _).
      destruct (Lens_get n t1 t_ns c X8 ltac:(lia)) as [v Gv]. rewrite Gv. cbn [bind].
      destruct (thr <=? v); [|eauto]. unfold remove_root.
      destruct (remove_branch_ok N n Hn t1 N c HL1 R1 ltac:(lia) ltac:(lia)) as (t2 & E2 & HL2).
      exists t2. split; [exact E2|]. split; [exact HL2|]. eapply remove_branch_rng; eauto. }
    rewrite E2. cbn [bind].
    assert (exists t3, cond_insert_root_end N thr t2 wr pe = Ok t3 /\ Lens n t3 /\ RngL N t3) as (t3 & E3 & HL3 & R3).
    { unfold cond_insert_root_end.
      pose proof HL2 as (_ & _ & _ & _ & _ & _ & _ & X8 & _).
      destruct (Lens_get n t2 t_ns pe X8 ltac:(lia)) as [v Gv]. rewrite Gv. cbn [bind].
      destruct ((thr <=? v) && negb wr); [|eauto]. apply insert_root_ok; auto. }
    rewrite E3. cbn [bind].
    destruct (insert_branch_ok N n Hn t3 p c HL3 R3 ltac:(lia) ltac:(lia)) as (t4 & E4 & HL4).
    rewrite E4. cbn [bind].
    pose proof (insert_branch_rng N t3 p c t4 E4 Hc R3) as R4.
    pose proof (Lens_num_edges n t4 (t_num_edges t4 + 1) HL4) as HLw.
    destruct (s_edge_ok n _ c i HLw ltac:(lia)) as (t5 & E5 & HL5). rewrite E5. cbn [bind].
    unfold cond_lists. rewrite Hlists. exists t5. split; [reflexivity|]. split; [exact HL5|].
    eapply RngL_same; [eapply s_edge_l; exact E5|]. apply RngL_num_edges. exact R4.
  Qed.

  (* the invariant is preserved (Jcnt by CountProofs, the rest by determinism of the run) *)
  Lemma Jtot_remove t e t' : Jtot t -> In e es ->
    get (t_parent t) (echild e) = Ok (eparent e) ->
    remove_edge q o t (eparent e) (echild e) = Ok t' -> Jtot t'.
  Proof.
    intros J He GP H. destruct (remove_edge_ok t e J He GP) as (t'' & E & HL & R).
    assert (t'' = t') by congruence. subst t''.
    split; [|split; assumption]. destruct J as (JC & _).
    exact (Jcnt_remove L ns es q HV o t e t' JC He GP H).
  Qed.

  Lemma Jtot_insert t e i t' : Jtot t -> In e es ->
    get (t_parent t) (echild e) = Ok NULL ->
    insert_edge q o t (eparent e) (echild e) i = Ok t' -> Jtot t'.
  Proof.
    intros J He GP H. destruct (insert_edge_ok t e i J He GP) as (t'' & E & HL & R).
    assert (t'' = t') by congruence. subst t''.
    split; [|split; assumption]. destruct J as (JC & _).
    exact (Jcnt_insert L ns es q HV o t e i t' JC He GP H).
  Qed.

  (* ---- batches ---- *)
  Lemma remove_edges_tot : forall l t,
    Jtot t -> (forall ie, In ie l -> In (snd ie) es) -> NoDup (map ichild l) ->
    (forall ie, In ie l -> get (t_parent t) (ichild ie) = Ok (iparent ie)) ->
    exists t', remove_edges q o t l = Ok t' /\ Jtot t'.
  Proof.
    induction l as [|[i e] r IH]; intros t J Hin ND G; simpl.
    - eauto.
    - inversion ND as [|? ? Hx Hr]; subst.
      assert (He : In e es) by (apply (Hin (i, e)); left; reflexivity).
      assert (GP : get (t_parent t) (echild e) = Ok (eparent e)) by (apply (G (i, e)); left; reflexivity).
      destruct (remove_edge_ok t e J He GP) as (t1 & E & _).
      rewrite E. cbn [bind].
      pose proof (Jtot_remove t e t1 J He GP E) as J1.
      apply IH; auto.
      + intros ie Hie. apply Hin. right; exact Hie.
      + intros ie Hie. apply remove_edge_par in E.
        rewrite (get_set_other _ _ _ (ichild ie) _ E).
        * apply G. right; exact Hie.
        * intros X. apply Hx. change (ichild (i, e)) with (echild e). rewrite X. apply in_map. exact Hie.
  Qed.

  Lemma insert_edges_tot : forall l t,
    Jtot t -> (forall ie, In ie l -> In (snd ie) es) -> NoDup (map ichild l) ->
    (forall ie, In ie l -> get (t_parent t) (ichild ie) = Ok NULL) ->
    exists t', insert_edges q o t l = Ok t' /\ Jtot t'.
  Proof.
    induction l as [|[i e] r IH]; intros t J Hin ND G; simpl.
    - eauto.
    - inversion ND as [|? ? Hx Hr]; subst.
      assert (He : In e es) by (apply (Hin (i, e)); left; reflexivity).
      assert (GP : get (t_parent t) (echild e) = Ok NULL) by (apply (G (i, e)); left; reflexivity).
      destruct (insert_edge_ok t e i J He GP) as (t1 & E & _).
      rewrite E. cbn [bind].
      pose proof (Jtot_insert t e i t1 J He GP E) as J1.
      apply IH; auto.
      + intros ie Hie. apply Hin. right; exact Hie.
      + intros ie Hie. apply insert_edge_par in E.
        rewrite (get_set_other _ _ _ (ichild ie) _ E).
        * apply G. right; exact Hie.
        * intros X. apply Hx. change (ichild (i, e)) with (echild e). rewrite X. apply in_map. exact Hie.
  Qed.

  (* the preconditions of the two batches of one step, from the sweep semantics *)
  Lemma batch_pre s P :
    sem_step L (q_I q) (q_O q) s -> PreB N es P (s_left s) ->
    (forall ie, In ie (s_out s) -> In (snd ie) es) /\ NoDup (map ichild (s_out s)) /\
    (forall ie, In ie (s_out s) -> get P (ichild ie) = Ok (iparent ie)) /\
    (forall ie, In ie (s_in s) -> In (snd ie) es) /\ NoDup (map ichild (s_in s)) /\
    (forall P1, par_remove P (s_out s) = Ok P1 -> forall ie, In ie (s_in s) -> get P1 (ichild ie) = Ok NULL).
  Proof.
    intros (SO' & SI' & _ & _ & B1 & B2 & N1 & N2) (ZL & A1 & A2).
    destruct (mk_tseq_inv L ns es Ins Rem q HQ) as (steps' & Oend' & RI & RO & _).
    destruct (memI L ns es Ins Rem q HI HQ) as [MI1 MI2].
    destruct (memO L ns es Ins Rem q HI HQ) as [MO1 MO2].
    set (t' := s_left s) in *.
    split; [|split; [|split; [|split; [|split]]]].
    - intros ie Hie. rewrite SO' in Hie. apply filter_In in Hie as [Hie _]. auto.
    - rewrite SO'. apply (batch_children_nodup L ns es HV iright Rem (q_O q) t'); auto. apply HI.
      intros ie1 ie2 H1 H2 K1 K2 Hc.
      apply (ve_disj _ _ _ HV); auto.
      + destruct (ve_ok _ _ _ HV _ (MO1 _ H1)) as (? & _). unfold iright in *. lia.
      + destruct (ve_ok _ _ _ HV _ (MO1 _ H2)) as (? & _). unfold iright in *. lia.
    - intros ie Hie. rewrite SO' in Hie. apply filter_In in Hie as [Hie K]. apply Z.eqb_eq in K.
      unfold ichild, iparent. apply A2; auto.
      + destruct (ve_ok _ _ _ HV _ (MO1 _ Hie)) as (? & _). unfold iright in K. lia.
      + unfold iright in K. lia.
    - intros ie Hie. rewrite SI' in Hie. apply filter_In in Hie as [Hie _]. auto.
    - rewrite SI'. apply (batch_children_nodup L ns es HV ileft Ins (q_I q) t'); auto. apply HI.
      intros ie1 ie2 H1 H2 K1 K2 Hc.
      apply (ve_disj _ _ _ HV); auto.
      + destruct (ve_ok _ _ _ HV _ (MI1 _ H2)) as (? & _). unfold ileft in *. lia.
      + destruct (ve_ok _ _ _ HV _ (MI1 _ H1)) as (? & _). unfold ileft in *. lia.
    - intros P1 R1 ie Hie. rewrite SI' in Hie. apply filter_In in Hie as [Hie K]. apply Z.eqb_eq in K.
      pose proof (MI1 _ Hie) as He.
      destruct (ve_ok _ _ _ HV _ He) as (Hlr & _ & Hc & _).
      destruct (par_remove_spec (s_out s) P) as (P1' & R1' & Z1 & G1).
      { intros ie' Hie'. rewrite SO' in Hie'. apply filter_In in Hie' as [Hie' _].
        destruct (ve_ok _ _ _ HV _ (MO1 _ Hie')) as (_ & _ & ? & _). fold N in H. lia. }
      assert (P1' = P1) by congruence. subst P1'.
      destruct (G1 (ichild ie)) as [G1a G1b].
      destruct (existsb (childb (ichild ie)) (s_out s)) eqn:EX; [auto|].
      rewrite (G1b eq_refl).
      destruct (A1 (ichild ie)) as (p0 & Gp & Sp). { unfold ichild. fold N in Hc. lia. }
      rewrite Gp. f_equal.
      destruct (Z.eq_dec p0 NULL) as [|NP]; [assumption|]. exfalso.
      destruct (Sp NP) as (e0 & He0 & Hc0 & Hp0 & Hcov).
      destruct (Z.eq_dec (eright e0) t') as [ER|ER].
      + destruct (MO2 e0 He0) as [i0 Hi0].
        assert (existsb (childb (ichild ie)) (s_out s) = true).
        { apply existsb_exists. exists (i0, e0). split.
          - rewrite SO'. apply filter_In. split; [exact Hi0 | apply Z.eqb_eq; exact ER].
          - unfold childb. simpl. apply Z.eqb_eq. exact Hc0. }
        congruence.
      + assert (e0 = snd ie).
        { apply (ve_disj _ _ _ HV); auto; unfold ileft in K; lia. }
        subst e0. unfold ileft in K. lia.
  Qed.

  Lemma tree_next_ok steps Oend (k : nat) (t : tree) :
    chain_ok L 0 (q_I q) (q_O q) steps Oend -> Forall (sem_step L (q_I q) (q_O q)) steps ->
    q_bps q = breakpoints_of L steps -> q_ntrees q = zlen steps ->
    p_index (t_pos t) = Z.of_nat k - 1 ->
    (if p_index (t_pos t) =? -1 then (0, q_I q, q_O q)
     else (p_right (t_pos t), p_irest (t_pos t), p_orest (t_pos t)))
      = pre_state 0 (q_I q) (q_O q) steps k ->
    PreB N es (t_parent t) (fst (fst (pre_state 0 (q_I q) (q_O q) steps k))) ->
    Jtot t -> Z.of_nat k < zlen steps ->
    exists t', tree_next q o t = Ok (t', true).
  Proof.
    intros CH F EB EN HIdx HPre Pre J KL.
    destruct (zlen_nth_error ns steps k KL) as [s Hs].
    pose proof (chain_nth L _ _ _ _ _ CH k s Hs) as CN.
    destruct (pre_state 0 (q_I q) (q_O q) steps k) as [[tl0 ib] oc] eqn:PS. simpl in Pre.
    destruct CN as (C1 & C2 & C3 & C4).
    destruct (bps_get L _ _ _ _ _ CH k s Hs) as [_ BG]. rewrite <- EB in BG.
    assert (Fs : sem_step L (q_I q) (q_O q) s) by (rewrite Forall_forall in F; apply F; eapply nth_error_In; eauto).
    unfold tree_next, position_next. rewrite HPre, C2, C3, HIdx.
    replace (Z.of_nat k - 1 + 1) with (Z.of_nat k) by lia.
    replace (Z.of_nat k =? q_ntrees q) with false by (symmetry; apply Z.eqb_neq; lia).
    rewrite BG. cbn [bind]. cbn [p_out p_in].
    rewrite <- C1 in Pre.
    destruct (batch_pre s (t_parent t) Fs Pre) as (O1 & O2 & O3 & I1 & I2 & I3).
    destruct (remove_edges_tot (s_out s) t J O1 O2 O3) as (a & E0 & Ja). rewrite E0. cbn [bind].
    pose proof (remove_edges_par _ _ _ _ _ E0) as PR.
    destruct (insert_edges_tot (s_in s) a Ja I1 I2 (I3 _ PR)) as (a1 & E1 & _). rewrite E1. cbn [bind].
    eauto.
  Qed.

  (* ---- the fresh tree ---- *)
  Lemma set_all_ok : forall idx l v, (forall i, In i idx -> 0 <= i < zlen l) ->
    exists l', set_all l idx v = Ok l' /\ length l' = length l.
  Proof.
    induction idx as [|i r IH]; intros l v H; simpl; [eauto|].
    destruct (set_ok l i v) as [l1 S]; [apply H; left; reflexivity|]. rewrite S. cbn [bind].
    destruct (IH l1 v) as (l2 & E & LL).
    { intros j Hj. rewrite (set_zlen _ _ _ _ S). apply H. right; exact Hj. }
    exists l2. split; [exact E|]. rewrite LL. eapply set_length; eauto.
  Qed.

  Lemma insert_roots_ok : forall ss t, Lens n t -> RngL N t -> (forall s, In s ss -> 0 <= s < N) ->
    exists t', insert_roots N t ss = Ok t' /\ Lens n t' /\ RngL N t'.
  Proof.
    induction ss as [|s r IH]; intros t HL R H; simpl; [eauto|].
    destruct (insert_root_ok t s HL R (H s (or_introl eq_refl))) as (t1 & E & HL1 & R1).
    rewrite E. cbn [bind]. apply IH; auto. intros x Hx. apply H. right; exact Hx.
  Qed.

  Hypothesis Htracked : forall s, In s (o_tracked o) -> 0 <= s < N.

  Lemma tree_clear_ok : exists t, tree_clear q o = Ok t /\ Jtot t.
  Proof.
    pose proof Hn as Hn'. pose proof HN0 as HN'.
    assert (SR : forall s, In s (q_samples q) -> 0 <= s < N).
    { intros s Hs. rewrite (qsamples L ns es Ins Rem q HQ) in Hs. apply (samples_from_spec ns o) in Hs. fold N in Hs. lia. }
    assert (exists t, tree_clear q o = Ok t /\ Lens n t /\ RngL N t) as (t & E & HL & R).
    { unfold tree_clear. rewrite (qN L ns es Ins Rem q HQ). fold N n.
      destruct (set_ok (repeat 0 n) N (zlen (q_samples q))) as [ns0 S0]; [unfold zlen; rewrite repeat_length; lia|].
      rewrite S0. cbn [bind].
      destruct (set_all_ok (q_samples q) ns0 1) as (ns1 & S1 & LN1).
      { intros i Hi. rewrite (set_zlen _ _ _ _ S0). unfold zlen. rewrite repeat_length. specialize (SR i Hi). lia. }
      rewrite S1. cbn [bind].
      destruct (set_all_ok (o_tracked o) (repeat 0 n) 1) as (nt0 & S2 & LN2).
      { intros i Hi. unfold zlen. rewrite repeat_length. specialize (Htracked i Hi). lia. }
      rewrite S2. cbn [bind].
      destruct (set_ok nt0 N (zlen (o_tracked o))) as [nt1 S3]; [unfold zlen; rewrite LN2, repeat_length; lia|].
      rewrite S3. cbn [bind]. rewrite Hlists. cbn [bind].
      set (t0 := mkTree (repeat NULL n) (repeat NULL n) (repeat NULL n) (repeat NULL n) (repeat NULL n)
                   (repeat 0 n) (repeat NULL n) ns1 nt1 [] [] [] 0 null_pos).
      assert (HL0 : Lens n t0).
      { unfold Lens, t0. simpl. rewrite !repeat_length.
        rewrite LN1, (set_length _ _ _ _ S0), (set_length _ _ _ _ S3), LN2, !repeat_length. repeat split; reflexivity. }
      assert (R0 : RngL N t0).
      { intros y v H. left. unfold t0 in H. simpl in H.
        assert (X : get (repeat NULL n) y = Ok v) by (destruct H as [X|[X|[X|X]]]; exact X).
        apply get_In in X. apply repeat_spec in X. exact X. }
      destruct ((o_thr o =? 1) && (0 <? zlen (q_samples q))).
      - apply insert_roots_ok; auto.
      - eauto. }
    exists t. split; [exact E|]. split; [|split; assumption].
    exact (Jcnt_clear L ns es Ins Rem q HQ o t E).
  Qed.

  Theorem tree_at_index_total : forall k, Z.of_nat k < q_ntrees q -> exists t, tree_at_index q o k = Ok t.
  Proof.
    destruct (mk_tseq_inv L ns es Ins Rem q HQ) as (steps & Oend & R1 & R2 & SW & EB & EN & ENn & _).
    pose proof (sweep_sem L (q_I q) (q_O q) (sortedI L ns es Ins Rem q HI HQ) (sortedO L ns es Ins Rem q HI HQ)
                  (boundI L ns es Ins Rem q HV HI HQ) (boundO L ns es Ins Rem q HV HI HQ)
                  steps Oend (ve_L _ _ _ HV) SW) as (CH & F & _).
    assert (JT : forall k t, tree_at_index q o k = Ok t -> Jtot t).
    { apply (sweep_induction L ns es Ins Rem q HV HI HQ o Jtot).
      - intros t H. destruct tree_clear_ok as (t' & E & J). assert (t' = t) by congruence. subst; exact J.
      - exact Jtot_remove.
      - exact Jtot_insert.
      - intros t p J. exact J. }
    induction k as [|k IH]; intros Hk.
    - destruct tree_clear_ok as (t0 & E0 & J0).
      pose proof (tree_clear_par _ _ _ E0) as [PP PN].
      destruct (tree_next_ok steps Oend 0 t0 CH F EB EN) as [t' E']; auto.
      + rewrite PN. reflexivity.
      + rewrite PN. reflexivity.
      + simpl. rewrite PP, ENn. apply pre_init; [apply (Hok' L ns es HV)|]. unfold zlen. lia.
      + rewrite <- EN. exact Hk.
      + exists t'. simpl. unfold tree_first. rewrite E0. cbn [bind]. rewrite E'. reflexivity.
    - destruct (IH ltac:(lia)) as [t E].
      destruct (tree_at_index_at_step L ns es Ins Rem q HV HI HQ o steps Oend CH F EB EN ENn k t E)
        as (s & Hs & I1 & I2 & I3 & I4 & I5 & I6 & I7 & I8 & I9 & I10).
      destruct (tree_next_ok steps Oend (S k) t CH F EB EN) as [t' E']; auto.
      + rewrite I1. lia.
      + rewrite I1. replace (Z.of_nat k =? -1) with false by (symmetry; apply Z.eqb_neq; lia).
        simpl. rewrite Hs, I3, I6, I7. reflexivity.
      + simpl. rewrite Hs. simpl. exact I9.
      + apply (JT k t E).
      + rewrite <- EN. exact Hk.
      + exists t'. simpl. rewrite E. cbn [bind]. rewrite E'. reflexivity.
  Qed.
End EdgeOk.
