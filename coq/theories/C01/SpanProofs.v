(* Basic facts about [span] (the model of `while (j < M && key[order[j]] == x) j++`). *)
From Coq Require Import List ZArith Bool Lia.
From TskVerif Require Import Base.Common.
From TskVerif Require Import C01.Model.
Import ListNotations.
Open Scope Z_scope.

Lemma span_app {A} (p : A -> bool) (l : list A) :
  fst (span p l) ++ snd (span p l) = l.
Proof.
  induction l as [|x r IH]; simpl; [reflexivity|].
  destruct (p x); simpl; [|reflexivity].
  destruct (span p r) as [a b]; simpl in *. now rewrite IH.
Qed.

Lemma span_fst_all {A} (p : A -> bool) (l : list A) :
  forall x, In x (fst (span p l)) -> p x = true.
Proof.
  induction l as [|y r IH]; simpl; [tauto|].
  destruct (p y) eqn:E; simpl; [|tauto].
  destruct (span p r) as [a b]; simpl in *. intros x [->|H]; auto.
Qed.

Lemma span_snd_head {A} (p : A -> bool) (l : list A) :
  match snd (span p l) with [] => True | x :: _ => p x = false end.
Proof.
  induction l as [|y r IH]; simpl; [exact I|].
  destruct (p y) eqn:E; simpl; [|exact E].
  destruct (span p r) as [a b]; simpl in *. exact IH.
Qed.

Lemma span_cursor_exact {A} (p : A -> bool) (l : list A) :
  fst (span p l) ++ snd (span p l) = l /\
  (forall x, In x (fst (span p l)) -> p x = true) /\
  match snd (span p l) with [] => True | x :: _ => p x = false end.
Proof. split; [apply span_app | split; [apply span_fst_all | apply span_snd_head]]. Qed.

Example span_cursor_example :
  span (fun x => x =? 3) [3; 3; 5; 3] = ([3; 3], [5; 3]).
Proof. reflexivity. Qed.
