(* get / set algebra for the checked arrays of Base.Common *)
From Coq Require Import List ZArith Bool Lia.
From TskVerif Require Import Base.Common.
Import ListNotations.
Open Scope Z_scope.

Lemma set_nat_Some {A} (l : list A) i a : (i < length l)%nat -> exists l', set_nat l i a = Some l'.
Proof.
  revert i; induction l as [|h t IH]; intros [|i] H; simpl in *; try lia; eauto.
  destruct (IH i) as [l' E]; [lia|]. rewrite E. eauto.
Qed.

Lemma set_nat_None {A} (l : list A) i a : (length l <= i)%nat -> set_nat l i a = None.
Proof.
  revert i; induction l as [|h t IH]; intros [|i] H; simpl in *; try lia; auto.
  rewrite IH; [reflexivity | lia].
Qed.

Lemma set_nat_nth_same {A} (l l' : list A) i a : set_nat l i a = Some l' -> nth_error l' i = Some a.
Proof.
  revert i l'; induction l as [|h t IH]; intros [|i] l' H; simpl in H; try discriminate.
  - inversion H; reflexivity.
  - destruct (set_nat t i a) eqn:E; [|discriminate]. inversion H; simpl. eauto.
Qed.

Lemma set_nat_nth_other {A} (l l' : list A) i j a : set_nat l i a = Some l' -> i <> j ->
  nth_error l' j = nth_error l j.
Proof.
  revert i j l'; induction l as [|h t IH]; intros [|i] [|j] l' H N; simpl in H; try discriminate;
    try congruence.
  - inversion H; reflexivity.
  - destruct (set_nat t i a) eqn:E; [|discriminate]. inversion H; reflexivity.
  - destruct (set_nat t i a) eqn:E; [|discriminate]. inversion H; simpl. eapply IH; eauto.
Qed.

Lemma set_ok {A} (l : list A) i a : 0 <= i < zlen l -> exists l', set l i a = Ok l'.
Proof.
  unfold set, zlen. intros H. destruct (i <? 0) eqn:E; [apply Z.ltb_lt in E; lia|].
  destruct (set_nat_Some l (Z.to_nat i) a) as [l' E']; [lia|]. rewrite E'. eauto.
Qed.

Lemma set_inv {A} (l l' : list A) i a : set l i a = Ok l' ->
  0 <= i < zlen l /\ set_nat l (Z.to_nat i) a = Some l'.
Proof.
  unfold set, zlen. destruct (i <? 0) eqn:E; [discriminate|]. apply Z.ltb_ge in E.
  destruct (set_nat l (Z.to_nat i) a) eqn:E'; [|discriminate]. intros H; inversion H; subst.
  split; [|reflexivity]. split; [lia|].
  destruct (Nat.lt_ge_cases (Z.to_nat i) (length l)) as [?|G]; [lia|].
  rewrite set_nat_None in E' by lia. discriminate.
Qed.

Lemma set_zlen {A} (l l' : list A) i a : set l i a = Ok l' -> zlen l' = zlen l.
Proof. intros H. apply set_inv in H as [_ H]. unfold zlen. now rewrite (set_nat_length _ _ _ _ H). Qed.

Lemma set_length {A} (l l' : list A) i a : set l i a = Ok l' -> length l' = length l.
Proof. intros H. apply set_inv in H as [_ H]. now rewrite (set_nat_length _ _ _ _ H). Qed.

Lemma get_set_same {A} (l l' : list A) i a : set l i a = Ok l' -> get l' i = Ok a.
Proof.
  intros H. apply set_inv in H as [R H]. unfold get.
  destruct (i <? 0) eqn:E; [apply Z.ltb_lt in E; lia|].
  now rewrite (set_nat_nth_same _ _ _ _ H).
Qed.

Lemma get_set_other {A} (l l' : list A) i j a : set l i a = Ok l' -> i <> j -> get l' j = get l j.
Proof.
  intros H N. apply set_inv in H as [R H]. unfold get.
  destruct (j <? 0) eqn:E; [reflexivity|]. apply Z.ltb_ge in E.
  rewrite (set_nat_nth_other _ _ _ (Z.to_nat j) _ H); [reflexivity|]. lia.
Qed.

Lemma get_set {A} (l l' : list A) i j a : set l i a = Ok l' ->
  get l' j = if j =? i then Ok a else get l j.
Proof.
  intros H. destruct (j =? i) eqn:E.
  - apply Z.eqb_eq in E; subst. eapply get_set_same; eauto.
  - apply Z.eqb_neq in E. eapply get_set_other; eauto.
Qed.

Lemma get_inv {A} (l : list A) i a : get l i = Ok a -> 0 <= i < zlen l.
Proof. intros H. apply get_ok_iff. eauto. Qed.

Lemma get_ok {A} (l : list A) i : 0 <= i < zlen l -> exists a, get l i = Ok a.
Proof. intros H. apply get_ok_iff. exact H. Qed.

(* extensionality through get *)
Lemma nth_error_ext {A} (l l' : list A) :
  (forall n, nth_error l n = nth_error l' n) -> l = l'.
Proof.
  revert l'; induction l as [|h t IH]; intros [|h' t'] H; auto.
  - specialize (H O); discriminate.
  - specialize (H O); discriminate.
  - f_equal. { specialize (H O); simpl in H; congruence. }
    apply IH. intros n. exact (H (S n)).
Qed.

Lemma get_ext {A} (l l' : list A) :
  length l = length l' -> (forall i, 0 <= i < zlen l -> get l i = get l' i) -> l = l'.
Proof.
  intros HL H. apply nth_error_ext. intros n.
  destruct (Nat.lt_ge_cases n (length l)) as [Lt|Ge].
  - specialize (H (Z.of_nat n)). unfold get, zlen in H.
    destruct (Z.of_nat n <? 0) eqn:E; [apply Z.ltb_lt in E; lia|].
    rewrite Nat2Z.id in H.
    assert (Z1 : 0 <= Z.of_nat n < Z.of_nat (length l)) by lia. specialize (H Z1).
    destruct (nth_error l n) eqn:E1, (nth_error l' n) eqn:E2; try congruence;
      try (apply nth_error_None in E2; lia); try (apply nth_error_None in E1; lia).
  - rewrite (proj2 (nth_error_None l n)) by lia.
    rewrite (proj2 (nth_error_None l' n)) by lia. reflexivity.
Qed.

Lemma set_same {A} (l l' : list A) i a : get l i = Ok a -> set l i a = Ok l' -> l' = l.
Proof.
  intros G S. apply get_ext.
  - eapply set_length; eauto.
  - intros j _. rewrite (get_set _ _ _ j _ S). destruct (j =? i) eqn:E; [|reflexivity].
    apply Z.eqb_eq in E; subst. now rewrite G.
Qed.

Lemma set_set {A} (l l1 l2 : list A) i a b : set l i a = Ok l1 -> set l1 i b = Ok l2 -> set l i b = Ok l2.
Proof.
  intros S1 S2. destruct (set_ok l i b) as [l3 S3]. { eapply set_inv; eauto. }
  rewrite S3. f_equal. apply get_ext.
  - rewrite (set_length _ _ _ _ S3), (set_length _ _ _ _ S2), (set_length _ _ _ _ S1). reflexivity.
  - intros j _. rewrite (get_set _ _ _ j _ S3), (get_set _ _ _ j _ S2), (get_set _ _ _ j _ S1).
    destruct (j =? i); reflexivity.
Qed.

Lemma get_repeat {A} (a : A) n i : 0 <= i < Z.of_nat n -> get (repeat a n) i = Ok a.
Proof.
  intros H. unfold get. destruct (i <? 0) eqn:E; [apply Z.ltb_lt in E; lia|].
  destruct (nth_error (repeat a n) (Z.to_nat i)) eqn:N.
  - apply nth_error_In in N. apply repeat_spec in N. now subst.
  - apply nth_error_None in N. rewrite repeat_length in N. lia.
Qed.
