(* Navigation, parent level: moving the parent array from the forest at a point x to the forest
   at a point y by removing the edges that cover x but not y and inserting those that cover y
   but not x — in any order, any direction — gives exactly parent_at y; every removed edge is
   present when it is removed, every inserted child is parentless when it is inserted, and no
   child is touched twice in a batch.  This is the common core of next(), prev() and of both
   seeks from the null state. *)
From Coq Require Import List ZArith Bool Lia Sorting.Sorted Permutation.
From TskVerif Require Import Base.Common.
From TskVerif Require Import C01.Model.
From TskVerif Require Import C01.NavModel.
From TskVerif Require Import C01.ArrayLemmas.
From TskVerif Require Import C01.SweepProofs.
From TskVerif Require Import C01.ParentProofs.
From TskVerif Require Import C01.ProjProofs.
From TskVerif Require Import C01.TreeProofs.
From TskVerif Require Import C01.InductProofs.
From TskVerif Require Import C01.CountProofs.
From TskVerif Require Import C01.NavScanProofs.
From TskVerif Require Import C01.NavPosProofs.
Import ListNotations.
Open Scope Z_scope.

Definition cov (x : Z) (e : edge) : Prop := eleft e <= x < eright e.

Lemma cov_dec x e : {cov x e} + {~ cov x e}.
Proof.
  unfold cov. destruct (Z_le_gt_dec (eleft e) x); [|right; lia].
  destruct (Z_lt_ge_dec x (eright e)); [left; lia | right; lia].
Qed.

Section Move.
  Variables (N : Z) (es : list edge).
  Hypothesis Hok : forall e, In e es ->
    0 <= eleft e < eright e /\ 0 <= echild e < N /\ 0 <= eparent e.
  Hypothesis Hdisj : forall e1 e2, In e1 es -> In e2 es -> echild e1 = echild e2 ->
    eleft e1 < eright e2 -> eleft e2 < eright e1 -> e1 = e2.

  Lemma same_cover x e1 e2 : In e1 es -> In e2 es -> echild e1 = echild e2 -> cov x e1 -> cov x e2 -> e1 = e2.
  Proof. unfold cov. intros. apply Hdisj; auto; lia. Qed.

  Lemma par_move P x y (outs ins : list iedge) :
    PostB N es P x ->
    (forall ie, In ie outs -> In (snd ie) es /\ cov x (snd ie) /\ ~ cov y (snd ie)) ->
    (forall e, In e es -> cov x e -> ~ cov y e -> exists i, In (i, e) outs) ->
    (forall ie, In ie ins -> In (snd ie) es /\ cov y (snd ie) /\ ~ cov x (snd ie)) ->
    (forall e, In e es -> cov y e -> ~ cov x e -> exists i, In (i, e) ins) ->
    exists P1 P2, par_remove P outs = Ok P1 /\ par_insert P1 ins = Ok P2 /\ PostB N es P2 y /\
      (forall ie, In ie outs -> get P (ichild ie) = Ok (iparent ie)) /\
      (forall ie, In ie ins -> get P1 (ichild ie) = Ok NULL).
  Proof.
    intros (ZL & G) O1 O2 I1 I2.
    destruct (par_remove_spec outs P) as (P1 & E1 & Z1 & G1).
    { intros ie Hin. destruct (O1 ie Hin) as [Hin' _]. destruct (Hok _ Hin') as (_ & ? & _). lia. }
    destruct (par_insert_spec ins P1) as (P2 & E2 & Z2 & G2).
    { intros ie Hin. destruct (I1 ie Hin) as [Hin' _]. destruct (Hok _ Hin') as (_ & ? & _). lia. }
    exists P1, P2. split; [exact E1|]. split; [exact E2|].
    (* a child of an out-edge / in-edge *)
    assert (OutC : forall u, existsb (childb u) outs = true ->
                     exists ie, In ie outs /\ echild (snd ie) = u).
    { intros u X. apply existsb_exists in X as (ie & Hie & Hch). unfold childb in Hch.
      apply Z.eqb_eq in Hch. eauto. }
    assert (InC : forall u, existsb (childb u) ins = true ->
                     exists ie, In ie ins /\ echild (snd ie) = u).
    { intros u X. apply existsb_exists in X as (ie & Hie & Hch). unfold childb in Hch.
      apply Z.eqb_eq in Hch. eauto. }
    assert (OutT : forall i e, In (i, e) outs -> existsb (childb (echild e)) outs = true).
    { intros i e H. apply existsb_exists. exists (i, e). split; [exact H|]. unfold childb; simpl. apply Z.eqb_refl. }
    assert (InT : forall i e, In (i, e) ins -> existsb (childb (echild e)) ins = true).
    { intros i e H. apply existsb_exists. exists (i, e). split; [exact H|]. unfold childb; simpl. apply Z.eqb_refl. }
    (* the parent in P of a node whose out-status is known *)
    assert (Keep : forall u, 0 <= u < N -> existsb (childb u) outs = false ->
                     forall p, get P u = Ok p -> p <> NULL ->
                     exists e, In e es /\ echild e = u /\ eparent e = p /\ cov x e /\ cov y e).
    { intros u Hu NO p Gp NP. rewrite (G u Hu) in Gp. inversion Gp as [Gp'].
      destruct (parent_at_some es x u p Gp' NP) as (e & Hin & Hc & Hp & Hcov).
      exists e. split; [exact Hin|]. split; [exact Hc|]. split; [congruence|]. split; [exact Hcov|].
      destruct (cov_dec y e) as [|NC]; [assumption|exfalso].
      destruct (O2 e Hin Hcov NC) as [i Hi]. rewrite <- Hc in NO. rewrite (OutT i e Hi) in NO. discriminate. }
    split; [|split].
    - split; [lia|]. intros u Hu.
      destruct (G1 u) as [R1 R2]. destruct (G2 u) as [J1 J2].
      destruct (find (fun e => (echild e =? u) && covers y e) es) as [e|] eqn:F.
      + apply find_some in F as [Hin F]. apply andb_true_iff in F as [F1 F2].
        apply Z.eqb_eq in F1. apply covers_iff in F2. subst u.
        rewrite (parent_at_unique es Hdisj y e Hin F2).
        destruct (cov_dec x e) as [CX|NX].
        * (* retained *)
          assert (NI : existsb (childb (echild e)) ins = false).
          { apply not_true_is_false. intros X. destruct (InC _ X) as (ie & Hie & Hch).
            destruct (I1 ie Hie) as (Hin' & Cy & Nx).
            assert (snd ie = e) by (eapply same_cover; eauto). subst. contradiction. }
          assert (NO : existsb (childb (echild e)) outs = false).
          { apply not_true_is_false. intros X. destruct (OutC _ X) as (ie & Hie & Hch).
            destruct (O1 ie Hie) as (Hin' & Cx & Ny).
            assert (snd ie = e) by (eapply same_cover; eauto). subst. contradiction. }
          rewrite (J1 NI), (R2 NO), (G _ Hu). f_equal. apply parent_at_unique; auto.
        * destruct (I2 e Hin F2 NX) as [i Hi].
          apply J2; [eapply InT; eauto|].
          intros ie Hie Hch. destruct (I1 ie Hie) as (Hin' & Cy & _).
          assert (snd ie = e) by (eapply same_cover; eauto). now subst.
      + assert (NC : forall e, In e es -> echild e = u -> ~ cov y e).
        { intros e Hin Hch Hc. pose proof (find_none _ _ F e Hin) as X. simpl in X.
          apply andb_false_iff in X as [X|X].
          - apply Z.eqb_neq in X. congruence.
          - assert (covers y e = true) by (apply covers_iff; exact Hc). congruence. }
        rewrite (parent_at_none es y u NC).
        assert (NI : existsb (childb u) ins = false).
        { apply not_true_is_false. intros X. destruct (InC _ X) as (ie & Hie & Hch).
          destruct (I1 ie Hie) as (Hin' & Cy & _). apply (NC _ Hin' Hch Cy). }
        rewrite (J1 NI).
        destruct (existsb (childb u) outs) eqn:EO; [auto|].
        rewrite (R2 eq_refl). rewrite (G u Hu). f_equal.
        destruct (Z.eq_dec (parent_at es x u) NULL) as [|NP]; [assumption|exfalso].
        destruct (Keep u Hu EO _ (G u Hu) NP) as (e & Hin & Hc & _ & _ & Cy).
        apply (NC e Hin Hc Cy).
    - intros ie Hie. destruct (O1 ie Hie) as (Hin & Cx & _).
      destruct (Hok _ Hin) as (_ & Hc & _). unfold ichild, iparent.
      rewrite (G _ Hc). f_equal. apply parent_at_unique; auto.
    - intros ie Hie. destruct (I1 ie Hie) as (Hin & Cy & Nx).
      destruct (Hok _ Hin) as (_ & Hc & _). unfold ichild.
      destruct (G1 (echild (snd ie))) as [R1 R2].
      destruct (existsb (childb (echild (snd ie))) outs) eqn:EO; [auto|].
      rewrite (R2 eq_refl). rewrite (G _ Hc). f_equal.
      destruct (Z.eq_dec (parent_at es x (echild (snd ie))) NULL) as [|NP]; [assumption|exfalso].
      destruct (Keep _ Hc EO _ (G _ Hc) NP) as (e & Hin' & Hc' & _ & Cx & Cy').
      assert (e = snd ie) by (eapply same_cover; eauto). subst. contradiction.
  Qed.

  (* no child occurs twice among edges that cover a common point *)
  Lemma children_nodup (l : list iedge) x :
    NoDup l -> (forall a b, In a l -> In b l -> snd a = snd b -> a = b) ->
    (forall ie, In ie l -> In (snd ie) es /\ cov x (snd ie)) ->
    NoDup (map ichild l).
  Proof.
    intros ND Inj C. apply NoDup_map_on; [exact ND|].
    intros a b Ha Hb E. apply Inj; auto.
    destruct (C a Ha), (C b Hb). eapply same_cover; eauto.
  Qed.

  (* the edges that change at a boundary b, seen from a point x left of b with no end-point
     strictly between x and b *)
  Lemma boundary_sets x b e :
    In e es -> x < b -> ~ (x < eleft e < b) -> ~ (x < eright e < b) ->
    (eright e = b <-> cov x e /\ ~ cov b e) /\ (eleft e = b <-> cov b e /\ ~ cov x e).
  Proof.
    intros Hin Hx NL NR. destruct (Hok e Hin) as (B & _). unfold cov. split; split; intros; lia.
  Qed.
End Move.
