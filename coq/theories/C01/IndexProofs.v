(* tsk_table_collection_build_index: the two index arrays are permutations of the edge ids,
   sorted by left / by right (whatever qsort does with ties). *)
From Coq Require Import List ZArith Bool Lia Sorting.Sorted Permutation.
From TskVerif Require Import Base.Common.
From TskVerif Require Import C01.Model.
From TskVerif Require Import C01.ArrayLemmas.
From TskVerif Require Import C01.SweepProofs.
From TskVerif Require Import C01.ProjProofs.
From TskVerif Require Import C01.TreeProofs.
Import ListNotations.
Open Scope Z_scope.

Definition key1 (k : key4) : Z := let '(a, _, _, _) := k in a.

Lemma key4_leb_true a b : key4_leb a b = true -> key1 a <= key1 b.
Proof.
  destruct a as [[[a1 a2] a3] a4], b as [[[b1 b2] b3] b4]. simpl.
  destruct (Z.ltb_spec a1 b1); [lia|]. destruct (Z.ltb_spec b1 a1); [discriminate|]. lia.
Qed.

Lemma key4_leb_false a b : key4_leb a b = false -> key1 b <= key1 a.
Proof.
  destruct a as [[[a1 a2] a3] a4], b as [[[b1 b2] b3] b4]. simpl.
  destruct (Z.ltb_spec a1 b1); [discriminate|]. lia.
Qed.

Definition k1 (x : key4 * Z) : Z := key1 (fst x).

Lemma ins_sorted_perm x l : Permutation (ins_sorted x l) (x :: l).
Proof.
  induction l as [|y r IH]; simpl; [reflexivity|].
  destruct (key4_leb (fst x) (fst y)); [reflexivity|].
  rewrite IH. apply perm_swap.
Qed.

Lemma isort_perm l : Permutation (isort l) l.
Proof.
  induction l as [|x r IH]; simpl; [reflexivity|].
  rewrite ins_sorted_perm. now constructor.
Qed.

Lemma ins_sorted_sorted x l : sorted_by k1 l -> sorted_by k1 (ins_sorted x l).
Proof.
  induction l as [|y r IH]; simpl; intros H.
  - constructor; constructor.
  - apply sorted_by_inv in H as [H1 H2].
    destruct (key4_leb (fst x) (fst y)) eqn:E.
    + apply key4_leb_true in E. constructor.
      * constructor; [exact H1|]. apply Forall_forall. exact H2.
      * apply Forall_forall. intros z [<-|Hz]; [exact E|]. specialize (H2 z Hz). unfold k1 in *. lia.
    + apply key4_leb_false in E. constructor; [apply IH; exact H1|].
      apply Forall_forall. intros z Hz.
      eapply Permutation_in in Hz; [|apply ins_sorted_perm].
      destruct Hz as [<-|Hz]; [exact E | auto].
Qed.

Lemma isort_sorted l : sorted_by k1 (isort l).
Proof. induction l as [|x r IH]; simpl; [constructor | apply ins_sorted_sorted; exact IH]. Qed.

(* what [keyed] produces: ids i0, i0+1, ... paired with keys whose first component is
   the coordinate selected by [c1] *)
Lemma keyed_spec ns (f : edge -> Z -> key4) (c1 : edge -> Z) :
  (forall e t, key1 (f e t) = c1 e) ->
  forall es i0 l, keyed ns f es i0 = Ok l ->
  map snd l = map (fun n => i0 + Z.of_nat n) (seq 0 (length es)) /\
  forall k i, In (k, i) l -> exists e, nth_error es (Z.to_nat (i - i0)) = Some e /\ i0 <= i /\ key1 k = c1 e.
Proof.
  intros Hf. induction es as [|e r IH]; intros i0 l H; simpl in H.
  - inversion H; subst. split; [reflexivity | intros ? ? []].
  - bind_inv H. bind_inv H. inversion H; subst. clear H.
    destruct (IH _ _ ltac:(first [eassumption | reflexivity])) as [M G]. split.
    + simpl. f_equal; [lia|]. rewrite M. rewrite <- seq_shift, map_map.
      apply map_ext. intros n. lia.
    + intros k i [X|X].
      * inversion X; subst. exists e. replace (i - i) with 0 by lia. simpl. repeat split; auto; lia.
      * destruct (G _ _ X) as (e' & Hn & Hle & Hk). exists e'. repeat split; auto; try lia.
        replace (Z.to_nat (i - i0)) with (S (Z.to_nat (i - (i0 + 1)))) by lia. exact Hn.
Qed.

Lemma keyed_total ns f : forall es i0,
  (forall e, In e es -> 0 <= eparent e < zlen ns) -> exists l, keyed ns f es i0 = Ok l.
Proof.
  induction es as [|e r IH]; intros i0 H; simpl; [eauto|].
  destruct (get_ok ns (eparent e)) as [n En]; [apply H; left; reflexivity|].
  unfold node_time. rewrite En. simpl.
  destruct (IH (i0 + 1)) as [l El]; [intros; apply H; right; assumption|]. rewrite El. simpl. eauto.
Qed.

(* transfer of sortedness from the sorted (key, id) list to the resolved (id, row) list *)
Lemma resolve_sorted es (c1 : edge -> Z) : forall (kl : list (key4 * Z)) IE,
  sorted_by k1 kl ->
  (forall k i, In (k, i) kl -> exists e, nth_error es (Z.to_nat i) = Some e /\ 0 <= i /\ key1 k = c1 e) ->
  resolve es (map snd kl) = Ok IE ->
  sorted_by (fun ie => c1 (snd ie)) IE /\
  (forall ie, In ie IE -> exists k, In (k, fst ie) kl /\ key1 k = c1 (snd ie)).
Proof.
  induction kl as [|[k i] r IH]; intros IE S G R; simpl in R.
  - inversion R; subst. split; [constructor | intros ? []].
  - bind_inv R. bind_inv R. inversion R; subst. clear R.
    apply sorted_by_inv in S as [S1 S2].
    destruct (IH _ S1 (fun k' i' H' => G k' i' (or_intror H')) ltac:(first [eassumption | reflexivity])) as [IS IM].
    destruct (G k i (or_introl eq_refl)) as (e & Hn & Hi & Hk).
    assert (a = e).
    { unfold get in E. destruct (i <? 0); [discriminate|]. rewrite Hn in E. now inversion E. }
    subst a. split.
    + constructor; [exact IS|]. apply Forall_forall. intros ie Hie. simpl.
      destruct (IM ie Hie) as (k' & Hin & Hk'). rewrite <- Hk, <- Hk'.
      apply (S2 (k', fst ie) Hin).
    + intros ie [<-|Hie].
      * exists k. simpl. split; [left; reflexivity | exact Hk].
      * destruct (IM ie Hie) as (k' & Hin & Hk'). exists k'. split; [right; exact Hin | exact Hk'].
Qed.

Lemma build_index_sorted L ns es Ins Rem :
  valid_edges L ns es -> build_index ns es = Ok (Ins, Rem) -> index_sorted es Ins Rem.
Proof.
  intros HV H. unfold build_index in H. bind_inv H. bind_inv H. inversion H; subst. clear H.
  destruct (keyed_spec ns ins_key eleft (fun e t => eq_refl) es 0 a E) as [MI GI].
  destruct (keyed_spec ns rem_key eright (fun e t => eq_refl) es 0 a0 E0) as [MO GO].
  assert (ZS : map (fun n => 0 + Z.of_nat n) (seq 0 (length es)) = zseq (length es)).
  { unfold zseq. apply map_ext. intros; lia. }
  constructor.
  - rewrite <- ZS, <- MI. apply Permutation_map. apply isort_perm.
  - rewrite <- ZS, <- MO. apply Permutation_map. apply isort_perm.
  - intros IE R.
    destruct (resolve_sorted es eleft (isort a) IE (isort_sorted a)) as [S _]; auto.
    intros k i Hin. eapply Permutation_in in Hin; [|apply isort_perm].
    destruct (GI k i Hin) as (e & Hn & Hle & Hk). exists e. rewrite Z.sub_0_r in Hn. auto.
  - intros OE R.
    destruct (resolve_sorted es eright (isort a0) OE (isort_sorted a0)) as [S _]; auto.
    intros k i Hin. eapply Permutation_in in Hin; [|apply isort_perm].
    destruct (GO k i Hin) as (e & Hn & Hle & Hk). exists e. rewrite Z.sub_0_r in Hn. auto.
Qed.

Lemma build_index_total L ns es :
  valid_edges L ns es -> exists Ins Rem, build_index ns es = Ok (Ins, Rem).
Proof.
  intros HV. unfold build_index.
  assert (P : forall e, In e es -> 0 <= eparent e < zlen ns).
  { intros e He. destruct (ve_ok _ _ _ HV e He) as (_ & _ & _ & ? & _). assumption. }
  destruct (keyed_total ns ins_key es 0 P) as [a Ea].
  destruct (keyed_total ns rem_key es 0 P) as [b Eb].
  rewrite Ea, Eb. simpl. eauto.
Qed.
