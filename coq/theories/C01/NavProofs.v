(* Navigation: a state invariant over ARBITRARY histories of next / prev / first / last / clear /
   seek / seek_index on one tskit.Tree.  After every step
     - the tree is null (index -1, interval [0,0), every parent NULL) or sits on a tree i of the
       sequence with interval [bps[i], bps[i+1]) and parent[u] = parent_at x u for every x of it;
     - the bookmarks of tsk_tree_position_t are the canonical ones for (i, direction), i.e.
       exactly what the following next() / prev() needs ([PosAt]);
     - any tree predicate J that tsk_tree_clear establishes and tsk_tree_remove_edge /
       tsk_tree_insert_edge preserve (when called on a present edge / a parentless child)
       holds ([nav_induction]: the local invariants proved for the forward sweep carry over);
     - the index is the one the operation is documented to reach ([op_spec]). *)
From Coq Require Import List ZArith Bool Lia Sorting.Sorted Permutation.
From TskVerif Require Import Base.Common.
From TskVerif Require Import C01.Model.
From TskVerif Require Import C01.NavModel.
From TskVerif Require Import C01.ArrayLemmas.
From TskVerif Require Import C01.SweepProofs.
From TskVerif Require Import C01.ParentProofs.
From TskVerif Require Import C01.ProjProofs.
From TskVerif Require Import C01.TreeProofs.
From TskVerif Require Import C01.InductProofs.
From TskVerif Require Import C01.CountProofs.
From TskVerif Require Import C01.NavScanProofs.
From TskVerif Require Import C01.NavPosProofs.
From TskVerif Require Import C01.NavMoveProofs.
Import ListNotations.
Open Scope Z_scope.

(* the elements between two consecutive cuts are the elements with that key *)
Lemma range_key_up (key : iedge -> Z) (ord : list iedge) fuel x :
  sorted_by key ord -> (Z.to_nat (zlen ord) < fuel)%nat ->
  exists l, range_elems fuel ord (cut key ord x) (cut key ord (x + 1)) 1 = Ok l /\
    (NoDup ord -> NoDup l) /\ forall ie, In ie l <-> In ie ord /\ key ie = x.
Proof.
  intros S Hf. pose proof (cut_range key ord x). pose proof (cut_range key ord (x + 1)).
  pose proof (cut_mono key ord x (x + 1) ltac:(lia)).
  destruct (range_elems_up ord fuel (cut key ord x) (cut key ord (x + 1))) as (l & E & M & ND); [lia|lia|lia|].
  exists l. split; [exact E|]. split; [exact ND|].
  destruct (cut_spec key ord x S) as (_ & A1 & B1). destruct (cut_spec key ord (x + 1) S) as (_ & A2 & B2).
  intros ie. rewrite M. split.
  - intros (k & Hk & G). split; [eapply get_In; eauto|].
    pose proof (B1 k ie ltac:(lia) G). pose proof (A2 k ie ltac:(lia) G). lia.
  - intros [Hin Hk]. apply In_get in Hin as [k G]. exists k. split; [|exact G]. split.
    + destruct (Z_lt_ge_dec k (cut key ord x)) as [Lt|]; [|lia]. pose proof (A1 k ie Lt G). lia.
    + destruct (Z_lt_ge_dec k (cut key ord (x + 1))) as [|Ge]; [lia|]. pose proof (B2 k ie ltac:(lia) G). lia.
Qed.

Lemma range_key_down (key : iedge -> Z) (ord : list iedge) fuel x :
  sorted_by key ord -> (Z.to_nat (zlen ord) < fuel)%nat ->
  exists l, range_elems fuel ord (cut key ord (x + 1) - 1) (cut key ord x - 1) (-1) = Ok l /\
    (NoDup ord -> NoDup l) /\ forall ie, In ie l <-> In ie ord /\ key ie = x.
Proof.
  intros S Hf. pose proof (cut_range key ord x). pose proof (cut_range key ord (x + 1)).
  pose proof (cut_mono key ord x (x + 1) ltac:(lia)).
  destruct (range_elems_down ord fuel (cut key ord (x + 1) - 1) (cut key ord x - 1)) as (l & E & M & ND); [lia|lia|lia|].
  exists l. split; [exact E|]. split; [exact ND|].
  destruct (cut_spec key ord x S) as (_ & A1 & B1). destruct (cut_spec key ord (x + 1) S) as (_ & A2 & B2).
  intros ie. rewrite M. split.
  - intros (k & Hk & G). split; [eapply get_In; eauto|].
    pose proof (B1 k ie ltac:(lia) G). pose proof (A2 k ie ltac:(lia) G). lia.
  - intros [Hin Hk]. apply In_get in Hin as [k G]. exists k. split; [|exact G]. split.
    + destruct (Z_lt_ge_dec k (cut key ord x)) as [Lt|]; [|lia]. pose proof (A1 k ie Lt G). lia.
    + destruct (Z_lt_ge_dec k (cut key ord (x + 1))) as [|Ge]; [lia|]. pose proof (B2 k ie ltac:(lia) G). lia.
Qed.

(* the indices between two consecutive cuts hold exactly the elements with that key *)
Lemma between_cuts (key : iedge -> Z) (ord : list iedge) x ie :
  sorted_by key ord ->
  ((exists k, cut key ord x <= k < cut key ord (x + 1) /\ get ord k = Ok ie) <-> In ie ord /\ key ie = x).
Proof.
  intros S.
  destruct (cut_spec key ord x S) as (_ & A1 & B1). destruct (cut_spec key ord (x + 1) S) as (_ & A2 & B2).
  split.
  - intros (k & Hk & G). split; [eapply get_In; eauto|].
    pose proof (B1 k ie ltac:(lia) G). pose proof (A2 k ie ltac:(lia) G). lia.
  - intros [Hin Hk]. apply In_get in Hin as [k G]. exists k. split; [|exact G]. split.
    + destruct (Z_lt_ge_dec k (cut key ord x)) as [Lt|]; [|lia]. pose proof (A1 k ie Lt G). lia.
    + destruct (Z_lt_ge_dec k (cut key ord (x + 1))) as [|Ge]; [lia|]. pose proof (B2 k ie ltac:(lia) G). lia.
Qed.

Lemma tree_clear_from_par q o t0 t :
  tree_clear_from q o t0 = Ok t -> t_parent t = repeat NULL (Z.to_nat (q_N q + 1)).
Proof.
  unfold tree_clear_from. intros H.
  bind_inv H. bind_inv H. bind_inv H. bind_inv H. bind_inv H. bind_inv H. bind_inv H.
  match type of H with (if ?c then _ else _) = _ => destruct c end.
  - apply insert_roots_par in H; [exact H|]. simpl. intros u Hu.
    apply get_repeat. unfold zlen in Hu. rewrite repeat_length in Hu. lia.
  - inversion H; subst; simpl. reflexivity.
Qed.

(* the index an operation is documented to reach from index [idx] (-1 = null) *)
Definition nav_in_tree (q : tseq) (x i : Z) : Prop :=
  0 <= i < q_ntrees q /\ exists l r, get (q_bps q) i = Ok l /\ get (q_bps q) (i + 1) = Ok r /\ l <= x < r.

Definition op_spec (q : tseq) (idx : Z) (op : Z * Z) (idx' : Z) : Prop :=
  let nt := q_ntrees q in
  let '(kind, a) := op in
  (kind = 0 /\ idx' = (if idx + 1 =? nt then -1 else idx + 1)) \/
  (kind = 1 /\ idx' = (if idx =? -1 then nt - 1 else idx - 1)) \/
  (kind = 2 /\ idx' = 0) \/
  (kind = 3 /\ idx' = nt - 1) \/
  (kind = 4 /\ idx' = -1) \/
  (kind = 5 /\ ((0 <= a < q_L q /\ nav_in_tree q a idx') \/ (~ (0 <= a < q_L q) /\ idx' = idx))) \/
  (kind = 6 /\ let k := if a <? 0 then a + nt else a in
               ((0 <= k < nt /\ idx' = k) \/ (~ (0 <= k < nt) /\ idx' = idx))).

Inductive hist_spec (q : tseq) : Z -> list (Z * Z) -> Z -> Prop :=
| hs_nil idx : hist_spec q idx [] idx
| hs_cons idx op idx1 r idx2 : op_spec q idx op idx1 -> hist_spec q idx1 r idx2 -> hist_spec q idx (op :: r) idx2.

Section Nav.
  Variables (L : Z) (ns : list node) (es : list edge) (Ins Rem : list Z) (q : tseq).
  Hypothesis HVb : valid_edgesb L ns es = true.
  Hypothesis HI : index_sorted es Ins Rem.
  Hypothesis HQ : mk_tseq L ns es Ins Rem = Ok q.
  Variable o : topts.
  Variable J : tree -> Prop.

  Let HV : valid_edges L ns es := valid_edgesb_spec L ns es HVb.
  Let N := zlen ns.
  Let M := zlen es.

  Hypothesis J_fresh : forall t, tree_clear q o = Ok t -> J t.
  Hypothesis J_clear : forall t t', J t -> tree_clear_from q o t = Ok t' -> J t'.
  Hypothesis J_remove : forall t e t', J t -> In e es ->
    get (t_parent t) (echild e) = Ok (eparent e) ->
    remove_edge q o t (eparent e) (echild e) = Ok t' -> J t'.
  Hypothesis J_insert : forall t e i t', J t -> In e es ->
    get (t_parent t) (echild e) = Ok NULL ->
    insert_edge q o t (eparent e) (echild e) i = Ok t' -> J t'.

  Ltac inst lem := first [ exact (lem L ns es Ins Rem q HVb HI HQ) | exact (lem L ns es Ins Rem q HI HQ)
                         | exact (lem L ns es Ins Rem q HQ) | exact (lem L ns es Ins Rem q HVb HQ) ].
  Let W_next_pos_end := ltac:(inst next_pos_end).
  Let W_prev_pos_end := ltac:(inst prev_pos_end).
  Let W_next_pos_null := ltac:(inst next_pos_null).
  Let W_prev_pos_null := ltac:(inst prev_pos_null).
  Let W_next_pos := ltac:(inst next_pos).
  Let W_prev_pos := ltac:(inst prev_pos).
  Let W_bps_lt := ltac:(inst bps_lt).
  Let W_ntrees_pos := ltac:(inst ntrees_pos).
  Let W_seek_backward_null := ltac:(inst seek_backward_null).
  Let W_seek_forward_null := ltac:(inst seek_forward_null).
  Let W_bps_first := ltac:(inst bps_first).
  Let W_bps_last := ltac:(inst bps_last).
  Let W_q_L_L := ltac:(inst q_L_L).
  Let W_bps_len := ltac:(inst bps_len).
  Let W_no_end_between := ltac:(inst no_end_between).
  Let W_zlen_I := ltac:(inst zlen_I).
  Let W_zlen_O := ltac:(inst zlen_O).
  Let W_scan_fuel_M := ltac:(inst scan_fuel_M).
  Let W_bps_get := ltac:(inst bps_get).
  Let W_bps_incr := ltac:(inst bps_incr).
  Let W_edgeI := ltac:(inst edgeI).
  Let W_edgeO := ltac:(inst edgeO).
  Let W_cI_spec := ltac:(inst cI_spec).
  Let W_cO_spec := ltac:(inst cO_spec).
  Let W_cI_range := ltac:(inst cI_range).
  Let W_cO_range := ltac:(inst cO_range).
  Let W_bps_bounds := ltac:(inst bps_bounds).
  Let Hok := Hok' L ns es HV.
  Let Hdisj := ve_disj L ns es HV.
  Let SI := sortedI L ns es Ins Rem q HI HQ.
  Let SO := sortedO L ns es Ins Rem q HI HQ.

  Lemma qN_N : q_N q = N.
  Proof. destruct (mk_tseq_inv L ns es Ins Rem q HQ) as (? & ? & _ & _ & _ & _ & _ & E & _). exact E. Qed.

  Lemma NoDup_I : NoDup (q_I q).
  Proof. destruct (mk_tseq_inv L ns es Ins Rem q HQ) as (? & ? & R & _). exact (nodup_resolved es Ins _ (is_permI _ _ _ HI) R). Qed.
  Lemma NoDup_O : NoDup (q_O q).
  Proof. destruct (mk_tseq_inv L ns es Ins Rem q HQ) as (? & ? & _ & R & _). exact (nodup_resolved es Rem _ (is_permO _ _ _ HI) R). Qed.
  Lemma inj_I a b : In a (q_I q) -> In b (q_I q) -> snd a = snd b -> a = b.
  Proof. destruct (mk_tseq_inv L ns es Ins Rem q HQ) as (? & ? & R & _). exact (same_edge_same_elem L ns es HV Ins _ a b R). Qed.
  Lemma inj_O a b : In a (q_O q) -> In b (q_O q) -> snd a = snd b -> a = b.
  Proof. destruct (mk_tseq_inv L ns es Ins Rem q HQ) as (? & ? & _ & R & _). exact (same_edge_same_elem L ns es HV Rem _ a b R). Qed.
  Lemma mem_I e : In e es -> exists i, In (i, e) (q_I q).
  Proof. apply (memI L ns es Ins Rem q HI HQ). Qed.
  Lemma mem_O e : In e es -> exists i, In (i, e) (q_O q).
  Proof. apply (memO L ns es Ins Rem q HI HQ). Qed.
  Lemma in_I ie : In ie (q_I q) -> In (snd ie) es.
  Proof. apply (memI L ns es Ins Rem q HI HQ). Qed.
  Lemma in_O ie : In ie (q_O q) -> In (snd ie) es.
  Proof. apply (memO L ns es Ins Rem q HI HQ). Qed.

  Lemma fuel_I : (Z.to_nat (zlen (q_I q)) < scan_fuel q)%nat.
  Proof. rewrite (W_zlen_I), (W_scan_fuel_M). lia. Qed.
  Lemma fuel_O : (Z.to_nat (zlen (q_O q)) < scan_fuel q)%nat.
  Proof. rewrite (W_zlen_O), (W_scan_fuel_M). lia. Qed.

  (* ---- the batches of one move, on lists ---- *)
  Lemma batch_inv t outs ins t1 t2 x y :
    J t -> PostB N es (t_parent t) x ->
    NoDup outs -> NoDup ins ->
    (forall a b, In a outs -> In b outs -> snd a = snd b -> a = b) ->
    (forall a b, In a ins -> In b ins -> snd a = snd b -> a = b) ->
    (forall ie, In ie outs -> In (snd ie) es /\ cov x (snd ie) /\ ~ cov y (snd ie)) ->
    (forall e, In e es -> cov x e -> ~ cov y e -> exists i, In (i, e) outs) ->
    (forall ie, In ie ins -> In (snd ie) es /\ cov y (snd ie) /\ ~ cov x (snd ie)) ->
    (forall e, In e es -> cov y e -> ~ cov x e -> exists i, In (i, e) ins) ->
    remove_edges q o t outs = Ok t1 -> insert_edges q o t1 ins = Ok t2 ->
    J t2 /\ PostB N es (t_parent t2) y.
  Proof.
    intros Jt Px NDo NDi InjO InjI O1 O2 I1 I2 E1 E2.
    destruct (par_move N es Hok Hdisj (t_parent t) x y outs ins Px O1 O2 I1 I2)
      as (P1 & P2 & R1 & R2 & Py & Pres & Free).
    pose proof (remove_edges_par q o outs t t1 E1) as R1'. rewrite R1 in R1'. inversion R1' as [EP1].
    pose proof (insert_edges_par q o ins t1 t2 E2) as R2'. rewrite <- EP1, R2 in R2'. inversion R2' as [EP2].
    split; [|rewrite <- EP2; exact Py].
    assert (J t1).
    { eapply (remove_edges_J es q o J J_remove outs t t1); eauto.
      - intros ie H. apply (O1 ie H).
      - apply (children_nodup es Hdisj outs x NDo InjO). intros ie H. destruct (O1 ie H) as (? & ? & _). auto. }
    eapply (insert_edges_J es q o J J_insert ins t1 t2); eauto.
    - intros ie H'. apply (I1 ie H').
    - apply (children_nodup es Hdisj ins y NDi InjI). intros ie H'. destruct (I1 ie H') as (? & ? & _). auto.
    - intros ie H'. rewrite <- EP1. apply Free. exact H'.
  Qed.

  (* ---- states ---- *)
  Definition ParNull (P : list Z) : Prop := N <= zlen P /\ forall u, 0 <= u < N -> get P u = Ok NULL.

  Lemma parnull_post P x : ParNull P -> x < 0 \/ L <= x -> PostB N es P x.
  Proof.
    intros [Z1 G] Hx. split; [exact Z1|]. intros u Hu. rewrite (G u Hu). f_equal. symmetry.
    apply parent_at_none. intros e Hin _ C. destruct (ve_ok _ _ _ HV e Hin) as (? & ? & _). lia.
  Qed.

  Definition Inv (s : nav) : Prop :=
    J (v_tree s) /\
    ((n_index (v_pos s) = -1 /\ n_left (v_pos s) = 0 /\ n_right (v_pos s) = 0 /\
      ParNull (t_parent (v_tree s))) \/
     (exists i, PosAt q (v_pos s) i /\
        forall x, n_left (v_pos s) <= x < n_right (v_pos s) -> PostB N es (t_parent (v_tree s)) x)).

  Lemma post_extend P i l r :
    get (q_bps q) i = Ok l -> get (q_bps q) (i + 1) = Ok r -> PostB N es P l ->
    forall x, l <= x < r -> PostB N es P x.
  Proof.
    intros Gl Gr Pl x Hx. apply (post_interval N es P l r x Pl Hx).
    - intros e He. destruct (W_no_end_between i l r e Gl Gr He). lia.
    - intros e He. destruct (W_no_end_between i l r e Gl Gr He). lia.
  Qed.

  (* ---- clear ---- *)
  Lemma clear_inv s s' : J (v_tree s) -> nav_clear q o s = Ok s' ->
    Inv s' /\ n_index (v_pos s') = -1.
  Proof.
    intros Jt H. unfold nav_clear in H. bind_inv H. inversion H; subst s'. simpl.
    split; [|reflexivity]. split; [simpl; eapply J_clear; eauto|]. left. simpl.
    split; [reflexivity|]. split; [reflexivity|]. split; [reflexivity|].
    rewrite (tree_clear_from_par _ _ _ _ E), qN_N.
    split; [unfold zlen; rewrite repeat_length; unfold N, zlen; lia|].
    intros u Hu. apply get_repeat. lia.
  Qed.

  Lemma fresh_inv s : nav_fresh q o = Ok s -> Inv s /\ n_index (v_pos s) = -1.
  Proof.
    intros H. unfold nav_fresh in H. revert H. case_eq (tree_clear q o); cbn [bind]; try discriminate.
    intros a E H. inversion H; subst s. simpl.
    split; [|reflexivity]. split; [simpl; apply J_fresh; exact E|]. left. simpl.
    split; [reflexivity|]. split; [reflexivity|]. split; [reflexivity|].
    destruct (tree_clear_par _ _ _ E) as [EP _]. rewrite EP, qN_N.
    split; [unfold zlen; rewrite repeat_length; unfold N, zlen; lia|].
    intros u Hu. apply get_repeat. lia.
  Qed.

  (* ---- a move to the right across the boundary x (the new left end) ---- *)
  Lemma fwd_move t p0 p' x0 x s' v :
    J t -> PostB N es (t_parent t) x0 -> x0 < x ->
    (forall e, In e es -> ~ (x0 < eleft e < x) /\ ~ (x0 < eright e < x)) ->
    n_out p' = mkBm (cO q x) (cO q (x + 1)) true ->
    n_in p' = mkBm (cI q x) (cI q (x + 1)) false ->
    nav_move q o (mkNav t p0) (p', true) 1 = Ok (s', v) ->
    J (v_tree s') /\ PostB N es (t_parent (v_tree s')) x /\ v_pos s' = p' /\ v = true.
  Proof.
    intros Jt Px Hx NB EO EI H. unfold nav_move in H. simpl v_tree in H.
    unfold apply_bm in H. rewrite EO, EI in H. cbn [b_start b_stop b_rem ord_of] in H.
    destruct (range_key_up iright (q_O q) (scan_fuel q) x SO fuel_O) as (lo & Eo & NDo & Mo).
    destruct (range_key_up ileft (q_I q) (scan_fuel q) x SI fuel_I) as (li & Ei & NDi & Mi).
    fold (cO q x) (cO q (x + 1)) in Eo. fold (cI q x) (cI q (x + 1)) in Ei.
    rewrite (range_loop_fold _ _ _ _ _ _ _ t Eo), foldM_remove in H. bind_inv H.
    rewrite (range_loop_fold _ _ _ _ _ _ _ a Ei), foldM_insert in H. bind_inv H.
    inversion H; subst s' v. simpl.
    assert (BS : forall e, In e es -> (eright e = x <-> cov x0 e /\ ~ cov x e) /\ (eleft e = x <-> cov x e /\ ~ cov x0 e)).
    { intros e He. destruct (NB e He). apply (boundary_sets N es Hok x0 x e); auto. }
    destruct (batch_inv t lo li a a0 x0 x) as [J2 P2]; auto.
    - apply NDo. exact NoDup_O.
    - apply NDi. exact NoDup_I.
    - intros u w Hu Hw. apply inj_O; [apply (Mo u) | apply (Mo w)]; assumption.
    - intros u w Hu Hw. apply inj_I; [apply (Mi u) | apply (Mi w)]; assumption.
    - intros ie Hie. apply Mo in Hie as [Hin Hk]. pose proof (in_O ie Hin) as He.
      split; [exact He|]. apply (BS _ He). exact Hk.
    - intros e He Cx Ny. destruct (mem_O e He) as [i Hi]. exists i. apply Mo. split; [exact Hi|].
      unfold iright; simpl. apply (BS e He). auto.
    - intros ie Hie. apply Mi in Hie as [Hin Hk]. pose proof (in_I ie Hin) as He.
      split; [exact He|]. apply (BS _ He). exact Hk.
    - intros e He Cx Ny. destruct (mem_I e He) as [i Hi]. exists i. apply Mi. split; [exact Hi|].
      unfold ileft; simpl. apply (BS e He). auto.
  Qed.

  (* ---- a move to the left across the boundary x (the new right end), to a point x0 ---- *)
  Lemma rev_move t p0 p' x0 x s' v :
    J t -> PostB N es (t_parent t) x -> x0 < x ->
    (forall e, In e es -> ~ (x0 < eleft e < x) /\ ~ (x0 < eright e < x)) ->
    n_out p' = mkBm (cI q (x + 1) - 1) (cI q x - 1) false ->
    n_in p' = mkBm (cO q (x + 1) - 1) (cO q x - 1) true ->
    nav_move q o (mkNav t p0) (p', true) (-1) = Ok (s', v) ->
    J (v_tree s') /\ PostB N es (t_parent (v_tree s')) x0 /\ v_pos s' = p' /\ v = true.
  Proof.
    intros Jt Px Hx NB EO EI H. unfold nav_move in H. simpl v_tree in H.
    unfold apply_bm in H. rewrite EO, EI in H. cbn [b_start b_stop b_rem ord_of] in H.
    destruct (range_key_down ileft (q_I q) (scan_fuel q) x SI fuel_I) as (lo & Eo & NDo & Mo).
    destruct (range_key_down iright (q_O q) (scan_fuel q) x SO fuel_O) as (li & Ei & NDi & Mi).
    fold (cO q x) (cO q (x + 1)) in Ei. fold (cI q x) (cI q (x + 1)) in Eo.
    rewrite (range_loop_fold _ _ _ _ _ _ _ t Eo), foldM_remove in H. bind_inv H.
    rewrite (range_loop_fold _ _ _ _ _ _ _ a Ei), foldM_insert in H. bind_inv H.
    inversion H; subst s' v. simpl.
    assert (BS : forall e, In e es -> (eright e = x <-> cov x0 e /\ ~ cov x e) /\ (eleft e = x <-> cov x e /\ ~ cov x0 e)).
    { intros e He. destruct (NB e He). apply (boundary_sets N es Hok x0 x e); auto. }
    destruct (batch_inv t lo li a a0 x x0) as [J2 P2]; auto.
    - apply NDo. exact NoDup_I.
    - apply NDi. exact NoDup_O.
    - intros u w Hu Hw. apply inj_I; [apply (Mo u) | apply (Mo w)]; assumption.
    - intros u w Hu Hw. apply inj_O; [apply (Mi u) | apply (Mi w)]; assumption.
    - intros ie Hie. apply Mo in Hie as [Hin Hk]. pose proof (in_I ie Hin) as He.
      split; [exact He|]. apply (BS _ He). exact Hk.
    - intros e He Cx Ny. destruct (mem_I e He) as [i Hi]. exists i. apply Mo. split; [exact Hi|].
      unfold ileft; simpl. apply (BS e He). auto.
    - intros ie Hie. apply Mi in Hie as [Hin Hk]. pose proof (in_O ie Hin) as He.
      split; [exact He|]. apply (BS _ He). exact Hk.
    - intros e He Cx Ny. destruct (mem_O e He) as [i Hi]. exists i. apply Mi. split; [exact Hi|].
      unfold iright; simpl. apply (BS e He). auto.
  Qed.

  Definition idx_of (s : nav) : Z := n_index (v_pos s).

  Lemma inv_cases s : Inv s ->
    (idx_of s = -1 /\ n_left (v_pos s) = 0 /\ n_right (v_pos s) = 0 /\ ParNull (t_parent (v_tree s))) \/
    (0 <= idx_of s < q_ntrees q /\ PosAt q (v_pos s) (idx_of s) /\
     forall x, n_left (v_pos s) <= x < n_right (v_pos s) -> PostB N es (t_parent (v_tree s)) x).
  Proof.
    intros [_ [H|(i & PA & G)]]; [left; exact H|right].
    pose proof PA as (R & Ix & _). unfold idx_of. rewrite Ix. auto.
  Qed.

  Lemma posat_lt p i : PosAt q p i -> n_left p < n_right p.
  Proof. intros (_ & _ & Gl & Gr & _). eapply (W_bps_lt); eauto. Qed.

  Lemma mk_inv t p i :
    J t -> PosAt q p i -> PostB N es (t_parent t) (n_left p) -> Inv (mkNav t p).
  Proof.
    intros Jt PA Pl. split; [exact Jt|]. right. exists i. split; [exact PA|]. simpl.
    destruct PA as (_ & _ & Gl & Gr & _). eapply post_extend; eauto.
  Qed.

  (* ---- next ---- *)
  Lemma next_inv s s' v : Inv s -> nav_next q o s = Ok (s', v) ->
    Inv s' /\ idx_of s' = (if idx_of s + 1 =? q_ntrees q then -1 else idx_of s + 1).
  Proof.
    intros I H. pose proof I as [Jt _]. destruct s as [t p]. simpl in Jt.
    unfold nav_next in H. simpl v_pos in H. unfold idx_of. simpl v_pos.
    destruct (inv_cases _ I) as [(Ix & Zl & Zr & PN)|(R & PA & G)]; unfold idx_of in *; simpl in *.
    - (* from null *)
      destruct (W_next_pos_null p Ix) as (p' & E & PA' & Lp & EO & EI).
      rewrite E in H. cbn [bind] in H.
      destruct (fwd_move t p p' (-1) 0 s' v Jt) as (J' & P' & EP & _); auto.
      + apply parnull_post; [exact PN | lia].
      + lia.
      + intros e He. split; lia.
      + pose proof (W_ntrees_pos).
        rewrite Ix. replace (-1 + 1 =? q_ntrees q) with false by (symmetry; apply Z.eqb_neq; lia).
        destruct s' as [t' p'']. simpl in *. subst p''. split.
        * apply (mk_inv t' p' 0); auto. rewrite Lp. exact P'.
        * destruct PA' as (_ & Ix' & _). simpl. lia.
    - destruct (Z.eq_dec (n_index p + 1) (q_ntrees q)) as [End|NEnd].
      + (* runs off the right end: clear *)
        assert (PA' : PosAt q p (q_ntrees q - 1)) by (replace (q_ntrees q - 1) with (n_index p) by lia; exact PA).
        destruct (W_next_pos_end p PA') as (p' & E & Ix' & _).
        rewrite E in H. cbn [bind] in H. unfold nav_move in H. bind_inv H. inversion H; subst s' v.
        destruct (clear_inv (mkNav t p') a Jt E0) as [I' Ix''].
        split; [exact I'|]. unfold idx_of in *. rewrite Ix''.
        replace (n_index p + 1 =? q_ntrees q) with true by (symmetry; apply Z.eqb_eq; lia). reflexivity.
      + destruct (W_next_pos p (n_index p) PA ltac:(lia)) as (p' & E & PA' & Lp & EO & EI).
        rewrite E in H. cbn [bind] in H.
        pose proof (posat_lt p _ PA) as LT. pose proof PA as (_ & _ & Gl & Gr & _).
        destruct (fwd_move t p p' (n_left p) (n_right p) s' v Jt) as (J' & P' & EP & _); auto.
        * apply G. lia.
        * intros e He. apply (W_no_end_between (n_index p) _ _ e Gl Gr He).
        * replace (n_index p + 1 =? q_ntrees q) with false by (symmetry; apply Z.eqb_neq; lia).
          destruct s' as [t' p'']. simpl in *. subst p''. split.
          -- apply (mk_inv t' p' (n_index p + 1)); auto. rewrite Lp. exact P'.
          -- destruct PA' as (_ & Ix' & _). simpl. exact Ix'.
  Qed.

  (* ---- prev ---- *)
  Lemma prev_inv s s' v : Inv s -> nav_prev q o s = Ok (s', v) ->
    Inv s' /\ idx_of s' = (if idx_of s =? -1 then q_ntrees q - 1 else idx_of s - 1).
  Proof.
    intros I H. pose proof I as [Jt _]. destruct s as [t p]. simpl in Jt.
    unfold nav_prev in H. simpl v_pos in H. unfold idx_of. simpl v_pos.
    pose proof (W_ntrees_pos) as NT.
    destruct (inv_cases _ I) as [(Ix & Zl & Zr & PN)|(R & PA & G)]; unfold idx_of in *; simpl in *.
    - (* from null: the last tree *)
      destruct (W_prev_pos_null p Ix) as (p' & E & PA' & Rp & EO & EI).
      rewrite E in H. cbn [bind] in H.
      pose proof PA' as (_ & Ix' & Gl' & Gr' & _). rewrite Rp in Gr'.
      pose proof (posat_lt p' _ PA') as LT. rewrite Rp in LT.
      destruct (rev_move t p p' (n_left p') L s' v Jt) as (J' & P' & EP & _); auto.
      + apply parnull_post; [exact PN | lia].
      + intros e He. apply (W_no_end_between (q_ntrees q - 1) _ _ e Gl' Gr' He).
      + rewrite Ix. simpl.
        destruct s' as [t' p'']. simpl in *. subst p''. split.
        * apply (mk_inv t' p' (q_ntrees q - 1)); auto.
        * exact Ix'.
    - destruct (Z.eq_dec (n_index p) 0) as [End|NEnd].
      + assert (PA' : PosAt q p 0) by (rewrite <- End; exact PA).
        destruct (W_prev_pos_end p PA') as (p' & E & Ix' & _).
        rewrite E in H. cbn [bind] in H. unfold nav_move in H. bind_inv H. inversion H; subst s' v.
        destruct (clear_inv (mkNav t p') a Jt E0) as [I' Ix''].
        split; [exact I'|]. unfold idx_of in *. rewrite Ix'', End. reflexivity.
      + destruct (W_prev_pos p (n_index p) PA ltac:(lia)) as (p' & E & PA' & Rp & EO & EI).
        rewrite E in H. cbn [bind] in H.
        pose proof (posat_lt p _ PA) as LT.
        pose proof PA' as (_ & Ix' & Gl' & Gr' & _). rewrite Rp in Gr'.
        pose proof (posat_lt p' _ PA') as LT'. rewrite Rp in LT'.
        destruct (rev_move t p p' (n_left p') (n_left p) s' v Jt) as (J' & P' & EP & _); auto.
        * apply G. lia.
        * intros e He. apply (W_no_end_between (n_index p - 1) _ _ e Gl' Gr' He).
        * replace (n_index p =? -1) with false by (symmetry; apply Z.eqb_neq; lia).
          destruct s' as [t' p'']. simpl in *. subst p''. split.
          -- apply (mk_inv t' p' (n_index p - 1)); auto.
          -- exact Ix'.
  Qed.

  (* ---- which tree contains x ---- *)
  Lemma nav_in_tree_unique x i k : nav_in_tree q x i -> nav_in_tree q x k -> i = k.
  Proof.
    intros (Ri & li & ri & Gli & Gri & Hi) (Rk & lk & rk & Glk & Grk & Hk).
    pose proof W_bps_incr as Inc.
    destruct (Z.lt_trichotomy i k) as [Lt|[E|Gt]]; [exfalso|exact E|exfalso].
    - destruct (Z.eq_dec (i + 1) k) as [E1|N1].
      + subst k. rewrite Gri in Glk. inversion Glk. lia.
      + pose proof (Inc (i + 1) k ri lk ltac:(lia) Gri Glk). lia.
    - destruct (Z.eq_dec (k + 1) i) as [E1|N1].
      + subst i. rewrite Grk in Gli. inversion Gli. lia.
      + pose proof (Inc (k + 1) i rk li ltac:(lia) Grk Gli). lia.
  Qed.

  Lemma find_index_spec x : 0 <= x < L -> exists i, find_index q x = Ok i /\ nav_in_tree q x i.
  Proof.
    intros Hx. pose proof W_ntrees_pos as NT. pose proof W_bps_len as BL.
    unfold find_index, search_sorted.
    replace (q_ntrees q + 1 =? 0) with false by (symmetry; apply Z.eqb_neq; lia).
    destruct (ss_loop_spec (q_bps q) x W_bps_incr (Z.to_nat (q_ntrees q + 1)) 0 (q_ntrees q + 1))
      as (lo & E & A1 & A2 & A3 & A4); try lia.
    - intros y Gy. rewrite W_bps_first in Gy. inversion Gy. lia.
    - intros y Gy. apply get_inv in Gy. lia.
    - rewrite E. cbn [bind].
      assert (lo < q_ntrees q).
      { destruct (Z.eq_dec lo (q_ntrees q)) as [->|]; [|lia]. pose proof (A3 L W_bps_last). lia. }
      destruct (W_bps_get lo ltac:(lia)) as [al Gl]. destruct (W_bps_get (lo + 1) ltac:(lia)) as [ar Gr].
      rewrite Gl. cbn [bind]. pose proof (A3 al Gl). pose proof (A4 ar Gr).
      assert (IT : nav_in_tree q x lo) by (split; [lia|]; exists al, ar; auto).
      destruct (Z.ltb_spec al x).
      + rewrite Gr. cbn [bind]. replace (x <? ar) with true by (symmetry; apply Z.ltb_lt; lia).
        exists lo. split; [f_equal; lia | exact IT].
      + rewrite Z.add_0_r, Gl. cbn [bind]. replace (x <? al) with false by (symmetry; apply Z.ltb_ge; lia).
        exists lo. split; [reflexivity | exact IT].
  Qed.

  (* ---- seek from the null state ---- *)
  Lemma seek_from_null_inv s s' x :
    Inv s -> idx_of s = -1 -> 0 <= x < L -> nav_seek_from_null q o s x = Ok s' ->
    Inv s' /\ nav_in_tree q x (idx_of s').
  Proof.
    intros I Ix Hx H. pose proof I as [Jt _]. destruct s as [t p]. simpl in Jt. unfold idx_of in Ix. simpl in Ix.
    destruct (inv_cases _ I) as [(_ & Zl & Zr & PN)|(R & _)]; [|unfold idx_of in R; simpl in R; lia].
    simpl in PN.
    unfold nav_seek_from_null in H. destruct (find_index_spec x Hx) as (i & EF & IT). rewrite EF in H. cbn [bind] in H.
    pose proof IT as (Ri & l & r & Gl & Gr & Hlr). simpl v_pos in H. simpl v_tree in H.
    assert (NE : forall e, In e es -> ~ (l < eleft e < r) /\ ~ (l < eright e < r)).
    { intros e He. apply (W_no_end_between i l r e Gl Gr He). }
    destruct (2 * x <=? q_L q).
    - destruct (W_seek_forward_null p i l r Ix Ri Gl Gr) as (p' & j1 & E & PA & Lp & Rp & EI & Rj & Hj).
      rewrite E in H. cbn [bind] in H. unfold apply_bm in H. rewrite EI, Lp in H.
      cbn [b_start b_stop b_rem ord_of] in H.
      pose proof (W_cI_range r) as CR.
      destruct (range_elems_up (q_I q) (scan_fuel q) j1 (cI q r)) as (l0 & E0 & M0 & ND0);
        [lia | rewrite W_zlen_I; lia | rewrite W_scan_fuel_M; lia |].
      rewrite (range_loop_fold _ _ _ _ _ _ _ t E0), foldM_insert_if in H. bind_inv H. inversion H; subst s'.
      set (c := fun ie : iedge => (ileft ie <=? l) && (l <? iright ie)) in *.
      assert (CI : forall ie, c ie = true <-> cov l (snd ie)).
      { intros ie. unfold c, cov, ileft, iright. rewrite andb_true_iff, Z.leb_le, Z.ltb_lt. tauto. }
      destruct (batch_inv t [] (filter c l0) t a (-1) l) as [J2 P2]; auto.
      + apply parnull_post; [exact PN | lia].
      + constructor.
      + apply NoDup_filter. apply ND0. exact NoDup_I.
      + intros u w [].
      + intros u w Hu Hw. apply filter_In in Hu as [Hu _]. apply filter_In in Hw as [Hw _].
        apply M0 in Hu as (ku & _ & Gu). apply M0 in Hw as (kw & _ & Gw).
        apply inj_I; eapply get_In; eauto.
      + intros ie [].
      + intros e He C. destruct (ve_ok _ _ _ HV e He) as (? & _). unfold cov in C. lia.
      + intros ie Hie. apply filter_In in Hie as [Hie Hc]. apply M0 in Hie as (k & _ & Gk).
        pose proof (in_I ie (get_In _ _ _ Gk)) as He. split; [exact He|]. split; [apply CI; exact Hc|].
        destruct (ve_ok _ _ _ HV _ He) as (? & _). unfold cov. lia.
      + intros e He C _. destruct (mem_I e He) as [k0 Hi]. exists k0. apply filter_In. split; [|apply CI; exact C].
        apply M0. destruct (In_get _ _ Hi) as [k Gk]. exists k. split; [|exact Gk].
        unfold cov in C. split.
        * destruct (Z_lt_ge_dec k j1) as [Lt|]; [|lia]. pose proof (Hj k _ Lt Gk) as X. unfold iright in X; simpl in X. lia.
        * destruct (Z_lt_ge_dec k (cI q r)) as [|Ge]; [lia|].
          destruct (W_cI_spec r) as (_ & _ & B). pose proof (B k _ ltac:(lia) Gk) as X. unfold ileft in X; simpl in X. lia.
      + split.
        * apply (mk_inv a p' i); auto. rewrite Lp. exact P2.
        * unfold idx_of. simpl. destruct PA as (_ & Ix' & _). rewrite Ix'. exact IT.
    - destruct (W_seek_backward_null p i l r Ix Ri Gl Gr) as (p' & j1 & E & PA & Lp & Rp & EI & Rj & Hj).
      rewrite E in H. cbn [bind] in H. unfold apply_bm in H. rewrite EI, Rp in H.
      cbn [b_start b_stop b_rem ord_of] in H.
      pose proof (W_cO_range r) as CR.
      destruct (range_elems_down (q_O q) (scan_fuel q) j1 (cO q r - 1)) as (l0 & E0 & M0 & ND0);
        [lia | rewrite W_zlen_O; fold M; lia | rewrite W_scan_fuel_M; fold M; lia |].
      rewrite (range_loop_fold _ _ _ _ _ _ _ t E0), foldM_insert_if in H. bind_inv H. inversion H; subst s'.
      set (c := fun ie : iedge => (r <=? iright ie) && (ileft ie <? r)) in *.
      assert (CI : forall ie, In (snd ie) es -> (c ie = true <-> cov l (snd ie))).
      { intros ie He. destruct (NE _ He). destruct (ve_ok _ _ _ HV _ He) as (? & _).
        unfold c, cov, ileft, iright. rewrite andb_true_iff, Z.leb_le, Z.ltb_lt. lia. }
      destruct (batch_inv t [] (filter c l0) t a (-1) l) as [J2 P2]; auto.
      + apply parnull_post; [exact PN | lia].
      + constructor.
      + apply NoDup_filter. apply ND0. exact NoDup_O.
      + intros u w [].
      + intros u w Hu Hw. apply filter_In in Hu as [Hu _]. apply filter_In in Hw as [Hw _].
        apply M0 in Hu as (ku & _ & Gu). apply M0 in Hw as (kw & _ & Gw).
        apply inj_O; eapply get_In; eauto.
      + intros ie [].
      + intros e He C. destruct (ve_ok _ _ _ HV e He) as (? & _). unfold cov in C. lia.
      + intros ie Hie. apply filter_In in Hie as [Hie Hc]. apply M0 in Hie as (k & _ & Gk).
        pose proof (in_O ie (get_In _ _ _ Gk)) as He. split; [exact He|]. split; [apply (CI ie He); exact Hc|].
        destruct (ve_ok _ _ _ HV _ He) as (? & _). unfold cov. lia.
      + intros e He C _. destruct (mem_O e He) as [k0 Hi]. exists k0. apply filter_In.
        split; [|apply (CI (k0, e) He); exact C].
        apply M0. destruct (In_get _ _ Hi) as [k Gk]. exists k. split; [|exact Gk].
        destruct (NE _ He). unfold cov in C. split.
        * destruct (Z_lt_ge_dec k (cO q r)) as [Lt|]; [|lia].
          destruct (W_cO_spec r) as (_ & A & _). pose proof (A k _ Lt Gk) as X. unfold iright in X; simpl in X. lia.
        * destruct (Z_le_gt_dec k j1) as [|Gt]; [lia|]. pose proof (Hj k _ ltac:(lia) Gk) as X.
          unfold ileft in X; simpl in X. lia.
      + split.
        * apply (mk_inv a p' i); auto. rewrite Lp. exact P2.
        * unfold idx_of. simpl. destruct PA as (_ & Ix' & _). rewrite Ix'. exact IT.
  Qed.

  (* ---- the linear walk, through the null state if need be ---- *)
  Lemma seek_loop_inv x k fwd : nav_in_tree q x k -> forall fuel s s',
    Inv s -> seek_loop fuel q o fwd s x = Ok s' -> Inv s' /\ idx_of s' = k.
  Proof.
    intros IT. induction fuel as [|f IH]; intros s s' I H; simpl in H; [discriminate|].
    destruct (in_interval (v_pos s) x) eqn:II.
    - inversion H; subst s'. split; [exact I|].
      unfold in_interval in II. apply andb_true_iff in II as [A B]. apply Z.leb_le in A. apply Z.ltb_lt in B.
      destruct (inv_cases _ I) as [(_ & Zl & Zr & _)|(R & PA & _)]; [lia|].
      apply (nav_in_tree_unique x); [|exact IT]. destruct PA as (_ & _ & Gl & Gr & _).
      split; [exact R|]. exists (n_left (v_pos s)), (n_right (v_pos s)). auto.
    - destruct fwd.
      + bind_inv H. destruct a as [s1 v]. destruct (next_inv s s1 v I E) as [I1 _]. eapply IH; eauto.
      + bind_inv H. destruct a as [s1 v]. destruct (prev_inv s s1 v I E) as [I1 _]. eapply IH; eauto.
  Qed.

  Lemma seek_inv s s' x : Inv s -> nav_seek q o s x = Ok s' ->
    0 <= x < L /\ Inv s' /\ nav_in_tree q x (idx_of s').
  Proof.
    intros I H. unfold nav_seek in H. rewrite W_q_L_L in H.
    destruct ((0 <=? x) && (x <? L)) eqn:B; cbn [negb] in H; [|discriminate].
    apply andb_true_iff in B as [B1 B2]. apply Z.leb_le in B1. apply Z.ltb_lt in B2.
    split; [lia|].
    destruct (n_index (v_pos s) =? -1) eqn:Ix.
    - apply Z.eqb_eq in Ix. eapply seek_from_null_inv; eauto; lia.
    - unfold nav_seek_linear in H.
      destruct (find_index_spec x ltac:(lia)) as (k & _ & IT).
      match type of H with (let '(_, _) := ?c in _) = _ => destruct c as [dl dr] end.
      destruct (seek_loop_inv x k _ IT _ _ _ I H) as [I' Ix']. split; [exact I'|]. rewrite Ix'. exact IT.
  Qed.

  Lemma seek_index_inv s s' k : Inv s -> nav_seek_index q o s k = Ok s' ->
    0 <= k < q_ntrees q /\ Inv s' /\ idx_of s' = k.
  Proof.
    intros I H. unfold nav_seek_index in H.
    destruct ((k <? 0) || (q_ntrees q <=? k)) eqn:B; [discriminate|].
    apply orb_false_iff in B as [B1 B2]. apply Z.ltb_ge in B1. apply Z.leb_gt in B2.
    split; [lia|]. bind_inv H. destruct (seek_inv _ _ _ I H) as (_ & I' & IT). split; [exact I'|].
    destruct (W_bps_get (k + 1) ltac:(lia)) as [r Gr].
    apply (nav_in_tree_unique a); [exact IT|]. split; [lia|]. exists a, r. split; [exact E|]. split; [exact Gr|].
    pose proof (W_bps_lt k a r E Gr). lia.
  Qed.

  (* ---- one operation of tskit.Tree ---- *)
  Lemma op_inv s s' op : Inv s -> op_rejected q op = false -> nav_op q o s op = Ok s' ->
    Inv s' /\ op_spec q (idx_of s) op (idx_of s').
  Proof.
    intros I NR H. destruct op as [kind a]. unfold nav_op in H. unfold op_spec.
    pose proof W_ntrees_pos as NT. pose proof I as [Jt _].
    destruct (Z.eqb_spec kind 0) as [K0|K0].
    { bind_inv H. destruct a0 as [s1 v]. inversion H; subst s1.
      destruct (next_inv _ _ _ I E) as [I' Ix]. split; [exact I'|]. left. auto. }
    destruct (Z.eqb_spec kind 1) as [K1|K1].
    { bind_inv H. destruct a0 as [s1 v]. inversion H; subst s1.
      destruct (prev_inv _ _ _ I E) as [I' Ix]. split; [exact I'|]. right; left. auto. }
    destruct (Z.eqb_spec kind 2) as [K2|K2].
    { bind_inv H. destruct a0 as [s1 v]. inversion H; subst s1.
      unfold nav_first in E. bind_inv E. destruct (clear_inv _ _ Jt E0) as [I0 Ix0].
      destruct (next_inv _ _ _ I0 E) as [I' Ix]. split; [exact I'|]. right; right; left. split; [exact K2|].
      rewrite Ix. unfold idx_of. rewrite Ix0.
      replace (-1 + 1 =? q_ntrees q) with false by (symmetry; apply Z.eqb_neq; lia). reflexivity. }
    destruct (Z.eqb_spec kind 3) as [K3|K3].
    { bind_inv H. destruct a0 as [s1 v]. inversion H; subst s1.
      unfold nav_last in E. bind_inv E. destruct (clear_inv _ _ Jt E0) as [I0 Ix0].
      destruct (prev_inv _ _ _ I0 E) as [I' Ix]. split; [exact I'|]. right; right; right; left. split; [exact K3|].
      rewrite Ix. unfold idx_of. rewrite Ix0. reflexivity. }
    destruct (Z.eqb_spec kind 4) as [K4|K4].
    { destruct (clear_inv _ _ Jt H) as [I' Ix]. split; [exact I'|]. right; right; right; right; left. auto. }
    destruct (Z.eqb_spec kind 5) as [K5|K5].
    { destruct (seek_inv _ _ _ I H) as (Hx & I' & IT). split; [exact I'|].
      right; right; right; right; right; left. split; [exact K5|]. left. rewrite W_q_L_L. auto. }
    destruct (Z.eqb_spec kind 6) as [K6|K6]; [|discriminate].
    destruct (seek_index_inv _ _ _ I H) as (Hk & I' & Ix). split; [exact I'|].
    right; right; right; right; right; right. split; [exact K6|]. left. auto.
  Qed.

  Lemma rejected_spec idx op : op_rejected q op = true -> op_spec q idx op idx.
  Proof.
    destruct op as [kind a]. unfold op_rejected, op_spec.
    destruct (Z.eqb_spec kind 5) as [K5|K5].
    { intros B. right; right; right; right; right; left. split; [exact K5|]. right. split; [|reflexivity].
      apply negb_true_iff, andb_false_iff in B as [B|B]; [apply Z.leb_gt in B | apply Z.ltb_ge in B]; lia. }
    destruct (Z.eqb_spec kind 6) as [K6|K6]; [|discriminate].
    intros B. right; right; right; right; right; right. split; [exact K6|]. right. split; [|reflexivity].
    apply orb_true_iff in B as [B|B]; [apply Z.ltb_lt in B | apply Z.leb_le in B]; lia.
  Qed.

  (* ---- histories ---- *)
  Lemma run_inv : forall ops s s', Inv s -> nav_run q o s ops = Ok s' ->
    Inv s' /\ hist_spec q (idx_of s) ops (idx_of s').
  Proof.
    induction ops as [|op r IH]; intros s s' I H; simpl in H.
    - inversion H; subst s'. split; [exact I | constructor].
    - revert H. case_eq (op_rejected q op); intros RJ H.
      + destruct (IH _ _ I H) as [I' HS]. split; [exact I'|].
        econstructor; [apply rejected_spec; exact RJ | exact HS].
      + bind_inv H. destruct (op_inv _ _ _ I RJ E) as [I1 S1].
        destruct (IH _ _ I1 H) as [I' HS]. split; [exact I'|]. econstructor; eauto.
  Qed.

  Theorem nav_invariant s0 ops s :
    nav_fresh q o = Ok s0 -> nav_run q o s0 ops = Ok s ->
    Inv s /\ hist_spec q (-1) ops (idx_of s).
  Proof.
    intros F H. destruct (fresh_inv _ F) as [I0 Ix0].
    destruct (run_inv _ _ _ I0 H) as [I HS]. unfold idx_of in HS at 1. rewrite Ix0 in HS. auto.
  Qed.
End Nav.
