(* coiterate: the yielded intervals split [0, L) at the union of the two breakpoint lists and
   each yielded tree covers its interval. *)
From Coq Require Import List ZArith Bool Lia Sorting.Sorted.
From TskVerif Require Import Base.Common.
From TskVerif Require Import C01.Model.

Import ListNotations.
Open Scope Z_scope.

(* strictly increasing, every element above [lo], last element L *)
Fixpoint incr_to (L lo : Z) (l : list Z) : Prop :=
  match l with
  | [] => lo = L
  | x :: r => lo < x /\ x <= L /\ incr_to L x r
  end.

(* sorted union of two increasing lists *)
Fixpoint umerge (fuel : nat) (a b : list Z) : list Z :=
  match fuel with
  | O => []
  | S f =>
      match a, b with
      | x :: a', y :: b' =>
          if x <? y then x :: umerge f a' b else if y <? x then y :: umerge f a b' else x :: umerge f a' b'
      | [], _ => b
      | _, [] => a
      end
  end.

Definition row_ok (row : list Z) : Prop :=
  match row with
  | [l; r; k1; lo1; hi1; k2; lo2; hi2] => l < r /\ lo1 <= l /\ r <= hi1 /\ lo2 <= l /\ r <= hi2
  | _ => False
  end.

Fixpoint consecutive (start : Z) (rows : list (list Z)) : Prop :=
  match rows with
  | [] => True
  | row :: rest => nth 0 row 0 = start /\ consecutive (nth 1 row 0) rest
  end.

Lemma incr_to_last L : forall l lo, incr_to L lo l -> lo <= L.
Proof. induction l as [|x r IH]; simpl; intros lo H; [lia|]. destruct H as (A & B & C). lia. Qed.

Lemma coiter_spec L : forall fuel right r1 r2 k1 lo1 k2 lo2,
  incr_to L right r1 -> incr_to L right r2 -> lo1 <= right -> lo2 <= right ->
  (length r1 + length r2 <= fuel)%nat ->
  exists rows, coiter_loop fuel L right r1 r2 k1 lo1 k2 lo2 = Ok rows /\
    Forall row_ok rows /\ consecutive right rows /\
    map (fun row => nth 1 row 0) rows = umerge fuel r1 r2.
Proof.
  induction fuel as [|f IH]; intros right r1 r2 k1 lo1 k2 lo2 I1 I2 L1 L2 HF.
  - destruct r1, r2; simpl in HF; try lia. simpl in I1. subst right. simpl. rewrite Z.eqb_refl.
    exists []. repeat split; constructor.
  - destruct r1 as [|a r1'].
    + simpl in I1. subst right. simpl. rewrite Z.eqb_refl.
      destruct r2 as [|b r2']; [|simpl in I2; lia].
      exists []. repeat split; constructor.
    + destruct r2 as [|b r2']; [simpl in I1, I2; lia|].
      simpl in I1, I2, HF. destruct I1 as (A1 & A2 & A3). destruct I2 as (B1 & B2 & B3).
      cbn [coiter_loop]. replace (right =? L) with false by (symmetry; apply Z.eqb_neq; lia).
      cbn [umerge].
      destruct (Z.ltb_spec a b) as [Lt|Ge].
      * (* tree 1 ends first *)
        replace (Z.min a b) with a by lia. rewrite Z.eqb_refl.
        replace (b =? a) with false by (symmetry; apply Z.eqb_neq; lia).
        destruct (IH a r1' (b :: r2') (k1 + 1) a k2 lo2) as (rows & E & F & C & M); [simpl; repeat split; auto; lia ..|].
        rewrite E. cbn [bind]. eexists. split; [reflexivity|].
        split; [constructor; [simpl; lia | exact F]|]. split; [simpl; auto|]. simpl. now rewrite M.
      * destruct (Z.ltb_spec b a) as [Lt|Ge'].
        -- replace (Z.min a b) with b by lia. rewrite Z.eqb_refl.
           replace (a =? b) with false by (symmetry; apply Z.eqb_neq; lia).
           destruct (IH b (a :: r1') r2' k1 lo1 (k2 + 1) b) as (rows & E & F & C & M); [simpl; repeat split; auto; lia ..|].
           rewrite E. cbn [bind]. eexists. split; [reflexivity|].
           split; [constructor; [simpl; lia | exact F]|]. split; [simpl; auto|]. simpl. now rewrite M.
        -- assert (a = b) by lia. subst b. replace (Z.min a a) with a by lia. rewrite Z.eqb_refl.
           destruct (IH a r1' r2' (k1 + 1) a (k2 + 1) a) as (rows & E & F & C & M); [simpl; repeat split; auto; lia ..|].
           rewrite E. cbn [bind]. eexists. split; [reflexivity|].
           split; [constructor; [simpl; lia | exact F]|]. split; [simpl; auto|]. simpl. now rewrite M.
Qed.

Lemma coiterate_partition_lemma L b1 b2 :
  incr_to L 0 b1 -> incr_to L 0 b2 ->
  exists rows, coiterate L (0 :: b1) (0 :: b2) = Ok rows /\
    Forall row_ok rows /\ consecutive 0 rows /\
    map (fun row => nth 1 row 0) rows = umerge (S (S (length b1 + length b2))) b1 b2.
Proof.
  intros I1 I2. unfold coiterate.
  replace (length (0%Z :: b1) + length (0%Z :: b2))%nat with (S (S (length b1 + length b2))) by (simpl; lia).
  cbn [tl hd]. apply coiter_spec; auto; lia.
Qed.
