(* Navigation, generic part: the bookmark loops of tsk_tree_position_* on a list sorted by a
   key ([scan_up], [scan_down]) stop at the *cut* of the list — the number of elements with a
   smaller key — whatever admissible index they start from; the index ranges the tree then walks
   ([range_loop]) are the elements between two cuts; tsk_search_sorted. *)
From Coq Require Import List ZArith Bool Lia Sorting.Sorted.
From TskVerif Require Import Base.Common.
From TskVerif Require Import C01.Model.
From TskVerif Require Import C01.NavModel.
From TskVerif Require Import C01.ArrayLemmas.
From TskVerif Require Import C01.SweepProofs.
From TskVerif Require Import C01.ProjProofs.
From TskVerif Require Import C01.TreeProofs.
From TskVerif Require Import C01.CountProofs.
Import ListNotations.
Open Scope Z_scope.

Lemma get_cons_0 {A} (a : A) r : get (a :: r) 0 = Ok a.
Proof. reflexivity. Qed.

Lemma get_cons_S {A} (a : A) r k : 0 < k -> get (a :: r) k = get r (k - 1).
Proof.
  intros H. unfold get.
  replace (k <? 0) with false by (symmetry; apply Z.ltb_ge; lia).
  replace (k - 1 <? 0) with false by (symmetry; apply Z.ltb_ge; lia).
  replace (Z.to_nat k) with (S (Z.to_nat (k - 1))) by lia. reflexivity.
Qed.

Lemma get_neg {A} (l : list A) k : k < 0 -> get l k = OOB.
Proof. intros H. unfold get. replace (k <? 0) with true by (symmetry; apply Z.ltb_lt; lia). reflexivity. Qed.

Lemma get_range {A} (l : list A) k a : get l k = Ok a -> 0 <= k < zlen l.
Proof. apply get_inv. Qed.

Lemma In_get {A} (l : list A) a : In a l -> exists k, get l k = Ok a.
Proof.
  intros H. apply In_nth_error in H as [n H]. exists (Z.of_nat n). apply get_nth_error. exact H.
Qed.

Lemma sorted_get {A} (key : A -> Z) (l : list A) :
  sorted_by key l -> forall i j a b, i <= j -> get l i = Ok a -> get l j = Ok b -> key a <= key b.
Proof.
  induction l as [|x r IH]; intros S i j a b Hij Ga Gb.
  - apply get_inv in Ga. unfold zlen in Ga; simpl in Ga; lia.
  - apply sorted_by_inv in S as [S1 S2].
    pose proof (get_inv _ _ _ Ga) as Ra. pose proof (get_inv _ _ _ Gb) as Rb.
    destruct (Z.eq_dec i 0) as [->|Ni].
    + rewrite get_cons_0 in Ga. inversion Ga; subst x.
      destruct (Z.eq_dec j 0) as [->|Nj].
      * rewrite get_cons_0 in Gb. inversion Gb; subst. lia.
      * rewrite get_cons_S in Gb by lia. apply S2. eapply get_In; eauto.
    + rewrite get_cons_S in Ga by lia. rewrite get_cons_S in Gb by lia.
      eapply (IH S1 (i - 1) (j - 1)); eauto. lia.
Qed.

(* ---------------------------------------------------------------------------------- *)
(* cuts                                                                                 *)
(* ---------------------------------------------------------------------------------- *)

Definition Cut {A} (key : A -> Z) (l : list A) (x j : Z) : Prop :=
  0 <= j <= zlen l /\
  (forall k a, k < j -> get l k = Ok a -> key a < x) /\
  (forall k a, j <= k -> get l k = Ok a -> x <= key a).

Definition cut {A} (key : A -> Z) (l : list A) (x : Z) : Z :=
  zlen (filter (fun a => key a <? x) l).

Lemma Cut_unique {A} (key : A -> Z) l x j j' : Cut key l x j -> Cut key l x j' -> j = j'.
Proof.
  intros (R1 & A1 & B1) (R2 & A2 & B2).
  destruct (Z.lt_trichotomy j j') as [H|[H|H]]; [|exact H|]; exfalso.
  - destruct (get_ok l j ltac:(lia)) as [a Ga].
    pose proof (A2 j a H Ga). pose proof (B1 j a ltac:(lia) Ga). lia.
  - destruct (get_ok l j' ltac:(lia)) as [a Ga].
    pose proof (A1 j' a H Ga). pose proof (B2 j' a ltac:(lia) Ga). lia.
Qed.

Lemma cut_spec {A} (key : A -> Z) (l : list A) x : sorted_by key l -> Cut key l x (cut key l x).
Proof.
  induction l as [|y r IH]; intros S.
  - unfold Cut, cut, zlen; simpl. split; [lia|]. split; intros k a _ G; apply get_inv in G; unfold zlen in G; simpl in G; lia.
  - apply sorted_by_inv in S as [S1 S2]. specialize (IH S1). destruct IH as (R & A1 & B1).
    unfold cut in *. simpl. destruct (Z.ltb_spec (key y) x) as [Hy|Hy].
    + unfold Cut, zlen in *. simpl length. split; [lia|]. split.
      * intros k a Hk G. pose proof (get_inv _ _ _ G) as Rk.
        destruct (Z.eq_dec k 0) as [->|Nk]; [rewrite get_cons_0 in G; inversion G; subst; exact Hy|].
        rewrite get_cons_S in G by lia. eapply (A1 (k - 1)); eauto. lia.
      * intros k a Hk G. pose proof (get_inv _ _ _ G) as Rk.
        rewrite get_cons_S in G by lia. eapply (B1 (k - 1)); eauto. lia.
    + rewrite filter_all_false.
      2:{ intros z Hz. apply Z.ltb_ge. specialize (S2 z Hz). lia. }
      unfold Cut, zlen; simpl length. split; [lia|]. split; [intros k a Hk G; apply get_inv in G; lia|].
      intros k a Hk G. destruct (Z.eq_dec k 0) as [->|Nk]; [rewrite get_cons_0 in G; inversion G; subst; exact Hy|].
      rewrite get_cons_S in G by lia. apply get_In in G. specialize (S2 a G). lia.
Qed.

Lemma cut_eq {A} (key : A -> Z) (l : list A) x j : sorted_by key l -> Cut key l x j -> j = cut key l x.
Proof. intros S C. eapply Cut_unique; [exact C | apply cut_spec; exact S]. Qed.

Lemma cut_range {A} (key : A -> Z) (l : list A) x : 0 <= cut key l x <= zlen l.
Proof.
  unfold cut, zlen. split; [lia|]. apply inj_le. induction l as [|a r IH]; simpl; [lia|].
  destruct (key a <? x); simpl; lia.
Qed.

Lemma cut_mono {A} (key : A -> Z) (l : list A) x y : x <= y -> cut key l x <= cut key l y.
Proof.
  intros H. unfold cut, zlen. apply inj_le. induction l as [|a r IH]; simpl; [lia|].
  destruct (Z.ltb_spec (key a) x), (Z.ltb_spec (key a) y); simpl; lia.
Qed.

(* no key strictly between x and y: the cuts coincide *)
Lemma cut_between {A} (key : A -> Z) (l : list A) x y :
  x <= y -> (forall a, In a l -> ~ (x <= key a < y)) -> cut key l x = cut key l y.
Proof.
  intros H NB. unfold cut. f_equal. apply filter_ext_in. intros a Ha. specialize (NB a Ha).
  destruct (Z.ltb_spec (key a) x), (Z.ltb_spec (key a) y); try reflexivity; lia.
Qed.

Lemma cut_low {A} (key : A -> Z) (l : list A) x : (forall a, In a l -> x <= key a) -> cut key l x = 0.
Proof.
  intros H. unfold cut. rewrite filter_all_false; [reflexivity|].
  intros a Ha. apply Z.ltb_ge. auto.
Qed.

Lemma cut_high {A} (key : A -> Z) (l : list A) x : (forall a, In a l -> key a < x) -> cut key l x = zlen l.
Proof.
  intros H. unfold cut. rewrite filter_all_true; [reflexivity|].
  intros a Ha. apply Z.ltb_lt. auto.
Qed.

(* ---------------------------------------------------------------------------------- *)
(* the scanning loops                                                                   *)
(* ---------------------------------------------------------------------------------- *)

Lemma scan_up_spec (ord : list iedge) (c : iedge -> bool) : forall fuel j,
  0 <= j <= zlen ord -> (Z.to_nat (zlen ord - j) < fuel)%nat ->
  exists j', scan_up fuel ord (zlen ord) c j = Ok j' /\ j <= j' <= zlen ord /\
    (forall k ie, j <= k < j' -> get ord k = Ok ie -> c ie = true) /\
    (forall ie, get ord j' = Ok ie -> c ie = false).
Proof.
  induction fuel as [|f IH]; intros j Hj Hf; [lia|]. simpl.
  destruct (Z.ltb_spec j (zlen ord)) as [Lt|Ge].
  - destruct (get_ok ord j ltac:(lia)) as [ie G]. rewrite G. cbn [bind].
    destruct (c ie) eqn:C.
    + destruct (IH (j + 1) ltac:(lia) ltac:(lia)) as (j' & E & R & A & B).
      exists j'. split; [exact E|]. split; [lia|]. split; [|exact B].
      intros k ie' Hk G'. destruct (Z.eq_dec k j) as [->|Nk].
      * rewrite G in G'. inversion G'; subst. exact C.
      * apply (A k); [lia | exact G'].
    + exists j. split; [reflexivity|]. split; [lia|]. split; [intros; lia|].
      intros ie' G'. rewrite G in G'. inversion G'; subst. exact C.
  - exists j. split; [reflexivity|]. split; [lia|]. split; [intros; lia|].
    intros ie G. apply get_inv in G. lia.
Qed.

Lemma scan_down_spec (ord : list iedge) (c : iedge -> bool) : forall fuel j,
  -1 <= j < zlen ord -> (Z.to_nat (j + 1) < fuel)%nat ->
  exists j', scan_down fuel ord c j = Ok j' /\ -1 <= j' <= j /\
    (forall k ie, j' < k <= j -> get ord k = Ok ie -> c ie = true) /\
    (forall ie, get ord j' = Ok ie -> c ie = false).
Proof.
  induction fuel as [|f IH]; intros j Hj Hf; [lia|]. simpl.
  destruct (Z.leb_spec 0 j) as [Le|Gt].
  - destruct (get_ok ord j ltac:(lia)) as [ie G]. rewrite G. cbn [bind].
    destruct (c ie) eqn:C.
    + destruct (IH (j - 1) ltac:(lia) ltac:(lia)) as (j' & E & R & A & B).
      exists j'. split; [exact E|]. split; [lia|]. split; [|exact B].
      intros k ie' Hk G'. destruct (Z.eq_dec k j) as [->|Nk].
      * rewrite G in G'. inversion G'; subst. exact C.
      * apply (A k); [lia | exact G'].
    + exists j. split; [reflexivity|]. split; [lia|]. split; [intros; lia|].
      intros ie' G'. rewrite G in G'. inversion G'; subst. exact C.
  - exists j. split; [reflexivity|]. split; [lia|]. split; [intros; lia|].
    intros ie G. apply get_inv in G. lia.
Qed.

(* a scan whose condition is `key < y` from its start on, started at or before the cut at y,
   stops at the cut at y *)
Lemma scan_up_cut (key : iedge -> Z) (ord : list iedge) (c : iedge -> bool) y fuel j :
  sorted_by key ord -> 0 <= j <= cut key ord y ->
  (forall k ie, j <= k -> get ord k = Ok ie -> c ie = (key ie <? y)) ->
  (Z.to_nat (zlen ord - j) < fuel)%nat ->
  scan_up fuel ord (zlen ord) c j = Ok (cut key ord y).
Proof.
  intros S Hj Hc Hf. pose proof (cut_range key ord y) as CR.
  destruct (scan_up_spec ord c fuel j ltac:(lia) Hf) as (j' & E & R & A & B).
  rewrite E. f_equal. apply cut_eq; [exact S|].
  destruct (cut_spec key ord y S) as (_ & C1 & C2).
  split; [lia|]. split.
  - intros k a Hk G. destruct (Z_lt_ge_dec k j) as [Lt|Ge].
    + apply (C1 k); [lia | exact G].
    + pose proof (A k a ltac:(lia) G) as T. rewrite (Hc k a ltac:(lia) G) in T. apply Z.ltb_lt in T. exact T.
  - intros k a Hk G. pose proof (get_inv _ _ _ G) as Rk.
    destruct (get_ok ord j' ltac:(lia)) as [b Gb].
    pose proof (B b Gb) as T. rewrite (Hc j' b ltac:(lia) Gb) in T. apply Z.ltb_ge in T.
    pose proof (sorted_get key ord S j' k b a Hk Gb G). lia.
Qed.

Lemma scan_down_cut (key : iedge -> Z) (ord : list iedge) (c : iedge -> bool) y fuel j :
  sorted_by key ord -> cut key ord y - 1 <= j < zlen ord ->
  (forall k ie, k <= j -> get ord k = Ok ie -> c ie = (y <=? key ie)) ->
  (Z.to_nat (j + 1) < fuel)%nat ->
  scan_down fuel ord c j = Ok (cut key ord y - 1).
Proof.
  intros S Hj Hc Hf. pose proof (cut_range key ord y) as CR.
  destruct (scan_down_spec ord c fuel j ltac:(lia) Hf) as (j' & E & R & A & B).
  rewrite E. f_equal. enough (j' + 1 = cut key ord y) by lia. apply cut_eq; [exact S|].
  destruct (cut_spec key ord y S) as (_ & C1 & C2).
  split; [lia|]. split.
  - intros k a Hk G. pose proof (get_inv _ _ _ G) as Rk.
    destruct (get_ok ord j' ltac:(lia)) as [b Gb].
    pose proof (B b Gb) as T. rewrite (Hc j' b ltac:(lia) Gb) in T. apply Z.leb_gt in T.
    pose proof (sorted_get key ord S k j' a b ltac:(lia) G Gb). lia.
  - intros k a Hk G. destruct (Z_le_gt_dec k j) as [Le|Gt].
    + pose proof (A k a ltac:(lia) G) as T. rewrite (Hc k a Le G) in T. apply Z.leb_le in T. exact T.
    + apply (C2 k); [lia | exact G].
Qed.

(* ---------------------------------------------------------------------------------- *)
(* the elements of an index range, and the tree-level loops as folds over them          *)
(* ---------------------------------------------------------------------------------- *)

Fixpoint foldM {S} (act : S -> iedge -> res S) (t : S) (l : list iedge) : res S :=
  match l with [] => Ok t | ie :: r => do t <- act t ie; foldM act t r end.

Fixpoint range_elems (fuel : nat) (ord : list iedge) (j stop step : Z) : res (list iedge) :=
  match fuel with
  | O%nat => Fuel
  | S f => if j =? stop then Ok [] else
           do ie <- get ord j;
           do r <- range_elems f ord (j + step) stop step;
           Ok (ie :: r)
  end.

Lemma range_loop_fold (act : tree -> iedge -> res tree) (ord : list iedge) step stop : forall fuel j l t,
  range_elems fuel ord j stop step = Ok l -> range_loop fuel act ord t j stop step = foldM act t l.
Proof.
  induction fuel as [|f IH]; intros j l t H; simpl in H; [discriminate|]. simpl.
  destruct (j =? stop); [inversion H; reflexivity|].
  bind_inv H. bind_inv H. inversion H; subst. simpl.
  destruct (act t a); cbn [bind]; auto.
Qed.

Lemma range_elems_up (ord : list iedge) : forall fuel a b,
  0 <= a <= b -> b <= zlen ord -> (Z.to_nat (b - a) < fuel)%nat ->
  exists l, range_elems fuel ord a b 1 = Ok l /\ (forall ie, In ie l <-> exists k, a <= k < b /\ get ord k = Ok ie) /\
    (NoDup ord -> NoDup l).
Proof.
  induction fuel as [|f IH]; intros a b Hab Hb Hf; [lia|]. simpl.
  destruct (Z.eqb_spec a b) as [->|Ne].
  - exists []. split; [reflexivity|]. split; [|constructor].
    intros ie. split; [intros []|intros (k & Hk & _); lia].
  - destruct (get_ok ord a ltac:(lia)) as [ie G]. rewrite G. cbn [bind].
    destruct (IH (a + 1) b ltac:(lia) Hb ltac:(lia)) as (l & E & M & ND).
    rewrite E. cbn [bind]. exists (ie :: l). split; [reflexivity|]. split.
    + intros ie'. split.
      * intros [<-|H]; [exists a; split; [lia | exact G]|]. apply M in H as (k & Hk & Gk). exists k. split; [lia | exact Gk].
      * intros (k & Hk & Gk). destruct (Z.eq_dec k a) as [->|Nk]; [left; congruence|].
        right. apply M. exists k. split; [lia | exact Gk].
    + intros NDo. constructor; [|auto]. intros H. apply M in H as (k & Hk & Gk).
      pose proof (get_inv _ _ _ G) as Ra.
      apply get_nth in G. apply get_nth in Gk.
      pose proof (proj1 (NoDup_nth_error ord) NDo (Z.to_nat a) (Z.to_nat k)) as X.
      assert (Z.to_nat a = Z.to_nat k); [|lia]. apply X; [|congruence].
      apply nth_error_Some. congruence.
Qed.

Lemma range_elems_down (ord : list iedge) : forall fuel a b,
  -1 <= b <= a -> a < zlen ord -> (Z.to_nat (a - b) < fuel)%nat ->
  exists l, range_elems fuel ord a b (-1) = Ok l /\
    (forall ie, In ie l <-> exists k, b < k <= a /\ get ord k = Ok ie) /\
    (NoDup ord -> NoDup l).
Proof.
  induction fuel as [|f IH]; intros a b Hab Ha Hf; [lia|]. simpl.
  destruct (Z.eqb_spec a b) as [->|Ne].
  - exists []. split; [reflexivity|]. split; [|constructor].
    intros ie. split; [intros []|intros (k & Hk & _); lia].
  - destruct (get_ok ord a ltac:(lia)) as [ie G]. rewrite G. cbn [bind].
    destruct (IH (a + -1) b ltac:(lia) ltac:(lia) ltac:(lia)) as (l & E & M & ND).
    rewrite E. cbn [bind]. exists (ie :: l). split; [reflexivity|]. split.
    + intros ie'. split.
      * intros [<-|H]; [exists a; split; [lia | exact G]|]. apply M in H as (k & Hk & Gk). exists k. split; [lia | exact Gk].
      * intros (k & Hk & Gk). destruct (Z.eq_dec k a) as [->|Nk]; [left; congruence|].
        right. apply M. exists k. split; [lia | exact Gk].
    + intros NDo. constructor; [|auto]. intros H. apply M in H as (k & Hk & Gk).
      pose proof (get_inv _ _ _ G) as Ra.
      apply get_nth in G. apply get_nth in Gk.
      pose proof (proj1 (NoDup_nth_error ord) NDo (Z.to_nat a) (Z.to_nat k)) as X.
      assert (Z.to_nat a = Z.to_nat k); [|lia]. apply X; [|congruence].
      apply nth_error_Some. congruence.
Qed.

(* the folds are the batch operations of C01.Model *)
Lemma foldM_remove q o : forall l t, foldM (act_remove q o) t l = remove_edges q o t l.
Proof.
  induction l as [|[i e] r IH]; intros t; simpl; [reflexivity|].
  unfold act_remove at 1. simpl. destruct (remove_edge q o t (eparent e) (echild e)); cbn [bind]; auto.
Qed.

Lemma foldM_insert q o : forall l t, foldM (act_insert q o) t l = insert_edges q o t l.
Proof.
  induction l as [|[i e] r IH]; intros t; simpl; [reflexivity|].
  unfold act_insert at 1. simpl. destruct (insert_edge q o t (eparent e) (echild e) i); cbn [bind]; auto.
Qed.

Lemma foldM_insert_if q o c : forall l t, foldM (act_insert_if q o c) t l = insert_edges q o t (filter c l).
Proof.
  induction l as [|[i e] r IH]; intros t; simpl; [reflexivity|].
  unfold act_insert_if at 1. destruct (c (i, e)); simpl.
  - unfold act_insert. simpl. destruct (insert_edge q o t (eparent e) (echild e) i); cbn [bind]; auto.
  - apply IH.
Qed.

(* ---------------------------------------------------------------------------------- *)
(* tsk_search_sorted on a strictly increasing array                                     *)
(* ---------------------------------------------------------------------------------- *)

Definition incr (a : list Z) : Prop :=
  forall i j x y, i < j -> get a i = Ok x -> get a j = Ok y -> x < y.

Lemma sorted_lt_incr a : Sorted Z.lt a -> incr a.
Proof.
  intros S. apply Sorted_StronglySorted in S; [|intros x y z; lia].
  induction S as [|x r S IH F]; intros i j u v Hij Gi Gj.
  - apply get_inv in Gi. unfold zlen in Gi; simpl in Gi; lia.
  - pose proof (get_inv _ _ _ Gi). pose proof (get_inv _ _ _ Gj).
    rewrite (get_cons_S x r j) in Gj by lia.
    destruct (Z.eq_dec i 0) as [->|Ni].
    + rewrite get_cons_0 in Gi. inversion Gi; subst. rewrite Forall_forall in F. apply F. eapply get_In; eauto.
    + rewrite get_cons_S in Gi by lia. apply (IH (i - 1) (j - 1)); auto. lia.
Qed.

Lemma ss_loop_spec (a : list Z) v : incr a -> forall fuel lower upper,
  0 <= lower < upper -> upper <= zlen a -> (Z.to_nat (upper - lower) <= fuel)%nat ->
  (forall x, get a lower = Ok x -> x <= v) ->
  (forall x, get a upper = Ok x -> v < x) ->
  exists lo, ss_loop (S fuel) a lower upper v = Ok lo /\ lower <= lo /\ lo + 1 <= upper /\
    (forall x, get a lo = Ok x -> x <= v) /\ (forall x, get a (lo + 1) = Ok x -> v < x).
Proof.
  intros Inc. induction fuel as [|f IH]; intros lower upper R U Hf Lo Up.
  - assert (upper = lower + 1) by lia. subst. simpl.
    replace (1 <? lower + 1 - lower) with false by (symmetry; apply Z.ltb_ge; lia).
    exists lower. repeat split; auto; lia.
  - cbn [ss_loop]. destruct (Z.ltb_spec 1 (upper - lower)) as [Gt|Le].
    + set (mid := (upper + lower) / 2).
      assert (lower < mid < upper).
      { unfold mid. pose proof (Z.div_mod (upper + lower) 2 ltac:(lia)).
        pose proof (Z.mod_pos_bound (upper + lower) 2 ltac:(lia)). lia. }
      destruct (get_ok a mid ltac:(lia)) as [am Gm]. rewrite Gm. cbn [bind].
      destruct (Z.leb_spec am v) as [Lm|Lm].
      * destruct (IH mid upper ltac:(lia) U ltac:(lia)) as (lo & E & A1 & A2 & A3 & A4); auto.
        { intros x Gx. rewrite Gm in Gx. inversion Gx; subst. exact Lm. }
        exists lo. split; [exact E|]. repeat split; auto; lia.
      * destruct (IH lower mid ltac:(lia) ltac:(lia) ltac:(lia)) as (lo & E & A1 & A2 & A3 & A4); auto.
        { intros x Gx. rewrite Gm in Gx. inversion Gx; subst. exact Lm. }
        exists lo. split; [exact E|]. repeat split; auto; lia.
    + assert (upper = lower + 1) by lia. subst.
      exists lower. repeat split; auto; lia.
Qed.
