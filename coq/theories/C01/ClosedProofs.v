(* Closed form of the counts: num_samples[u] is the number of samples in the subtree of u
   computed from scratch by naive recursion on the final parent array. *)
From Coq Require Import List ZArith Bool Lia.
From TskVerif Require Import Base.Common.
From TskVerif Require Import C01.Model.
From TskVerif Require Import C01.ArrayLemmas.
From TskVerif Require Import C01.SweepProofs.
From TskVerif Require Import C01.TreeProofs.
From TskVerif Require Import C01.CountProofs.
From TskVerif Require Import C01.QueryProofs.
Import ListNotations.
Open Scope Z_scope.

Lemma csum_ext_nat : forall P A B x,
  length A = length P -> length B = length P ->
  (forall n p, nth_error P n = Some p -> p = x -> nth_error A n = nth_error B n) ->
  csum P A x = csum P B x.
Proof.
  induction P as [|p P IH]; intros A B x LA LB H; destruct A as [|a A]; destruct B as [|b B];
    simpl in *; try lia.
  rewrite (IH A B x) by (try lia; intros n q Hn Hq; exact (H (S n) q Hn Hq)).
  destruct (p =? x) eqn:E; [|reflexivity].
  apply Z.eqb_eq in E. specialize (H O p eq_refl E). simpl in H. inversion H. reflexivity.
Qed.

Lemma zseq0_nth n k : (k < n)%nat -> nth_error (zseq0 n) k = Some (Z.of_nat k).
Proof.
  intros H. unfold zseq0. rewrite nth_error_map.
  rewrite (nth_error_nth' _ O) by (rewrite seq_length; exact H).
  rewrite seq_nth by exact H. reflexivity.
Qed.

Lemma sub_counts_length fuel P smp : length (sub_counts fuel P smp) = length P.
Proof. destruct fuel; simpl; [apply map_length|]. unfold zseq0. rewrite !map_length. apply seq_length. Qed.

Lemma sub_counts_get f P smp u : 0 <= u < zlen P ->
  get (sub_counts (S f) P smp) u = Ok (smp u + csum P (sub_counts f P smp) u).
Proof.
  intros Hu. unfold get. destruct (u <? 0) eqn:E; [apply Z.ltb_lt in E; lia|]. simpl.
  rewrite nth_error_map, zseq0_nth by (unfold zlen in Hu; lia). simpl. now rewrite Z2Nat.id by lia.
Qed.

Section Closed.
  Variables (N : Z) (smp tm : Z -> Z) (P A : list Z).
  Hypothesis LP : length P = Z.to_nat (N + 1).
  Hypothesis LA : length A = Z.to_nat (N + 1).
  Hypothesis HN : 0 <= N.
  Hypothesis MO : Mono N tm P.
  Hypothesis HLE : LE N smp P A.

  Let below (u : Z) : nat := length (filter (fun v => tm v <? tm u) (zseq (Z.to_nat N))).

  Lemma closed_form_fuel : forall fuel u, (below u < fuel)%nat -> 0 <= u < N ->
    get A u = get (sub_counts fuel P smp) u.
  Proof.
    induction fuel as [|f IH]; intros u Hb Hu; [lia|].
    destruct (HLE u Hu) as (a & Ga & Ea). rewrite Ga, sub_counts_get by (unfold zlen; lia).
    f_equal. rewrite Ea. f_equal.
    apply csum_ext_nat; [lia | rewrite sub_counts_length; lia|].
    intros n p Hn Hp. subst p.
    assert (Hd : get P (Z.of_nat n) = Ok u) by (apply get_nth_error; exact Hn).
    assert (NU : u <> NULL) by (unfold NULL; lia).
    destruct (MO _ _ Hd NU) as (Rd & _ & Td).
    assert (Bd : (below (Z.of_nat n) < f)%nat).
    { assert (below (Z.of_nat n) < below u)%nat; [|lia].
      unfold below. apply (filter_length_lt _ _ _ (Z.of_nat n)).
      - intros x _ Hx. apply Z.ltb_lt in Hx. apply Z.ltb_lt. lia.
      - apply In_zseq. lia.
      - apply Z.ltb_irrefl.
      - apply Z.ltb_lt. exact Td. }
    pose proof (IH (Z.of_nat n) Bd Rd) as E. unfold get in E.
    destruct (Z.of_nat n <? 0) eqn:E0; [apply Z.ltb_lt in E0; lia|]. rewrite Nat2Z.id in E.
    destruct (nth_error A n) eqn:E1, (nth_error (sub_counts f P smp) n) eqn:E2; try congruence.
  Qed.

  Lemma closed_form u : 0 <= u < N ->
    get A u = get (sub_counts (S (Z.to_nat N)) P smp) u.
  Proof.
    intros Hu. apply closed_form_fuel; [|exact Hu].
    unfold below. pose proof (filter_length_le (fun v => tm v <? tm u) (fun _ => true) (zseq (Z.to_nat N)) (fun _ _ _ => eq_refl)).
    rewrite (filter_all_true (fun _ => true)) in H by reflexivity.
    unfold zseq in H at 2. rewrite map_length, seq_length in H. lia.
  Qed.
End Closed.
