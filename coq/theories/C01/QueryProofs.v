(* Node queries on a parent array: tsk_tree_get_depth, tsk_tree_is_descendant,
   tsk_tree_get_mrca agree with their definitions on the ancestor path. *)
From Coq Require Import List ZArith Bool Lia Sorting.Sorted.
From TskVerif Require Import Base.Common.
From TskVerif Require Import C01.Model.
From TskVerif Require Import C01.ArrayLemmas.
From TskVerif Require Import C01.ProjProofs.
From TskVerif Require Import C01.TreeProofs.
From TskVerif Require Import C01.CountProofs.
Import ListNotations.
Open Scope Z_scope.

(* [path P u l]: l = u, parent u, parent (parent u), ... up to the node whose parent is NULL;
   the empty list for u = NULL *)
Inductive path (P : list Z) : Z -> list Z -> Prop :=
| path_nil : path P NULL []
| path_cons : forall u p l, u <> NULL -> get P u = Ok p -> path P p l -> path P u (u :: l).

Lemma path_fun P : forall u l, path P u l -> forall l', path P u l' -> l = l'.
Proof.
  induction 1 as [|u p l NU G _ IH]; intros l' H'; inversion H'; subst; try congruence.
  f_equal. apply IH. assert (p = p0) by congruence. now subst.
Qed.

Lemma path_head P u l : path P u l -> u <> NULL -> exists l', l = u :: l'.
Proof. intros H NU. inversion H; subst; [congruence | eauto]. Qed.

(* ---------------- depth ---------------- *)
Lemma depth_loop_spec P : forall fuel v d r,
  depth_loop fuel P v d = Ok r -> exists l, path P v l /\ r = d + zlen l.
Proof.
  induction fuel as [|f IH]; intros v d r H; simpl in H.
  - destruct (v =? NULL) eqn:E; [|discriminate]. apply Z.eqb_eq in E. subst. inversion H; subst.
    exists []. split; [constructor | unfold zlen; simpl; lia].
  - destruct (v =? NULL) eqn:E.
    + apply Z.eqb_eq in E. subst. inversion H; subst.
      exists []. split; [constructor | unfold zlen; simpl; lia].
    + apply Z.eqb_neq in E. bind_inv H. destruct (IH _ _ _ H) as (l & Pl & R).
      exists (v :: l). split; [econstructor; eauto|]. unfold zlen in *. simpl length. lia.
Qed.

(* depth(u) = number of proper ancestors of u; -1 for the virtual root *)
Lemma depth_spec V t u r :
  depth V t u = Ok r ->
  (u = V /\ r = -1) \/
  (u <> V /\ 0 <= u <= V /\ exists p l, get (t_parent t) u = Ok p /\ path (t_parent t) p l /\ r = zlen l).
Proof.
  unfold depth. intros H.
  destruct ((u <? 0) || (V <? u)) eqn:B; [discriminate|].
  apply orb_false_iff in B as [B1 B2]. apply Z.ltb_ge in B1. apply Z.ltb_ge in B2.
  destruct (u =? V) eqn:E.
  - apply Z.eqb_eq in E. inversion H. left; auto.
  - apply Z.eqb_neq in E. right. bind_inv H. destruct (depth_loop_spec _ _ _ _ _ H) as (l & Pl & R).
    split; [exact E|]. split; [lia|]. exists a, l. repeat split; auto; lia.
Qed.

(* ---------------- is_descendant ---------------- *)
Lemma is_desc_loop_spec P v : v <> NULL -> forall w l, path P w l ->
  forall fuel b, is_desc_loop fuel P w v = Ok b -> (b = true <-> In v l).
Proof.
  intros NV. induction 1 as [|w p l NW G Pl IH]; intros fuel b H.
  - assert (EV : (NULL =? v) = false) by (apply Z.eqb_neq; congruence).
    destruct fuel; cbn [is_desc_loop] in H; rewrite EV, Z.eqb_refl in H; cbn in H;
      inversion H; subst; (split; [discriminate | intros []]).
  - destruct (Z.eq_dec w v) as [->|NE].
    + destruct fuel; cbn [is_desc_loop] in H; rewrite Z.eqb_refl in H; cbn in H; inversion H; subst;
        (split; [intros _; left; reflexivity | reflexivity]).
    + assert (E1 : (w =? v) = false) by (apply Z.eqb_neq; exact NE).
      assert (E2 : (w =? NULL) = false) by (apply Z.eqb_neq; exact NW).
      destruct fuel; cbn [is_desc_loop] in H; rewrite E1, E2 in H; cbn [orb] in H; [discriminate|].
      rewrite G in H. cbn [bind] in H. rewrite (IH _ _ H).
      split; [intros X; right; exact X | intros [X|X]; [congruence | exact X]].
Qed.

Lemma is_descendant_spec V t u v b l :
  is_descendant V t u v = Ok b -> 0 <= u <= V -> 0 <= v <= V ->
  path (t_parent t) u l -> (b = true <-> In v l).
Proof.
  unfold is_descendant. intros H Hu Hv Pl.
  replace ((u <? 0) || (V <? u) || (v <? 0) || (V <? v)) with false in H.
  2:{ symmetry. repeat (apply orb_false_iff; split); try (apply Z.ltb_ge; lia). }
  eapply is_desc_loop_spec; eauto. unfold NULL. lia.
Qed.

(* ---------------- mrca ---------------- *)
Section Mrca.
  Variables (q : tseq) (P : list Z).
  Definition tmq (u : Z) : Z := match node_time (q_nodes q) u with Ok t => t | _ => 0 end.

  (* times strictly increase along ancestor paths *)
  Hypothesis Hmono : forall u p, get P u = Ok p -> p <> NULL -> u <> NULL -> tmq u < tmq p.

  Lemma path_times : forall u l, path P u l -> forall a, In a l -> a = u \/ tmq u < tmq a.
  Proof.
    induction 1 as [|u p l NU G Pl IH]; intros a Ha; [destruct Ha|].
    destruct Ha as [<-|Ha]; [left; reflexivity|]. right.
    destruct (Z.eq_dec p NULL) as [->|NP]; [inversion Pl; subst; [destruct Ha | congruence]|].
    destruct (IH a Ha) as [->|Hlt]; [apply Hmono; auto|].
    specialize (Hmono u p G NP NU). lia.
  Qed.

  Lemma mrca_loop_spec : forall fuel u v tu tv lu lv m,
    u <> NULL -> v <> NULL ->
    path P u lu -> path P v lv ->
    node_time (q_nodes q) u = Ok tu -> node_time (q_nodes q) v = Ok tv ->
    mrca_loop fuel q P u v tu tv = Ok m ->
    (m <> NULL -> In m lu /\ In m lv /\ forall a, In a lu -> In a lv -> tmq m <= tmq a) /\
    (m = NULL -> forall a, In a lu -> ~ In a lv).
  Proof.
    induction fuel as [|f IH]; intros u v tu tv lu lv m NU NV Pu Pv Tu Tv H; simpl in H.
    - destruct (u =? v) eqn:E; [|discriminate]. apply Z.eqb_eq in E. subst v. inversion H; subst m.
      rewrite (path_fun _ _ _ Pv _ Pu) in *.
      destruct (path_head _ _ _ Pu NU) as [l' ->].
      split; [|congruence]. intros _. split; [left; reflexivity|]. split; [left; reflexivity|].
      intros a Ha _. destruct (path_times _ _ Pu a Ha) as [->|?]; lia.
    - destruct (u =? v) eqn:E.
      + apply Z.eqb_eq in E. subst v. inversion H; subst m.
        rewrite (path_fun _ _ _ Pv _ Pu) in *.
        destruct (path_head _ _ _ Pu NU) as [l' ->].
        split; [|congruence]. intros _. split; [left; reflexivity|]. split; [left; reflexivity|].
        intros a Ha _. destruct (path_times _ _ Pu a Ha) as [->|?]; lia.
      + apply Z.eqb_neq in E.
        assert (TU : tmq u = tu) by (unfold tmq; now rewrite Tu).
        assert (TV : tmq v = tv) by (unfold tmq; now rewrite Tv).
        destruct (tu <? tv) eqn:C.
        * apply Z.ltb_lt in C.
          (* u is not on v's path *)
          assert (NotIn : ~ In u lv).
          { intros X. destruct (path_times _ _ Pv u X) as [->|?]; [congruence | lia]. }
          inversion Pu as [EQ1 EQ2|u0 p lu' NU0 Gp Pp EQ1 EQ2]; [congruence|]; subst u0 lu.
          rewrite Gp in H. cbn [bind] in H.
          destruct (p =? NULL) eqn:EP.
          -- apply Z.eqb_eq in EP. subst p. inversion H; subst m. inversion Pp; subst; [|congruence].
             split; [congruence|]. intros _ a [<-|[]]. exact NotIn.
          -- apply Z.eqb_neq in EP. bind_inv H.
             destruct (IH p v a tv lu' lv m EP NV Pp Pv E0 Tv H) as [R1 R2]. split.
             ++ intros NM. destruct (R1 NM) as (A & B & Cc). split; [right; exact A|]. split; [exact B|].
                intros a0 [<-|Ha] Hb; [contradiction | auto].
             ++ intros NM a0 [<-|Ha]; [exact NotIn | auto].
        * apply Z.ltb_ge in C.
          assert (NotIn : ~ In v lu).
          { intros X. destruct (path_times _ _ Pu v X) as [->|?]; [congruence | lia]. }
          inversion Pv as [EQ1 EQ2|v0 p lv' NV0 Gp Pp EQ1 EQ2]; [congruence|]; subst v0 lv.
          rewrite Gp in H. cbn [bind] in H.
          destruct (p =? NULL) eqn:EP.
          -- apply Z.eqb_eq in EP. subst p. inversion H; subst m. inversion Pp; subst; [|congruence].
             split; [congruence|]. intros _ a Ha [<-|[]]. exact (NotIn Ha).
          -- apply Z.eqb_neq in EP. bind_inv H.
             destruct (IH u p tu a lu lv' m NU EP Pu Pp Tu E0 H) as [R1 R2]. split.
             ++ intros NM. destruct (R1 NM) as (A & B & Cc). split; [exact A|]. split; [right; exact B|].
                intros a0 Ha [<-|Hb]; [contradiction | auto].
             ++ intros NM a0 Ha [<-|Hb]; [exact (NotIn Ha) | exact (R2 NM a0 Ha Hb)].
  Qed.
End Mrca.

(* ---------------- ancestor paths exist when parents are strictly older ---------------- *)
Lemma filter_length_le {A} (f g : A -> bool) l :
  (forall x, In x l -> f x = true -> g x = true) -> (length (filter f l) <= length (filter g l))%nat.
Proof.
  induction l as [|x r IH]; intros H; simpl; [lia|].
  assert (IH' := IH (fun y Hy => H y (or_intror Hy))).
  destruct (f x) eqn:F.
  - rewrite (H x (or_introl eq_refl) F). simpl. lia.
  - destruct (g x); simpl; lia.
Qed.

Lemma filter_length_lt {A} (f g : A -> bool) l z :
  (forall x, In x l -> f x = true -> g x = true) -> In z l -> f z = false -> g z = true ->
  (length (filter f l) < length (filter g l))%nat.
Proof.
  induction l as [|x r IH]; intros H Hz Fz Gz; [destruct Hz|]. simpl.
  assert (Hr := fun y Hy => H y (or_intror Hy)).
  destruct Hz as [->|Hz].
  - rewrite Fz, Gz. simpl. pose proof (filter_length_le f g r Hr). lia.
  - specialize (IH Hr Hz Fz Gz). destruct (f x) eqn:F.
    + rewrite (H x (or_introl eq_refl) F). simpl. lia.
    + destruct (g x); simpl; lia.
Qed.

Lemma path_exists N tm P :
  zlen P = N + 1 -> Mono N tm P -> forall u, 0 <= u <= N -> exists l, path P u l.
Proof.
  intros ZL MO.
  set (above := fun u => length (filter (fun v => tm u <? tm v) (zseq (Z.to_nat N)))).
  assert (G : forall n u, (above u < n)%nat -> 0 <= u <= N -> exists l, path P u l).
  { induction n as [|n IH]; intros u Hm Hu; [lia|].
    destruct (get_ok P u) as [p Gp]; [lia|].
    destruct (Z.eq_dec p NULL) as [->|NP].
    - exists [u]. econstructor; eauto; [unfold NULL; lia | constructor].
    - destruct (MO u p Gp NP) as (Hu' & Hp & Ht).
      destruct (IH p) as [l Pl]; [|lia|].
      + assert (above p < above u)%nat; [|lia].
        unfold above. apply (filter_length_lt _ _ _ p).
        * intros x _ Hx. apply Z.ltb_lt in Hx. apply Z.ltb_lt. lia.
        * apply In_zseq. lia.
        * apply Z.ltb_irrefl.
        * apply Z.ltb_lt. exact Ht.
      + exists (u :: l). econstructor; eauto. unfold NULL. lia. }
  intros u Hu. apply (G (S (above u))); [lia | exact Hu].
Qed.
