(* The two-cursor sweep ([sweep_loop]): what each iteration consumes, for every pair of
   index lists that are sorted by left / right.  No bound on sizes. *)
From Coq Require Import List ZArith Bool Lia Sorting.Sorted.
From TskVerif Require Import Base.Common.
From TskVerif Require Import C01.Model.
From TskVerif Require Import C01.SpanProofs.
Import ListNotations.
Open Scope Z_scope.

Definition sorted_by {A} (key : A -> Z) (l : list A) : Prop :=
  StronglySorted (fun a b => key a <= key b) l.

Lemma sorted_by_inv {A} (key : A -> Z) x l :
  sorted_by key (x :: l) -> sorted_by key l /\ (forall y, In y l -> key x <= key y).
Proof.
  intros H. apply StronglySorted_inv in H as [H1 H2]. split; [exact H1|].
  intros y Hy. rewrite Forall_forall in H2. auto.
Qed.

Lemma sorted_by_filter {A} (key : A -> Z) f l : sorted_by key l -> sorted_by key (filter f l).
Proof.
  induction l as [|x r IH]; simpl; intros H; [constructor|].
  apply sorted_by_inv in H as [H1 H2]. destruct (f x); [|auto].
  constructor; [apply IH; exact H1|]. apply Forall_forall. intros y Hy. apply filter_In in Hy as [Hy _]. auto.
Qed.

Lemma filter_all_false {A} (f : A -> bool) l : (forall x, In x l -> f x = false) -> filter f l = [].
Proof.
  induction l as [|x r IH]; simpl; intros H; [reflexivity|].
  rewrite (H x) by auto. apply IH. intros; apply H; auto.
Qed.

Lemma filter_all_true {A} (f : A -> bool) l : (forall x, In x l -> f x = true) -> filter f l = l.
Proof.
  induction l as [|x r IH]; simpl; intros H; [reflexivity|].
  rewrite (H x) by auto. f_equal. apply IH. intros; apply H; auto.
Qed.

(* On a list sorted by [key], the cursor loop started at the first element with key >= t
   consumes exactly the elements with key = t. *)
Lemma span_filter_sorted {A} (key : A -> Z) (t : Z) (l : list A) :
  sorted_by key l ->
  span (fun x => key x =? t) (filter (fun x => t <=? key x) l) =
  (filter (fun x => key x =? t) l, filter (fun x => t <? key x) l).
Proof.
  induction l as [|x r IH]; simpl; intros H; [reflexivity|].
  apply sorted_by_inv in H as [H1 H2]. specialize (IH H1).
  destruct (Z.compare_spec (key x) t) as [E|E|E].
  - replace (t <=? key x) with true by (symmetry; apply Z.leb_le; lia).
    replace (key x =? t) with true by (symmetry; apply Z.eqb_eq; lia).
    replace (t <? key x) with false by (symmetry; apply Z.ltb_ge; lia).
    simpl. replace (key x =? t) with true by (symmetry; apply Z.eqb_eq; lia).
    rewrite IH. reflexivity.
  - replace (t <=? key x) with false by (symmetry; apply Z.leb_gt; lia).
    replace (key x =? t) with false by (symmetry; apply Z.eqb_neq; lia).
    replace (t <? key x) with false by (symmetry; apply Z.ltb_ge; lia).
    exact IH.
  - replace (t <=? key x) with true by (symmetry; apply Z.leb_le; lia).
    replace (key x =? t) with false by (symmetry; apply Z.eqb_neq; lia).
    replace (t <? key x) with true by (symmetry; apply Z.ltb_lt; lia).
    simpl. replace (key x =? t) with false by (symmetry; apply Z.eqb_neq; lia).
    rewrite (filter_all_false (fun y => key y =? t) r).
    2:{ intros y Hy. apply Z.eqb_neq. specialize (H2 y Hy). lia. }
    f_equal. f_equal.
    rewrite (filter_all_true (fun y => t <=? key y) r).
    2:{ intros y Hy. apply Z.leb_le. specialize (H2 y Hy). lia. }
    rewrite (filter_all_true (fun y => t <? key y) r); [reflexivity|].
    intros y Hy. apply Z.ltb_lt. specialize (H2 y Hy). lia.
Qed.

Lemma span_length {A} (p : A -> bool) l :
  (length (fst (span p l)) + length (snd (span p l)) = length l)%nat.
Proof. rewrite <- (span_app p l) at 3. now rewrite app_length. Qed.

Lemma span_head_consumed {A} (p : A -> bool) x l :
  p x = true -> (length (snd (span p (x :: l))) < length (x :: l))%nat.
Proof.
  intros H. simpl. rewrite H. pose proof (span_length p l).
  destruct (span p l) as [a b]; simpl in *. lia.
Qed.

(* ------------------------------------------------------------------------------------ *)
(* a complete run of the loop, as a relation (no validity needed)                         *)
(* ------------------------------------------------------------------------------------ *)

Definition loop_cond (L tl : Z) (Ins : list iedge) : bool :=
  negb (match Ins with [] => true | _ => false end) || (tl <? L).

Inductive chain_ok (L : Z) : Z -> list iedge -> list iedge -> list step -> list iedge -> Prop :=
| ch_nil : forall tl Ins Rem, loop_cond L tl Ins = false -> chain_ok L tl Ins Rem [] Rem
| ch_cons : forall tl Ins Rem s rest Oend,
    loop_cond L tl Ins = true ->
    s_left s = tl ->
    span (fun ie => iright ie =? tl) Rem = (s_out s, s_orest s) ->
    span (fun ie => ileft ie =? tl) Ins = (s_in s, s_irest s) ->
    s_right s = next_right L (s_irest s) (s_orest s) ->
    chain_ok L (s_right s) (s_irest s) (s_orest s) rest Oend ->
    chain_ok L tl Ins Rem (s :: rest) Oend.

Lemma sweep_loop_chain L : forall fuel tl Ins Rem steps Oend,
  sweep_loop fuel L tl Ins Rem = Ok (steps, Oend) -> chain_ok L tl Ins Rem steps Oend.
Proof.
  induction fuel as [|f IH]; intros tl Ins Rem steps Oend H; simpl in H; [discriminate|].
  fold (loop_cond L tl Ins) in H.
  destruct (loop_cond L tl Ins) eqn:C.
  - destruct (span (fun ie => iright ie =? tl) Rem) as [out Rem'] eqn:SO.
    destruct (span (fun ie => ileft ie =? tl) Ins) as [inn Ins'] eqn:SI.
    destruct (sweep_loop f L (next_right L Ins' Rem') Ins' Rem') as [[rest Oe]| | |] eqn:R;
      simpl in H; try discriminate.
    inversion H; subst. eapply ch_cons; simpl; eauto.
  - inversion H; subst. constructor; auto.
Qed.

(* the state just before step k *)
Definition pre_state (tl0 : Z) (I0 O0 : list iedge) (steps : list step) (k : nat)
  : Z * list iedge * list iedge :=
  match k with
  | O => (tl0, I0, O0)
  | S k' => match nth_error steps k' with
            | Some p => (s_right p, s_irest p, s_orest p)
            | None => (tl0, I0, O0)
            end
  end.

Lemma chain_nth L : forall tl Ins Rem steps Oend,
  chain_ok L tl Ins Rem steps Oend ->
  forall k s, nth_error steps k = Some s ->
  let '(a, b, c) := pre_state tl Ins Rem steps k in
  s_left s = a /\
  span (fun ie => iright ie =? a) c = (s_out s, s_orest s) /\
  span (fun ie => ileft ie =? a) b = (s_in s, s_irest s) /\
  s_right s = next_right L (s_irest s) (s_orest s).
Proof.
  induction 1 as [|tl Ins Rem s0 rest Oend C HL SO SI HR CH IH]; intros k s Hk.
  - destruct k; discriminate.
  - destruct k as [|k'].
    + simpl in Hk. inversion Hk; subst s0. simpl. auto.
    + simpl in Hk. specialize (IH k' s Hk).
      replace (pre_state tl Ins Rem (s0 :: rest) (S k'))
        with (pre_state (s_right s0) (s_irest s0) (s_orest s0) rest k'); [exact IH|].
      destruct k' as [|k'']; simpl; [reflexivity|].
      destruct (nth_error rest k'') eqn:E; [reflexivity|].
      apply nth_error_None in E. assert (nth_error rest (S k'') <> None) by congruence.
      apply nth_error_Some in H. lia.
Qed.

Lemma last_right_nth : forall steps d k s,
  nth_error steps k = Some s -> S k = length steps -> last_right d steps = s_right s.
Proof.
  induction steps as [|s0 r IH]; intros d k s Hk HL; [destruct k; discriminate|].
  destruct k as [|k'].
  - simpl in Hk. inversion Hk; subst. destruct r; [reflexivity | simpl in HL; lia].
  - simpl in *. eapply IH; eauto.
Qed.

(* breakpoints: bps[k] = left of step k, bps[k+1] = right of step k *)
Lemma chain_left_succ L : forall tl Ins Rem steps Oend,
  chain_ok L tl Ins Rem steps Oend ->
  forall k s s', nth_error steps k = Some s -> nth_error steps (S k) = Some s' ->
  s_left s' = s_right s.
Proof.
  intros tl Ins Rem steps Oend CH k s s' Hk Hk'.
  pose proof (chain_nth L _ _ _ _ _ CH (S k) s' Hk') as P. simpl in P. rewrite Hk in P. tauto.
Qed.

Lemma nth_error_map_app {A B} (f : A -> B) l d k x :
  nth_error l k = Some x -> nth_error (map f l ++ d) k = Some (f x).
Proof.
  intros H. rewrite nth_error_app1.
  - now rewrite nth_error_map, H.
  - rewrite map_length. apply nth_error_Some. congruence.
Qed.

Lemma get_nth_error {A} (l : list A) (k : nat) x :
  nth_error l k = Some x -> get l (Z.of_nat k) = Ok x.
Proof.
  intros H. unfold get. destruct (Z.of_nat k <? 0) eqn:E; [apply Z.ltb_lt in E; lia|].
  now rewrite Nat2Z.id, H.
Qed.

Lemma bps_get L : forall tl Ins Rem steps Oend,
  chain_ok L tl Ins Rem steps Oend ->
  forall k s, nth_error steps k = Some s ->
  get (breakpoints_of L steps) (Z.of_nat k) = Ok (s_left s) /\
  get (breakpoints_of L steps) (Z.of_nat k + 1) = Ok (s_right s).
Proof.
  intros tl Ins Rem steps Oend CH k s Hk. unfold breakpoints_of. split.
  - apply get_nth_error. now apply nth_error_map_app.
  - replace (Z.of_nat k + 1) with (Z.of_nat (S k)) by lia. apply get_nth_error.
    destruct (nth_error steps (S k)) as [s'|] eqn:E.
    + rewrite (nth_error_map_app s_left steps _ (S k) s' E). f_equal.
      eapply chain_left_succ; eauto.
    + apply nth_error_None in E.
      assert (HL : S k = length steps).
      { assert (nth_error steps k <> None) by congruence. apply nth_error_Some in H. lia. }
      rewrite nth_error_app2 by (rewrite map_length; lia).
      rewrite map_length, <- HL, Nat.sub_diag. simpl. f_equal.
      eapply last_right_nth; eauto.
Qed.

(* ------------------------------------------------------------------------------------ *)
(* semantics of the run on sorted index lists                                             *)
(* ------------------------------------------------------------------------------------ *)

Section Sorted.
  Variables (L : Z) (IE OE : list iedge).
  Hypothesis HsI : sorted_by ileft IE.
  Hypothesis HsO : sorted_by iright OE.
  Hypothesis HbI : forall ie, In ie IE -> 0 <= ileft ie < L.
  Hypothesis HbO : forall ie, In ie OE -> 0 < iright ie <= L.

  Definition Ifrom (t : Z) := filter (fun ie => t <=? ileft ie) IE.
  Definition Ofrom (t : Z) := filter (fun ie => t <=? iright ie) OE.

  Definition sem_step (s : step) : Prop :=
    s_out s = filter (fun ie => iright ie =? s_left s) OE /\
    s_in s = filter (fun ie => ileft ie =? s_left s) IE /\
    s_irest s = Ifrom (s_right s) /\
    s_orest s = Ofrom (s_right s) /\
    0 <= s_left s < s_right s /\ s_right s <= L /\
    (forall ie, In ie IE -> ileft ie <= s_left s \/ s_right s <= ileft ie) /\
    (forall ie, In ie OE -> iright ie <= s_left s \/ s_right s <= iright ie).

  Definition started (tl : Z) (Ins Rem : list iedge) : Prop :=
    tl = L \/ (exists ie r, Ins = ie :: r /\ ileft ie = tl) \/ (exists ie r, Rem = ie :: r /\ iright ie = tl).

  Lemma next_right_props tl :
    tl < L ->
    let Ins' := filter (fun ie => tl <? ileft ie) IE in
    let Rem' := filter (fun ie => tl <? iright ie) OE in
    let tr := next_right L Ins' Rem' in
    tl < tr /\ tr <= L /\
    (forall ie, In ie Ins' -> tr <= ileft ie) /\
    (forall ie, In ie Rem' -> tr <= iright ie) /\
    started tr Ins' Rem'.
  Proof.
    intros Htl Ins' Rem' tr.
    assert (SI : sorted_by ileft Ins') by (apply sorted_by_filter; exact HsI).
    assert (SO : sorted_by iright Rem') by (apply sorted_by_filter; exact HsO).
    assert (GI : forall ie, In ie Ins' -> tl < ileft ie).
    { intros ie H. apply filter_In in H as [_ H]. now apply Z.ltb_lt in H. }
    assert (GO : forall ie, In ie Rem' -> tl < iright ie).
    { intros ie H. apply filter_In in H as [_ H]. now apply Z.ltb_lt in H. }
    subst tr. unfold next_right, started.
    destruct Ins' as [|i0 ri] eqn:EI; destruct Rem' as [|o0 ro] eqn:EO.
    - split; [lia|]. split; [lia|]. split; [intros ? []|]. split; [intros ? []|]. left; reflexivity.
    - apply sorted_by_inv in SO as [_ SO].
      assert (tl < iright o0) by (apply GO; left; reflexivity).
      split; [lia|]. split; [lia|]. split; [intros ? []|]. split.
      + intros ie [<-|H']; [lia|]. specialize (SO _ H'). lia.
      + destruct (Z.min_spec L (iright o0)) as [[? ->]|[? ->]]; [left; reflexivity|].
        right; right. exists o0, ro. split; reflexivity.
    - apply sorted_by_inv in SI as [_ SI].
      assert (tl < ileft i0) by (apply GI; left; reflexivity).
      split; [lia|]. split; [lia|]. split; [|split; [intros ? []|]].
      + intros ie [<-|H']; [lia|]. specialize (SI _ H'). lia.
      + destruct (Z.min_spec L (ileft i0)) as [[? ->]|[? ->]]; [left; reflexivity|].
        right; left. exists i0, ri. split; reflexivity.
    - apply sorted_by_inv in SI as [_ SI]. apply sorted_by_inv in SO as [_ SO].
      assert (tl < ileft i0) by (apply GI; left; reflexivity).
      assert (tl < iright o0) by (apply GO; left; reflexivity).
      split; [lia|]. split; [lia|]. split; [|split].
      + intros ie [<-|H']; [lia|]. specialize (SI _ H'). lia.
      + intros ie [<-|H']; [lia|]. specialize (SO _ H'). lia.
      + destruct (Z.min_spec (Z.min L (ileft i0)) (iright o0)) as [[? ->]|[? ->]].
        * destruct (Z.min_spec L (ileft i0)) as [[? ->]|[? ->]]; [left; reflexivity|].
          right; left. exists i0, ri. split; reflexivity.
        * right; right. exists o0, ro. split; reflexivity.
  Qed.

  Lemma cond_true_lt tl : loop_cond L tl (Ifrom tl) = true -> tl < L.
  Proof.
    unfold loop_cond. intros H. apply orb_true_iff in H as [H|H]; [|now apply Z.ltb_lt].
    destruct (Ifrom tl) as [|ie r] eqn:E; [discriminate|].
    assert (Hin : In ie (Ifrom tl)) by (rewrite E; left; reflexivity).
    apply filter_In in Hin as [Hin Hle]. apply Z.leb_le in Hle. specialize (HbI _ Hin). lia.
  Qed.

  Lemma Ifrom_next tl tr :
    tl < tr ->
    (forall ie, In ie (filter (fun ie => tl <? ileft ie) IE) -> tr <= ileft ie) ->
    filter (fun ie => tl <? ileft ie) IE = Ifrom tr.
  Proof.
    intros Hlt H. unfold Ifrom. apply filter_ext_in. intros ie Hin.
    destruct (tl <? ileft ie) eqn:E.
    - symmetry. apply Z.leb_le. apply H. apply filter_In. auto.
    - symmetry. apply Z.leb_gt. apply Z.ltb_ge in E. lia.
  Qed.

  Lemma Ofrom_next tl tr :
    tl < tr ->
    (forall ie, In ie (filter (fun ie => tl <? iright ie) OE) -> tr <= iright ie) ->
    filter (fun ie => tl <? iright ie) OE = Ofrom tr.
  Proof.
    intros Hlt H. unfold Ofrom. apply filter_ext_in. intros ie Hin.
    destruct (tl <? iright ie) eqn:E.
    - symmetry. apply Z.leb_le. apply H. apply filter_In. auto.
    - symmetry. apply Z.leb_gt. apply Z.ltb_ge in E. lia.
  Qed.

  (* one iteration from the canonical state at tl *)
  Lemma step_sem tl s :
    0 <= tl -> loop_cond L tl (Ifrom tl) = true ->
    s_left s = tl ->
    span (fun ie => iright ie =? tl) (Ofrom tl) = (s_out s, s_orest s) ->
    span (fun ie => ileft ie =? tl) (Ifrom tl) = (s_in s, s_irest s) ->
    s_right s = next_right L (s_irest s) (s_orest s) ->
    sem_step s /\ started (s_right s) (s_irest s) (s_orest s).
  Proof.
    intros H0 C HL SO SI HR.
    pose proof (cond_true_lt tl C) as Hlt.
    unfold Ofrom in SO. rewrite (span_filter_sorted iright tl OE HsO) in SO.
    unfold Ifrom in SI. rewrite (span_filter_sorted ileft tl IE HsI) in SI.
    inversion SO as [[SO1 SO2]]. inversion SI as [[SI1 SI2]].
    destruct (next_right_props tl Hlt) as (P1 & P2 & P3 & P4 & P5).
    rewrite SI2, SO2, <- HR in *.
    unfold sem_step. rewrite HL.
    repeat split; auto; try lia.
    - rewrite <- SI2. apply Ifrom_next; [exact P1 | rewrite SI2; exact P3].
    - rewrite <- SO2. apply Ofrom_next; [exact P1 | rewrite SO2; exact P4].
    - intros ie Hin. destruct (Z_le_gt_dec (ileft ie) tl); [left; lia|right].
      apply P3. rewrite <- SI2. apply filter_In. split; [auto | apply Z.ltb_lt; lia].
    - intros ie Hin. destruct (Z_le_gt_dec (iright ie) tl); [left; lia|right].
      apply P4. rewrite <- SO2. apply filter_In. split; [auto | apply Z.ltb_lt; lia].
  Qed.

  Definition bps_from (tl : Z) (steps : list step) : list Z :=
    map s_left steps ++ [last_right tl steps].

  Lemma chain_sem : forall tl Ins Rem steps Oend,
    chain_ok L tl Ins Rem steps Oend ->
    Ins = Ifrom tl -> Rem = Ofrom tl -> 0 <= tl <= L ->
    Forall sem_step steps /\
    last_right tl steps = L /\
    Oend = Ofrom L /\
    Sorted Z.lt (bps_from tl steps) /\
    hd 0 (bps_from tl steps) = tl /\
    (forall x, In x (bps_from tl steps) <->
       x = tl \/ x = L \/ (exists ie, In ie IE /\ tl <= ileft ie /\ x = ileft ie)
                      \/ (exists ie, In ie OE /\ tl <= iright ie /\ x = iright ie)).
  Proof.
    induction 1 as [tl Ins Rem C|tl Ins Rem s rest Oend C HL SO SI HR CH IH]; intros EI EO Hb.
    - subst Ins. unfold loop_cond in C. apply orb_false_iff in C as [C1 C2].
      apply Z.ltb_ge in C2. assert (tl = L) by lia. subst tl.
      destruct (Ifrom L) as [|? ?] eqn:EIf; [|discriminate].
      unfold bps_from; simpl. repeat split; auto.
      + intros [<-|[]]. auto.
      + intros [->|[->|[(ie & Hin & Hle & ->)|(ie & Hin & Hle & ->)]]]; auto.
        * exfalso. assert (In ie (Ifrom L)) by (apply filter_In; split; [auto|apply Z.leb_le; lia]).
          rewrite EIf in H. destruct H.
        * left. specialize (HbO _ Hin). lia.
    - subst Ins Rem.
      destruct (step_sem tl s (proj1 Hb) C HL SO SI HR) as [SEM ST].
      pose proof SEM as (_ & _ & E3 & E4 & B1 & B2 & N1 & N2).
      rewrite HL in *.
      destruct (IH E3 E4 ltac:(lia)) as (F & LR & OEq & SRT & HD & MEM).
      assert (BC : bps_from tl (s :: rest) = tl :: bps_from (s_right s) rest).
      { unfold bps_from. simpl. now rewrite HL. }
      rewrite BC. repeat split; auto.
      + constructor; [exact SRT|].
        destruct (bps_from (s_right s) rest) as [|b r] eqn:EB; constructor.
        simpl in HD. subst b. lia.
      + intros [<-|Hin]; [auto|].
        apply MEM in Hin as [->|[->|[(ie & Hin & Hle & ->)|(ie & Hin & Hle & ->)]]]; auto.
        * destruct ST as [ST|[(ie & r & E & El)|(ie & r & E & El)]]; [rewrite ST; auto| |].
          -- right; right; left. exists ie.
             assert (In ie (Ifrom (s_right s))) by (rewrite <- E3, E; left; reflexivity).
             apply filter_In in H as [H _]. repeat split; auto. lia.
          -- right; right; right. exists ie.
             assert (In ie (Ofrom (s_right s))) by (rewrite <- E4, E; left; reflexivity).
             apply filter_In in H as [H _]. repeat split; auto. lia.
        * right; right; left. exists ie. repeat split; auto. lia.
        * right; right; right. exists ie. repeat split; auto. lia.
      + intros [->|[->|[(ie & Hin & Hle & ->)|(ie & Hin & Hle & ->)]]].
        * left; reflexivity.
        * right. apply MEM. auto.
        * destruct (N1 _ Hin) as [?|?]; [left; lia|]. right. apply MEM.
          right; right; left. exists ie. auto.
        * destruct (N2 _ Hin) as [?|?]; [left; lia|]. right. apply MEM.
          right; right; right. exists ie. auto.
  Qed.

  (* the fuel of [sweep] is sufficient *)
  Lemma sweep_loop_total : forall fuel tl,
    0 <= tl <= L ->
    (started tl (Ifrom tl) (Ofrom tl) /\ (length (Ifrom tl) + length (Ofrom tl) < fuel)%nat) \/
    (length (Ifrom tl) + length (Ofrom tl) + 1 < fuel)%nat ->
    exists r, sweep_loop fuel L tl (Ifrom tl) (Ofrom tl) = Ok r.
  Proof.
    induction fuel as [|f IH]; intros tl Hb Hm; [lia|]. cbn [sweep_loop].
    fold (loop_cond L tl (Ifrom tl)).
    destruct (loop_cond L tl (Ifrom tl)) eqn:C; [|eauto].
    pose proof (cond_true_lt tl C) as Hlt.
    pose proof (span_filter_sorted iright tl OE HsO) as EO. fold (Ofrom tl) in EO.
    pose proof (span_filter_sorted ileft tl IE HsI) as EI. fold (Ifrom tl) in EI.
    rewrite EO, EI.
    destruct (next_right_props tl Hlt) as (P1 & P2 & P3 & P4 & P5).
    set (tr := next_right L (filter (fun ie => tl <? ileft ie) IE) (filter (fun ie => tl <? iright ie) OE)) in *.
    rewrite (Ifrom_next tl tr P1 P3) in *. rewrite (Ofrom_next tl tr P1 P4) in *.
    destruct (IH tr ltac:(lia)) as [[r1 r2] E].
    2:{ rewrite E. simpl. eauto. }
    left. split; [exact P5|].
    (* the new suffixes are sub-lists of the old ones *)
    assert (LI : (length (Ifrom tr) <= length (Ifrom tl))%nat).
    { pose proof (span_length (fun ie => ileft ie =? tl) (Ifrom tl)) as SL.
      rewrite EI in SL. simpl in SL. lia. }
    assert (LO : (length (Ofrom tr) <= length (Ofrom tl))%nat).
    { pose proof (span_length (fun ie => iright ie =? tl) (Ofrom tl)) as SL.
      rewrite EO in SL. simpl in SL. lia. }
    destruct Hm as [[ST Hm]|Hm]; [|lia].
    destruct ST as [->|[(ie & r & E & El)|(ie & r & E & El)]]; [lia| |].
    - pose proof (span_head_consumed (fun ie => ileft ie =? tl) ie r ltac:(apply Z.eqb_eq; exact El)) as SH.
      rewrite <- E, EI in SH. simpl in SH. lia.
    - pose proof (span_head_consumed (fun ie => iright ie =? tl) ie r ltac:(apply Z.eqb_eq; exact El)) as SH.
      rewrite <- E, EO in SH. simpl in SH. lia.
  Qed.

  Lemma Ifrom_0 : Ifrom 0 = IE.
  Proof. apply filter_all_true. intros ie H. apply Z.leb_le. specialize (HbI _ H). lia. Qed.
  Lemma Ofrom_0 : Ofrom 0 = OE.
  Proof. apply filter_all_true. intros ie H. apply Z.leb_le. specialize (HbO _ H). lia. Qed.

  Lemma sweep_total : 0 < L -> exists steps Oend, sweep L IE OE = Ok (steps, Oend).
  Proof.
    intros HL. unfold sweep, sweep_fuel.
    destruct (sweep_loop_total (length IE + length OE + 2) 0 ltac:(lia)) as [[st oe] E].
    - right. rewrite Ifrom_0, Ofrom_0. lia.
    - rewrite Ifrom_0, Ofrom_0 in E. eauto.
  Qed.

  Lemma sweep_sem steps Oend : 0 < L -> sweep L IE OE = Ok (steps, Oend) ->
    chain_ok L 0 IE OE steps Oend /\
    Forall sem_step steps /\
    steps <> [] /\
    Oend = Ofrom L /\
    Sorted Z.lt (breakpoints_of L steps) /\
    hd 0 (breakpoints_of L steps) = 0 /\
    last (breakpoints_of L steps) 0 = L /\
    (forall x, In x (breakpoints_of L steps) <->
       x = 0 \/ x = L \/ (exists ie, In ie IE /\ x = ileft ie) \/ (exists ie, In ie OE /\ x = iright ie)).
  Proof.
    intros HL H. apply sweep_loop_chain in H.
    pose proof (chain_sem 0 IE OE steps Oend H (eq_sym Ifrom_0) (eq_sym Ofrom_0) ltac:(lia))
      as (F & LR & OEq & SRT & HD & MEM).
    assert (NE : steps <> []).
    { intros ->. inversion H; subst. unfold loop_cond in H0.
      apply orb_false_iff in H0 as [_ H0]. apply Z.ltb_ge in H0. lia. }
    assert (BE : breakpoints_of L steps = bps_from 0 steps).
    { unfold breakpoints_of, bps_from. f_equal. f_equal.
      destruct steps; [congruence|reflexivity]. }
    rewrite BE. repeat split; auto.
    - unfold bps_from. rewrite last_last. exact LR.
    - intros Hx. apply MEM in Hx as [->|[->|[(ie & Hin & _ & ->)|(ie & Hin & _ & ->)]]]; eauto 6.
    - intros [->|[->|[(ie & Hin & ->)|(ie & Hin & ->)]]]; apply MEM; auto.
      + right; right; left. exists ie. specialize (HbI _ Hin). repeat split; auto; lia.
      + right; right; right. exists ie. specialize (HbO _ Hin). repeat split; auto; lia.
  Qed.
End Sorted.
