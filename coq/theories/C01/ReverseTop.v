(* Reverse edge diffs: replay theorem, assembled from the mirrored forward theory. *)
From Coq Require Import List ZArith Bool Lia Sorting.Sorted Permutation.
From TskVerif Require Import Base.Common.
From TskVerif Require Import C01.Model.
From TskVerif Require Import C01.ArrayLemmas.
From TskVerif Require Import C01.SweepProofs.
From TskVerif Require Import C01.ProjProofs.
From TskVerif Require Import C01.TreeProofs.
From TskVerif Require Import C01.ReverseProofs.
From TskVerif Require Import C01.Theorems.
Import ListNotations.
Open Scope Z_scope.

Lemma edge_diffs_reverse_replay_lemma L ns es Ins Rem q :
  valid_edgesb L ns es = true -> index_sorted es Ins Rem -> mk_tseq L ns es Ins Rem = Ok q ->
  exists steps Ps,
    edge_diffs_reverse L (q_I q) (q_O q) false = Ok (map (rdiff L) steps) /\
    (forall s, In s steps ->
       s_left s < s_right s /\
       map fst (s_out s) = map fst (filter (fun ie => ileft ie =? L - s_left s) (rev (q_I q))) /\
       map fst (s_in s) = map fst (filter (fun ie => iright ie =? L - s_left s) (rev (q_O q)))) /\
    par_steps (repeat NULL (Z.to_nat (zlen ns + 1))) steps = Ok Ps /\
    Forall2 (fun s P => forall x, L - s_right s <= x < L - s_left s ->
               forall u, 0 <= u < zlen ns -> get P u = Ok (parent_at es x u)) steps Ps.
Proof.
  intros HVb HI HQ.
  destruct (mk_tseq_inv L ns es Ins Rem q HQ) as (st0 & oe0 & RI & RO & _).
  destruct (index_sorted_mirror L es Ins Rem (q_I q) (q_O q) HI RI RO) as (HIm & R1 & R2).
  pose proof (valid_mirror L ns es HVb) as HVm.
  destruct (mk_tseq_total L ns (map (mirror_e L) es) (rev Rem) (rev Ins) (valid_edgesb_spec _ _ _ HVm) HIm) as [qm HQm].
  destruct (mk_tseq_inv L ns _ _ _ qm HQm) as (st1 & oe1 & RI' & RO' & _).
  assert (EI : q_I qm = map (mirror L) (rev (q_O q))) by congruence.
  assert (EO : q_O qm = map (mirror L) (rev (q_I q))) by congruence.
  destruct (tseq_facts L ns _ _ _ qm HVm HIm HQm) as (steps & Oend & SW & CH & F & _).
  pose proof (valid_edgesb_spec _ _ _ HVm) as HVmp.
  destruct (par_steps_total L ns _ _ _ qm HVmp HIm HQm 0 _ _ steps Oend CH F
              (repeat NULL (Z.to_nat (zlen ns + 1)))) as (Ps & EP & FA).
  { apply ParentProofs.pre_init; [apply (Hok' L ns _ HVmp)|]. unfold zlen. lia. }
  exists steps, Ps. split; [|split; [|split; [exact EP|]]].
  - unfold edge_diffs_reverse.
    unfold sweep in SW. rewrite EI, EO in SW.
    replace (sweep_fuel (map (mirror L) (rev (q_O q))) (map (mirror L) (rev (q_I q))))
      with (sweep_fuel (q_I q) (q_O q)) in SW
      by (unfold sweep_fuel; rewrite !map_length, !rev_length; lia).
    replace 0 with (L - L) in SW by lia.
    destruct (sweep_mirror_back L _ L _ _ _ _ SW) as (Kend & ER & _).
    rewrite ER. reflexivity.
  - intros s Hs. rewrite Forall_forall in F. destruct (F s Hs) as (SO & SI & _ & _ & B1 & _).
    split; [lia|]. rewrite SO, SI, EO, EI. rewrite !filter_map_comm, !map_map. simpl.
    split; (f_equal; apply filter_ext; intros ie; unfold iright, ileft, mirror; simpl;
            match goal with |- (?a =? ?b) = (?c =? ?d) => destruct (Z.eqb_spec a b), (Z.eqb_spec c d); try reflexivity; lia end).
  - clear -FA. induction FA as [|s P ss Ps' HsP FA' IH]; constructor; auto.
    intros x Hx u Hu. destruct (HsP (L - 1 - x) ltac:(lia)) as [_ G].
    rewrite (G u Hu). rewrite parent_at_mirror. f_equal. f_equal. lia.
Qed.

From TskVerif Require Import C01.SitesProofs.

Lemma tree_sites_exact_lemma L ns es Ins Rem q :
  valid_edgesb L ns es = true -> index_sorted es Ins Rem -> mk_tseq L ns es Ins Rem = Ok q ->
  forall positions muts nem steps Oend ids mes,
  sorted_by spos (enum_from 0 positions) -> (forall p, In p positions -> 0 <= p) ->
  sweep L (q_I q) (q_O q) = Ok (steps, Oend) ->
  init_trees_sites steps nem (enum_from 0 positions) muts = Ok (ids, mes) ->
  Forall2 (fun s l => l = map fst (filter (in_tree s) (enum_from 0 positions))) steps ids /\
  (forall k s, nth_error steps k = Some s ->
     get (q_bps q) (Z.of_nat k) = Ok (s_left s) /\ get (q_bps q) (Z.of_nat k + 1) = Ok (s_right s)).
Proof.
  intros HVb HI HQ positions muts nem steps Oend ids mes HS HP SW H.
  destruct (tseq_facts L ns es Ins Rem q HVb HI HQ) as (steps' & Oend' & SW' & CH & F & _ & _ & EB & _).
  rewrite SW in SW'. inversion SW'; subst steps' Oend'. split.
  - eapply (init_trees_sites_spec L (q_I q) (q_O q) (enum_from 0 positions) HS 0); eauto.
    rewrite filter_all_true; [exact H|].
    intros [i p] Hin. apply Z.leb_le. unfold spos. simpl. apply HP.
    clear -Hin. revert Hin. generalize 0. induction positions as [|x r IH]; intros z Hin; simpl in Hin; [destruct Hin|].
    destruct Hin as [X|X]; [inversion X; left; reflexivity | right; eapply IH; eauto].
  - intros k s Hk. rewrite EB. eapply bps_get; eauto.
Qed.

From TskVerif Require Import C01.ParentProofs.
From TskVerif Require Import C01.EdgeProofs.
From TskVerif Require Import C01.MutEdgeProofs.

Lemma mutation_edge_exact_lemma L ns es Ins Rem q :
  valid_edgesb L ns es = true -> index_sorted es Ins Rem -> mk_tseq L ns es Ins Rem = Ok q ->
  forall positions muts steps Oend ids mes,
  sorted_by spos (enum_from 0 positions) -> (forall p, In p positions -> 0 <= p) ->
  (forall m, In m muts -> 0 <= snd m < zlen ns) ->
  sweep L (q_I q) (q_O q) = Ok (steps, Oend) ->
  init_trees_sites steps (repeat NULL (length ns)) (enum_from 0 positions) muts = Ok (ids, mes) ->
  exists consumed rest, muts = consumed ++ rest /\
    Forall2 (fun m e => exists pos, In (fst m, pos) (enum_from 0 positions) /\
                                    e = parent_at (es_id es) pos (snd m)) consumed mes.
Proof.
  intros HVb HI HQ positions muts steps Oend ids mes HS HP MR SW H.
  pose proof (valid_edgesb_spec _ _ _ HVb) as HV.
  destruct (tseq_facts L ns es Ins Rem q HVb HI HQ) as (steps' & Oend' & SW' & CH & F & _).
  rewrite SW in SW'. inversion SW'; subst steps' Oend'.
  replace (length ns) with (Z.to_nat (zlen ns)) in H by (unfold zlen; lia).
  eapply (init_trees_muts_spec L ns es Ins Rem q HV HI HQ (enum_from 0 positions) HS 0); eauto.
  - apply pre_init_n; [apply (Hok_id L ns es HV)|]. unfold zlen. lia.
  - rewrite filter_all_true; [exact H|].
    intros [i p] Hin. apply Z.leb_le. unfold spos. simpl. apply HP.
    clear -Hin. revert Hin. generalize 0. induction positions as [|x r IH]; intros z Hin; simpl in Hin; [destruct Hin|].
    destruct Hin as [X|X]; [inversion X; left; reflexivity | right; eapply IH; eauto].
Qed.

From TskVerif Require Import C01.TotalProofs.

Lemma full_model_total_lemma L ns es Ins Rem q :
  valid_edgesb L ns es = true -> index_sorted es Ins Rem -> mk_tseq L ns es Ins Rem = Ok q ->
  forall o, o_lists o = false -> (forall s, In s (o_tracked o) -> 0 <= s < zlen ns) ->
  forall k, Z.of_nat k < q_ntrees q ->
  exists t l r,
    tree_at_index q o k = Ok t /\
    get (q_bps q) (Z.of_nat k) = Ok l /\ get (q_bps q) (Z.of_nat k + 1) = Ok r /\
    p_index (t_pos t) = Z.of_nat k /\ p_left (t_pos t) = l /\ p_right (t_pos t) = r /\ l < r /\
    forall x, l <= x < r -> forall u, 0 <= u < zlen ns ->
      get (t_parent t) u = Ok (parent_at es x u).
Proof.
  intros HVb HI HQ o HL HT k Hk.
  destruct (tree_at_index_total L ns es Ins Rem q (valid_edgesb_spec _ _ _ HVb) HI HQ o HL HT k Hk) as [t E].
  destruct (sweep_parent_exact_lemma L ns es Ins Rem q HVb HI HQ o k t E) as (l & r & A).
  exists t, l, r. split; [exact E | exact A].
Qed.

Lemma enum_from_SS {A} : forall (l : list A) i, StronglySorted (fun a b : Z * A => fst a < fst b) (enum_from i l).
Proof.
  induction l as [|x r IH]; intros i; simpl; constructor; [apply IH|].
  apply Forall_forall. intros [j a] Hj. apply enum_from_In in Hj as [Hj _]. simpl. lia.
Qed.

Lemma mutation_edge_all_lemma L ns es Ins Rem q :
  valid_edgesb L ns es = true -> index_sorted es Ins Rem -> mk_tseq L ns es Ins Rem = Ok q ->
  forall positions muts steps Oend ids mes,
  sorted_by spos (enum_from 0 positions) -> (forall p, In p positions -> 0 <= p < L) ->
  sorted_by msite muts ->
  (forall m, In m muts -> 0 <= fst m < zlen positions /\ 0 <= snd m < zlen ns) ->
  sweep L (q_I q) (q_O q) = Ok (steps, Oend) ->
  init_trees_sites steps (repeat NULL (length ns)) (enum_from 0 positions) muts = Ok (ids, mes) ->
  Forall2 (fun m e => exists pos, get positions (fst m) = Ok pos /\ e = parent_at (es_id es) pos (snd m)) muts mes.
Proof.
  intros HVb HI HQ positions muts steps Oend ids mes HS HP SM MR SW H.
  pose proof (valid_edgesb_spec _ _ _ HVb) as HV.
  destruct (tseq_facts L ns es Ins Rem q HVb HI HQ) as (steps' & Oend' & SW' & CH & F & _).
  rewrite SW in SW'. inversion SW'; subst steps' Oend'.
  replace (length ns) with (Z.to_nat (zlen ns)) in H by (unfold zlen; lia).
  assert (PosIn : forall i p, In (i, p) (enum_from 0 positions) -> In p positions).
  { intros i p Hin. apply get_enum in Hin. eapply get_In; eauto. }
  assert (FA : filter (fun ip => 0 <=? spos ip) (enum_from 0 positions) = enum_from 0 positions).
  { apply filter_all_true. intros [i p] Hin. apply Z.leb_le. unfold spos. simpl. destruct (HP p (PosIn i p Hin)). lia. }
  assert (R : Forall2 (mut_ok es (enum_from 0 positions)) muts mes).
  { eapply (init_trees_muts_all L ns es Ins Rem q HV HI HQ (enum_from 0 positions) HS (enum_from_SS _ 0)) with (tl := 0); eauto.
    - intros [i p] Hin. unfold spos. simpl. destruct (HP p (PosIn i p Hin)). lia.
    - apply pre_init_n; [apply (Hok_id L ns es HV)|]. unfold zlen. lia.
    - intros m Hm. apply MR. exact Hm.
    - rewrite FA. intros m Hm. destruct (MR m Hm) as [M1 _].
      destruct (get_ok positions (fst m) M1) as [p Gp]. exists (fst m, p). split; [apply get_enum; exact Gp | reflexivity].
    - rewrite FA. exact H. }
  eapply Forall2_impl; [|exact R]. intros m e (pos & Hin & ->). exists pos. split; [apply get_enum; exact Hin | reflexivity].
Qed.

(* ---- reverse entry k is tree num_trees - 1 - k ---- *)
Lemma sorted_lt_unique : forall a b : list Z,
  StronglySorted Z.lt a -> StronglySorted Z.lt b -> (forall x, In x a <-> In x b) -> a = b.
Proof.
  induction a as [|x a IH]; intros b Sa Sb H.
  - destruct b as [|y b]; [reflexivity|]. exfalso. apply (H y). left; reflexivity.
  - destruct b as [|y b]; [exfalso; apply (H x); left; reflexivity|].
    apply StronglySorted_inv in Sa as [Sa1 Sa2]. apply StronglySorted_inv in Sb as [Sb1 Sb2].
    rewrite Forall_forall in Sa2, Sb2.
    assert (x = y).
    { destruct (proj1 (H x) (or_introl eq_refl)) as [E|Hx]; [auto|].
      destruct (proj2 (H y) (or_introl eq_refl)) as [E|Hy]; [auto|].
      specialize (Sa2 y Hy). specialize (Sb2 x Hx). lia. }
    subst y. f_equal. apply IH; auto. intros z. split; intros Hz.
    + destruct (proj1 (H z) (or_intror Hz)) as [E|X]; [|exact X]. subst z. specialize (Sa2 x Hz). lia.
    + destruct (proj2 (H z) (or_intror Hz)) as [E|X]; [|exact X]. subst z. specialize (Sb2 x Hz). lia.
Qed.

Lemma SS_snoc : forall (m : list Z) a, StronglySorted Z.lt m -> (forall y, In y m -> y < a) ->
  StronglySorted Z.lt (m ++ [a]).
Proof.
  induction m as [|x m IHm]; intros a Sm Hm; simpl; [constructor; constructor|].
  apply StronglySorted_inv in Sm as [Sm1 Sm2]. rewrite Forall_forall in Sm2. constructor.
  - apply IHm; [exact Sm1 | intros; apply Hm; right; assumption].
  - apply Forall_forall. intros y Hy. apply in_app_iff in Hy as [Hy|[<-|[]]]; [auto | apply Hm; left; reflexivity].
Qed.

Lemma SS_rev_mirror L : forall l, StronglySorted Z.lt l -> StronglySorted Z.lt (rev (map (fun b => L - b) l)).
Proof.
  induction l as [|x r IH]; intros S; simpl; [constructor|].
  apply StronglySorted_inv in S as [S1 S2]. rewrite Forall_forall in S2.
  apply SS_snoc; [apply IH; exact S1|].
  intros y Hy. apply in_rev in Hy. apply in_map_iff in Hy as (z & <- & Hz). specialize (S2 z Hz). lia.
Qed.

Lemma get_rev {A} (l : list A) k : 0 <= k < zlen l -> get (rev l) k = get l (zlen l - 1 - k).
Proof.
  intros Hk. unfold get, zlen in *.
  destruct (k <? 0) eqn:E1; [apply Z.ltb_lt in E1; lia|].
  destruct (Z.of_nat (length l) - 1 - k <? 0) eqn:E2; [apply Z.ltb_lt in E2; lia|].
  destruct (nth_error l (Z.to_nat (Z.of_nat (length l) - 1 - k))) as [a|] eqn:G.
  - rewrite (nth_error_nth' _ a) by (rewrite rev_length; lia).
    rewrite rev_nth by lia. f_equal.
    replace (length l - S (Z.to_nat k))%nat with (Z.to_nat (Z.of_nat (length l) - 1 - k)) by lia.
    apply nth_error_nth. exact G.
  - apply nth_error_None in G. lia.
Qed.

Lemma reverse_intervals_lemma L ns es Ins Rem q :
  valid_edgesb L ns es = true -> index_sorted es Ins Rem -> mk_tseq L ns es Ins Rem = Ok q ->
  exists steps,
    edge_diffs_reverse L (q_I q) (q_O q) false = Ok (map (rdiff L) steps) /\
    zlen steps = q_ntrees q /\
    forall k s, nth_error steps k = Some s ->
      get (q_bps q) (q_ntrees q - 1 - Z.of_nat k) = Ok (L - s_right s) /\
      get (q_bps q) (q_ntrees q - Z.of_nat k) = Ok (L - s_left s).
Proof.
  intros HVb HI HQ.
  destruct (mk_tseq_inv L ns es Ins Rem q HQ) as (st0 & oe0 & RI & RO & _).
  destruct (index_sorted_mirror L es Ins Rem (q_I q) (q_O q) HI RI RO) as (HIm & R1 & R2).
  pose proof (valid_mirror L ns es HVb) as HVm.
  destruct (mk_tseq_total L ns (map (mirror_e L) es) (rev Rem) (rev Ins) (valid_edgesb_spec _ _ _ HVm) HIm) as [qm HQm].
  destruct (mk_tseq_inv L ns _ _ _ qm HQm) as (st1 & oe1 & RI' & RO' & _).
  assert (EI : q_I qm = map (mirror L) (rev (q_O q))) by congruence.
  assert (EO : q_O qm = map (mirror L) (rev (q_I q))) by congruence.
  destruct (tseq_facts L ns _ _ _ qm HVm HIm HQm) as (steps & Oend & SW & CH & F & _ & _ & EBm & ENm & _).
  destruct (breakpoints_partition_lemma L ns es Ins Rem q HVb HI HQ) as (S1 & _ & _ & Z1 & _ & M1).
  destruct (breakpoints_partition_lemma L ns _ _ _ qm HVm HIm HQm) as (S2 & _ & _ & Z2 & _ & M2).
  assert (EQ : q_bps qm = rev (map (fun b => L - b) (q_bps q))).
  { apply sorted_lt_unique.
    - apply Sorted_StronglySorted; [intros a b c; lia | exact S2].
    - apply SS_rev_mirror. apply Sorted_StronglySorted; [intros a b c; lia | exact S1].
    - intros x. rewrite M2, <- in_rev, in_map_iff. split.
      + intros [->|[->|(e' & He' & Hx)]].
        * exists L. split; [lia|]. apply M1. auto.
        * exists 0. split; [lia|]. apply M1. auto.
        * apply in_map_iff in He' as (e & <- & He). simpl in Hx.
          destruct Hx as [->| ->]; [exists (eright e) | exists (eleft e)]; (split; [lia|]); apply M1; right; right; exists e; auto.
      + intros (b & <- & Hb). apply M1 in Hb as [->|[->|(e & He & Hx)]]; [right; left; lia | left; lia |].
        right; right. exists (mirror_e L e). split; [apply in_map; exact He|]. simpl.
        destruct Hx as [->| ->]; [right | left]; reflexivity. }
  assert (LEN : zlen (q_bps qm) = zlen (q_bps q)).
  { rewrite EQ. unfold zlen. rewrite rev_length, map_length. reflexivity. }
  exists steps. split; [|split].
  - unfold edge_diffs_reverse.
    unfold sweep in SW. rewrite EI, EO in SW.
    replace (sweep_fuel (map (mirror L) (rev (q_O q))) (map (mirror L) (rev (q_I q))))
      with (sweep_fuel (q_I q) (q_O q)) in SW
      by (unfold sweep_fuel; rewrite !map_length, !rev_length; lia).
    replace 0 with (L - L) in SW by lia.
    destruct (sweep_mirror_back L _ L _ _ _ _ SW) as (Kend & ER & _).
    rewrite ER. reflexivity.
  - lia.
  - intros k s Hk. destruct (bps_get L _ _ _ _ _ CH k s Hk) as [B1 B2]. rewrite <- EBm in B1, B2.
    assert (KR : Z.of_nat k < zlen steps).
    { assert (nth_error steps k <> None) by congruence. apply nth_error_Some in H. unfold zlen. lia. }
    rewrite EQ in B1, B2.
    rewrite get_rev in B1 by (unfold zlen in *; rewrite map_length; lia).
    rewrite get_rev in B2 by (unfold zlen in *; rewrite map_length; lia).
    rewrite get_map in B1, B2.
    assert (ZM : zlen (map (fun b => L - b) (q_bps q)) = q_ntrees q + 1) by (unfold zlen in *; rewrite map_length; lia).
    rewrite ZM in B1, B2.
    replace (q_ntrees q + 1 - 1 - (Z.of_nat k + 1)) with (q_ntrees q - 1 - Z.of_nat k) in B2 by lia.
    replace (q_ntrees q + 1 - 1 - Z.of_nat k) with (q_ntrees q - Z.of_nat k) in B1 by lia.
    split.
    + destruct (get (q_bps q) (q_ntrees q - 1 - Z.of_nat k)); try discriminate. inversion B2. f_equal. lia.
    + destruct (get (q_bps q) (q_ntrees q - Z.of_nat k)); try discriminate. inversion B1. f_equal. lia.
Qed.
