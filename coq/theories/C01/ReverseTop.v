(* Reverse edge diffs: replay theorem, assembled from the mirrored forward theory. *)
From Coq Require Import List ZArith Bool Lia Sorting.Sorted Permutation.
From TskVerif Require Import Base.Common.
From TskVerif Require Import C01.Model.
From TskVerif Require Import C01.ArrayLemmas.
From TskVerif Require Import C01.SweepProofs.
From TskVerif Require Import C01.ProjProofs.
From TskVerif Require Import C01.TreeProofs.
From TskVerif Require Import C01.ReverseProofs.
From TskVerif Require Import C01.Theorems.
Import ListNotations.
Open Scope Z_scope.

Lemma edge_diffs_reverse_replay_lemma L ns es Ins Rem q :
  valid_edgesb L ns es = true -> index_sorted es Ins Rem -> mk_tseq L ns es Ins Rem = Ok q ->
  exists steps Ps,
    edge_diffs_reverse L (q_I q) (q_O q) false = Ok (map (rdiff L) steps) /\
    (forall s, In s steps ->
       s_left s < s_right s /\
       map fst (s_out s) = map fst (filter (fun ie => ileft ie =? L - s_left s) (rev (q_I q))) /\
       map fst (s_in s) = map fst (filter (fun ie => iright ie =? L - s_left s) (rev (q_O q)))) /\
    par_steps (repeat NULL (Z.to_nat (zlen ns + 1))) steps = Ok Ps /\
    Forall2 (fun s P => forall x, L - s_right s <= x < L - s_left s ->
               forall u, 0 <= u < zlen ns -> get P u = Ok (parent_at es x u)) steps Ps.
Proof.
  intros HVb HI HQ.
  destruct (mk_tseq_inv L ns es Ins Rem q HQ) as (st0 & oe0 & RI & RO & _).
  destruct (index_sorted_mirror L es Ins Rem (q_I q) (q_O q) HI RI RO) as (HIm & R1 & R2).
  pose proof (valid_mirror L ns es HVb) as HVm.
  destruct (mk_tseq_total L ns (map (mirror_e L) es) (rev Rem) (rev Ins) (valid_edgesb_spec _ _ _ HVm) HIm) as [qm HQm].
  destruct (mk_tseq_inv L ns _ _ _ qm HQm) as (st1 & oe1 & RI' & RO' & _).
  assert (EI : q_I qm = map (mirror L) (rev (q_O q))) by congruence.
  assert (EO : q_O qm = map (mirror L) (rev (q_I q))) by congruence.
  destruct (tseq_facts L ns _ _ _ qm HVm HIm HQm) as (steps & Oend & SW & CH & F & _).
  pose proof (valid_edgesb_spec _ _ _ HVm) as HVmp.
  destruct (par_steps_total L ns _ _ _ qm HVmp HIm HQm 0 _ _ steps Oend CH F
              (repeat NULL (Z.to_nat (zlen ns + 1)))) as (Ps & EP & FA).
  { apply ParentProofs.pre_init; [apply (Hok' L ns _ HVmp)|]. unfold zlen. lia. }
  exists steps, Ps. split; [|split; [|split; [exact EP|]]].
  - unfold edge_diffs_reverse.
    unfold sweep in SW. rewrite EI, EO in SW.
    replace (sweep_fuel (map (mirror L) (rev (q_O q))) (map (mirror L) (rev (q_I q))))
      with (sweep_fuel (q_I q) (q_O q)) in SW
      by (unfold sweep_fuel; rewrite !map_length, !rev_length; lia).
    replace 0 with (L - L) in SW by lia.
    destruct (sweep_mirror_back L _ L _ _ _ _ SW) as (Kend & ER & _).
    rewrite ER. reflexivity.
  - intros s Hs. rewrite Forall_forall in F. destruct (F s Hs) as (SO & SI & _ & _ & B1 & _).
    split; [lia|]. rewrite SO, SI, EO, EI. rewrite !filter_map_comm, !map_map. simpl.
    split; (f_equal; apply filter_ext; intros ie; unfold iright, ileft, mirror; simpl;
            match goal with |- (?a =? ?b) = (?c =? ?d) => destruct (Z.eqb_spec a b), (Z.eqb_spec c d); try reflexivity; lia end).
  - clear -FA. induction FA as [|s P ss Ps' HsP FA' IH]; constructor; auto.
    intros x Hx u Hu. destruct (HsP (L - 1 - x) ltac:(lia)) as [_ G].
    rewrite (G u Hu). rewrite parent_at_mirror. f_equal. f_equal. lia.
Qed.

From TskVerif Require Import C01.SitesProofs.

Lemma tree_sites_exact_lemma L ns es Ins Rem q :
  valid_edgesb L ns es = true -> index_sorted es Ins Rem -> mk_tseq L ns es Ins Rem = Ok q ->
  forall positions muts nem steps Oend ids mes,
  sorted_by spos (enum_from 0 positions) -> (forall p, In p positions -> 0 <= p) ->
  sweep L (q_I q) (q_O q) = Ok (steps, Oend) ->
  init_trees_sites steps nem (enum_from 0 positions) muts = Ok (ids, mes) ->
  Forall2 (fun s l => l = map fst (filter (in_tree s) (enum_from 0 positions))) steps ids /\
  (forall k s, nth_error steps k = Some s ->
     get (q_bps q) (Z.of_nat k) = Ok (s_left s) /\ get (q_bps q) (Z.of_nat k + 1) = Ok (s_right s)).
Proof.
  intros HVb HI HQ positions muts nem steps Oend ids mes HS HP SW H.
  destruct (tseq_facts L ns es Ins Rem q HVb HI HQ) as (steps' & Oend' & SW' & CH & F & _ & _ & EB & _).
  rewrite SW in SW'. inversion SW'; subst steps' Oend'. split.
  - eapply (init_trees_sites_spec L (q_I q) (q_O q) (enum_from 0 positions) HS 0); eauto.
    rewrite filter_all_true; [exact H|].
    intros [i p] Hin. apply Z.leb_le. unfold spos. simpl. apply HP.
    clear -Hin. revert Hin. generalize 0. induction positions as [|x r IH]; intros z Hin; simpl in Hin; [destruct Hin|].
    destruct Hin as [X|X]; [inversion X; left; reflexivity | right; eapply IH; eauto].
  - intros k s Hk. rewrite EB. eapply bps_get; eauto.
Qed.

From TskVerif Require Import C01.ParentProofs.
From TskVerif Require Import C01.EdgeProofs.
From TskVerif Require Import C01.MutEdgeProofs.

Lemma mutation_edge_exact_lemma L ns es Ins Rem q :
  valid_edgesb L ns es = true -> index_sorted es Ins Rem -> mk_tseq L ns es Ins Rem = Ok q ->
  forall positions muts steps Oend ids mes,
  sorted_by spos (enum_from 0 positions) -> (forall p, In p positions -> 0 <= p) ->
  (forall m, In m muts -> 0 <= snd m < zlen ns) ->
  sweep L (q_I q) (q_O q) = Ok (steps, Oend) ->
  init_trees_sites steps (repeat NULL (length ns)) (enum_from 0 positions) muts = Ok (ids, mes) ->
  exists consumed rest, muts = consumed ++ rest /\
    Forall2 (fun m e => exists pos, In (fst m, pos) (enum_from 0 positions) /\
                                    e = parent_at (es_id es) pos (snd m)) consumed mes.
Proof.
  intros HVb HI HQ positions muts steps Oend ids mes HS HP MR SW H.
  pose proof (valid_edgesb_spec _ _ _ HVb) as HV.
  destruct (tseq_facts L ns es Ins Rem q HVb HI HQ) as (steps' & Oend' & SW' & CH & F & _).
  rewrite SW in SW'. inversion SW'; subst steps' Oend'.
  replace (length ns) with (Z.to_nat (zlen ns)) in H by (unfold zlen; lia).
  eapply (init_trees_muts_spec L ns es Ins Rem q HV HI HQ (enum_from 0 positions) HS 0); eauto.
  - apply pre_init_n; [apply (Hok_id L ns es HV)|]. unfold zlen. lia.
  - rewrite filter_all_true; [exact H|].
    intros [i p] Hin. apply Z.leb_le. unfold spos. simpl. apply HP.
    clear -Hin. revert Hin. generalize 0. induction positions as [|x r IH]; intros z Hin; simpl in Hin; [destruct Hin|].
    destruct Hin as [X|X]; [inversion X; left; reflexivity | right; eapply IH; eauto].
Qed.
